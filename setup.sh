#!/bin/sh
# Build the harness from files on disk only (offline). Every check rebuilds from /repo's current tree anyway; this warms the Go build cache.
set -e
cd "$(dirname "$0")"
export GOFLAGS=-mod=mod GOPROXY=off GOSUMDB=off GOTOOLCHAIN=local
/usr/bin/python3 -c "
import sys; sys.path.insert(0,'lib')
import common
print(common.build())
print(common.build(race=True))
"
