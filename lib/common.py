"""Shared machinery for the /verif checks: build, sharded worker execution with crash
attribution, CPython oracle pool, known-findings matching, evidence writing."""
import atexit
import json, os, sys, subprocess, tempfile, shutil, time, hashlib, random, io, traceback, signal
import multiprocessing, concurrent.futures

ROOT = os.path.dirname(os.path.dirname(os.path.abspath(__file__)))
REPO = os.environ.get('VERIF_REPO', '/repo')
BUILD = os.path.join(ROOT, '.build')
HARNESS = os.path.join(ROOT, 'harness')
NCPU = min(16, os.cpu_count() or 4)


def seed():
    try:
        return int(os.environ.get('VERIF_SEED', '1'))
    except ValueError:
        return 1


def rng(pid, stream=''):
    h = hashlib.sha256(('%d|%s|%s' % (seed(), pid, stream)).encode()).digest()
    return random.Random(int.from_bytes(h[:8], 'big'))


def go_env():
    e = dict(os.environ)
    e.update(GOFLAGS='-mod=mod', GOPROXY='off', GOSUMDB='off', GOTOOLCHAIN='local')
    e.setdefault('GOCACHE', os.path.join(os.path.expanduser('~'), '.cache', 'go-build'))
    return e


_built = {}


def build(race=False, go='go'):
    """Build vrun from /repo's *current working tree* with -tags verif. Go's build cache keeps this fast."""
    key = (race, go)
    if key in _built:
        return _built[key]
    os.makedirs(BUILD, exist_ok=True)
    # go.sum of the harness = repo's go.sum + the harness' own extra sums (porcupine); replaced atomically (checks may start together)
    sums = open(os.path.join(REPO, 'go.sum')).read()
    extra = os.path.join(HARNESS, 'go.sum.extra')
    if os.path.exists(extra):
        sums += open(extra).read()
    tmp_sum = os.path.join(HARNESS, 'go.sum.%d' % os.getpid())
    with open(tmp_sum, 'w') as f:
        f.write(sums)
    os.replace(tmp_sum, os.path.join(HARNESS, 'go.sum'))
    name = 'vrun' + ('-race' if race else '') + ('' if go == 'go' else '-' + go)
    # one binary per driver process: two checks started at the same time never replace each other's executable
    out = os.path.join(BUILD, '%s.%d' % (name, os.getpid()))
    atexit.register(lambda p_=out: os.path.exists(p_) and os.remove(p_))
    cmd = [go, 'build', '-tags', 'verif']
    if os.path.abspath(REPO) != '/repo':
        # scratch copy of the repository (mutant calibration): same harness, alternative module file
        alt = os.path.join(HARNESS, 'go.alt.%d.mod' % os.getpid())   # per process: several scratch trees may be checked at the same time
        atexit.register(lambda a_=alt: [os.path.exists(x_) and os.remove(x_) for x_ in (a_, a_[:-4] + '.sum')])
        with open(alt, 'w') as f:
            f.write(open(os.path.join(HARNESS, 'go.mod')).read().replace('=> /repo', '=> ' + os.path.abspath(REPO)))
        with open(alt[:-4] + '.sum', 'w') as f:
            f.write(sums)
        cmd.append('-modfile=' + alt)
    if race:
        cmd.append('-race')
    cmd += ['-o', out, './cmd/vrun']
    t0 = time.time()
    p = subprocess.run(cmd, cwd=HARNESS, env=go_env(), stdout=subprocess.PIPE, stderr=subprocess.STDOUT, text=True)
    if p.returncode != 0:
        sys.stdout.write(p.stdout)
        print('BUILD-FAILED: the harness does not build against the current /repo tree', flush=True)
        sys.exit(2)
    _built[key] = out
    return out


def scratch_dir(prefix='verif-'):
    return tempfile.mkdtemp(prefix=prefix)


def _run_shard(binary, mode, shard_path, out_path, prog_path, timeout_case, extra, env, ncases, wall_cap, log_path):
    """Run one shard to completion, restarting after crashes/timeouts. Returns list of synthetic records for crashed cases."""
    synthetic = []
    skip = 0
    restarts = 0
    while skip < ncases:
        cmd = [binary, '-mode', mode, '-in', shard_path, '-out', out_path, '-progress', prog_path,
               '-skip', str(skip), '-timeout', '%ds' % timeout_case] + extra
        with open(log_path, 'ab') as lf:
            try:
                p = subprocess.run(cmd, stdout=lf, stderr=lf, env=env, timeout=wall_cap, cwd=os.path.dirname(shard_path))
                rc = p.returncode
            except subprocess.TimeoutExpired:
                rc = -999
        if rc == 0:
            break
        # find the culprit: last line of the progress file
        last_n, last_id = None, None
        try:
            with open(prog_path) as pf:
                lines = pf.read().strip().split('\n')
            if lines and lines[-1]:
                a, _, b = lines[-1].partition(' ')
                last_n, last_id = int(a), b
        except Exception:
            pass
        if last_n is None:
            synthetic.append({'id': '__shard__', 'shard_failed': True, 'rc': rc})
            break
        if rc == 5:
            skip = last_n   # -percase: one fresh process per case
            continue
        if rc == 3:
            pass  # per-case timeout: the worker already wrote a timeout record
        else:
            tail = ''
            try:
                with open(log_path, 'rb') as lf:
                    lf.seek(max(0, os.path.getsize(log_path) - 6000))
                    tail = lf.read().decode('utf-8', 'replace')
            except Exception:
                pass
            # the reason of a Go runtime abort is the FIRST line of a long goroutine dump: look for the last such line in the log
            try:
                with open(log_path, 'rb') as lf:
                    lf.seek(max(0, os.path.getsize(log_path) - (8 << 20)))
                    big = lf.read().decode('utf-8', 'replace')
                why = [l for l in big.split('\n') if l.startswith(('fatal error:', 'panic:', 'runtime: out of memory', 'runtime: cannot allocate', 'SIGSEGV', 'unexpected fault address'))]
                if why and why[-1] not in tail:
                    tail = why[-1] + '\n...\n' + tail
            except Exception:
                pass
            kind = 'wall_timeout' if rc == -999 else 'crash'
            synthetic.append({'id': last_id, kind: True, 'rc': rc, 'log_tail': tail})
        skip = last_n
        restarts += 1
        if restarts > 200:
            synthetic.append({'id': '__shard__', 'shard_failed': True, 'rc': rc, 'too_many_restarts': True})
            break
    return synthetic


def run_vrun(mode, cases, workers=None, timeout_case=20, race=False, extra=None, wall_cap=3000, keep=False, go='go', envx=None, shuffle_seed=None):
    """Run cases (list of dicts with 'id') through vrun worker processes. Returns (results by id, meta)."""
    binary = build(race=race, go=go)
    workers = workers or NCPU
    extra = list(extra or [])
    d = scratch_dir('vrun-%s-' % mode)
    env = go_env()
    if race:
        env['GORACE'] = 'halt_on_error=0 log_path=%s' % os.path.join(d, 'race')
    if envx:
        env.update(envx)
    nshards = max(1, min(workers, len(cases)))
    shards = [[] for _ in range(nshards)]
    for i, c in enumerate(cases):
        shards[i % nshards].append(c)
    jobs = []
    for i, sh in enumerate(shards):
        sp = os.path.join(d, 'in%d.jsonl' % i)
        with open(sp, 'w') as f:
            for c in sh:
                f.write(json.dumps(c) + '\n')
        jobs.append((binary, mode, sp, os.path.join(d, 'out%d.jsonl' % i), os.path.join(d, 'prog%d' % i), timeout_case, extra, env, len(sh), wall_cap, os.path.join(d, 'log%d' % i)))
    results = {}
    synthetic = []
    with concurrent.futures.ThreadPoolExecutor(max_workers=nshards) as ex:
        for syn in ex.map(lambda j: _run_shard(*j), jobs):
            synthetic.extend(syn)
    for i in range(nshards):
        op = os.path.join(d, 'out%d.jsonl' % i)
        if os.path.exists(op):
            with open(op, errors='replace') as f:
                for line in f:
                    line = line.strip()
                    if not line:
                        continue
                    try:
                        r = json.loads(line)
                    except Exception:
                        continue
                    rid = r.get('id')
                    if rid == '__summary__':
                        results.setdefault('__summary__', []).append(r)
                    else:
                        results[rid] = r
    for s in synthetic:
        if s['id'] == '__shard__':
            results.setdefault('__shard_failed__', []).append(s)
        else:
            results[s['id']] = s
    meta = {'dir': d, 'race_reports': []}
    if race:
        meta['race_reports'] = collect_race_reports(d)
    if not keep:
        shutil.rmtree(d, ignore_errors=True)
    return results, meta


def collect_race_reports(d):
    """Parse GORACE log files: returns list of report texts, deduplicated by line-stripped stack pair."""
    reports = []
    for fn in sorted(os.listdir(d)):
        if fn.startswith('race.'):
            txt = open(os.path.join(d, fn), errors='replace').read()
            for block in txt.split('=================='):
                if 'WARNING: DATA RACE' in block:
                    reports.append(block.strip())
    seen = {}
    import re
    for b in reports:
        funcs = [l.strip() for l in b.split('\n') if l.startswith('  ') and '(' in l and not l.strip().startswith('/')]
        key = '|'.join(re.sub(r'\(.*', '', f) for f in funcs[:12])
        seen.setdefault(key, b)
    return list(seen.values())


# ----------------------------------------------------------------------------------------------
# CPython oracle

def _oracle_one(case):
    """Execute a program under CPython; return observation dict like vrun exec's."""
    src = case['src']
    mode = case.get('mode') or 'exec'
    files = case.get('files')
    res = {'id': case['id']}
    buf = io.StringIO()
    old = sys.stdout
    olderr = sys.stderr
    tmpd = None
    saved_path = list(sys.path)
    saved_mods = set(sys.modules)
    try:
        if files:
            tmpd = tempfile.mkdtemp(prefix='oracle-mod-')
            for name, content in files.items():
                p = os.path.join(tmpd, name)
                os.makedirs(os.path.dirname(p), exist_ok=True)
                with open(p, 'w') as f:
                    f.write(content)
            sys.path.insert(0, tmpd)
            sys.dont_write_bytecode = True
        try:
            import warnings
            with warnings.catch_warnings():
                warnings.simplefilter('ignore')
                code = compile(src, '<case>', mode, dont_inherit=True)
        except SyntaxError as e:
            res['cerr'] = type(e).__name__
            res['cmsg'] = str(e)
            res['out'] = ''
            return res
        except (ValueError, OverflowError, MemoryError, RecursionError) as e:
            res['cerr'] = type(e).__name__
            res['out'] = ''
            return res
        g = {'__name__': '__main__', '__builtins__': __builtins__}
        sys.stdout = buf
        sys.stderr = buf
        try:
            if mode == 'eval':
                v = eval(code, g)
                res['val'] = repr(v)
            else:
                exec(code, g)
        except BaseException as e:
            sys.stdout = old
            sys.stderr = olderr
            res['exc'] = type(e).__name__
            try:
                res['excmsg'] = str(e)
            except Exception:
                res['excmsg'] = '?'
            tb = []
            t = e.__traceback__
            while t is not None:
                co = t.tb_frame.f_code
                if co.co_filename == '<case>' or (tmpd and co.co_filename.startswith(tmpd)):
                    tb.append([co.co_name, t.tb_lineno])
                t = t.tb_next
            res['tb'] = tb
        finally:
            sys.stdout = old
            sys.stderr = olderr
        res['out'] = buf.getvalue()
    finally:
        sys.stdout = old
        sys.stderr = olderr
        if tmpd:
            sys.path[:] = saved_path
            for m in list(sys.modules):
                if m not in saved_mods:
                    del sys.modules[m]
            import importlib
            importlib.invalidate_caches()
            shutil.rmtree(tmpd, ignore_errors=True)
    return res


_alarm_fired = [False]


def _oracle_chunk(chunk):
    out = []
    for c in chunk:
        _alarm_fired[0] = False
        try:
            signal.alarm(60)
            r = _oracle_one(c)
            # the watchdog's TimeoutError is raised INSIDE the program under observation, which may catch it or report it as its own
            # exception: whatever was observed then is not a reference observation
            out.append(r if not _alarm_fired[0] else {'id': c['id'], 'oracle_failed': 'oracle watchdog fired (60 s wall clock) while the reference run was in progress'})
        except BaseException as e:  # includes alarm
            out.append({'id': c['id'], 'oracle_failed': repr(e)})
        finally:
            signal.alarm(0)
    return out


def _alarm(signum, frame):
    _alarm_fired[0] = True
    raise TimeoutError('oracle watchdog')


def _oracle_init():
    signal.signal(signal.SIGALRM, _alarm)
    sys.setrecursionlimit(3000)


def oracle_exec(cases, workers=None):
    """Run cases under CPython (this interpreter) in a process pool. Returns dict id -> observation."""
    workers = workers or NCPU
    if not cases:
        return {}
    n = max(1, min(workers, len(cases)))
    chunks = [cases[i::n * 4] for i in range(n * 4)]
    chunks = [c for c in chunks if c]
    res = {}
    ctx = multiprocessing.get_context('fork')
    with ctx.Pool(n, initializer=_oracle_init) as pool:
        for out in pool.imap_unordered(_oracle_chunk, chunks):
            for r in out:
                res[r['id']] = r
    return res


# ----------------------------------------------------------------------------------------------
# known findings, violations, evidence

def load_known(pid):
    path = os.path.join(ROOT, 'known_findings.jsonl')
    out = []
    if os.path.exists(path):
        for line in open(path):
            line = line.strip()
            if not line or line.startswith('#'):
                continue
            try:
                r = json.loads(line)
            except Exception:
                continue
            if r.get('property') == pid and r.get('status') == 'known':
                out.append(r)
    return out


class Reporter:
    """Collects per-case verdicts for one property; decides exit status; writes evidence + replay files."""

    def __init__(self, pid, tier, level='exploration'):
        self.pid = pid
        self.tier = tier
        self.level = level
        self.t0 = time.time()
        self.violations = []      # (sig, witness dict)
        self.known_hits = {}      # finding id -> count
        self.inconclusive = []
        self.broken = []
        self.known = load_known(pid)
        self.extra = {}
        self.samples = []
        self.evaluations = 0
        self.nontrivial = set()
        self.rule = ''
        self.assumptions = []
        rdir = os.path.join(os.environ.get('VERIF_EVIDENCE_DIR') or ROOT, 'replay', pid)
        if os.path.isdir(rdir):
            for fn in os.listdir(rdir):
                if fn.startswith('v%s_' % tier[0]):
                    os.unlink(os.path.join(rdir, fn))

    def violation(self, sig, witness):
        """sig: signature string. A known finding matches when its 'sig' equals the signature
        (exact) or, if it has 'sig_prefix', when the signature starts with it."""
        for k in self.known:
            if ('sig' in k and k['sig'] == sig) or ('sig_prefix' in k and sig.startswith(k['sig_prefix'])) or ('sig_re' in k and __import__('re').fullmatch(k['sig_re'], sig)):
                self.known_hits.setdefault(k['id'], [0, k])[0] += 1
                return False
        self.violations.append((sig, witness))
        return True

    def inconc(self, what):
        self.inconclusive.append(what)

    def broke(self, what):
        self.broken.append(what)

    def finish(self, min_nontrivial=2, max_inconclusive_frac=0.02):
        wall = time.time() - self.t0
        rdir = os.path.join(os.environ.get('VERIF_EVIDENCE_DIR') or ROOT, 'replay', self.pid)
        # group violations by signature; one replay file per signature (first witness + count)
        bysig = {}
        for sig, w in self.violations:
            bysig.setdefault(sig, []).append(w)
        lines = []
        if bysig:
            os.makedirs(rdir, exist_ok=True)
        for i, (sig, ws) in enumerate(sorted(bysig.items())):
            if i >= 120:
                print('  signature: %s  (x%d)' % (sig, len(ws)))
                continue
            path = os.path.join(rdir, 'v%s_%03d.json' % (self.tier[0], i))
            with open(path, 'w') as f:
                json.dump({'property': self.pid, 'signature': sig, 'count': len(ws), 'seed': seed(), 'tier': self.tier, 'witnesses': ws[:5]}, f, indent=1, default=str)
            lines.append('VIOLATION property=%s replay=%s' % (self.pid, path))
            print('  signature: %s  (x%d)' % (sig, len(ws)))
        for fid, (cnt, k) in sorted(self.known_hits.items()):
            print('KNOWN-FINDING: property=%s %s [%s; %d cases this run]' % (self.pid, k.get('what', ''), fid, cnt))
        for l in lines:
            print(l)
        ninc = len(self.inconclusive)
        status = 0
        if lines:
            status = 1
        nontriv = len(self.nontrivial)
        if self.evaluations == 0 or nontriv < min_nontrivial:
            self.broken.append('observed too little: evaluations=%d distinct_nontrivial=%d' % (self.evaluations, nontriv))
        if self.evaluations and ninc > max(3, max_inconclusive_frac * self.evaluations):
            self.broken.append('too many inconclusive cases: %d of %d (%s)' % (ninc, self.evaluations, self.inconclusive[:3]))
        cov = {
            'evaluations': int(self.evaluations),
            'distinct_nontrivial': int(nontriv),
            'rule': self.rule,
            'samples': self.samples[:8] if self.samples else ['(none)'],
            'inconclusive': ninc,
            'inconclusive_samples': self.inconclusive[:5],
            'known_finding_hits': {fid: c for fid, (c, k) in self.known_hits.items()},
            'violating_signatures': len(bysig),
        }
        cov.update(self.extra)
        ev = {
            'property_id': self.pid, 'tier': self.tier, 'seed': seed(), 'level': self.level,
            'coverage': cov, 'assumptions': self.assumptions, 'wall_s': round(wall, 2),
            'violations': len(self.violations),
        }
        # (a run against a scratch tree - seed calibration - may be told to keep its evidence away from the committed files)
        evdir = os.environ.get('VERIF_EVIDENCE_DIR') or os.path.join(ROOT, 'evidence')
        os.makedirs(evdir, exist_ok=True)
        with open(os.path.join(evdir, self.pid + '.json'), 'w') as f:
            json.dump(ev, f, indent=1, default=str)
        if self.broken and status == 0:
            for b in self.broken:
                print('CHECK-BROKEN property=%s %s' % (self.pid, b))
            status = 2
        print('%s %s: evaluations=%d distinct_nontrivial=%d violations=%d (signatures=%d) known_hits=%d inconclusive=%d wall=%.1fs -> exit %d' % (
            self.pid, self.tier, self.evaluations, nontriv, len(self.violations), len(bysig), sum(c for c, _ in self.known_hits.values()), ninc, wall, status))
        return status


def short(s, n=300):
    s = str(s)
    return s if len(s) <= n else s[:n] + '...[%d more]' % (len(s) - n)
