module verif/harness

go 1.18

require (
	github.com/anishathalye/porcupine v1.3.0
	github.com/go-python/gpython v0.0.0
)

replace github.com/go-python/gpython => /repo
