package main

// compile mode (C11, C18): observe (code, err) of py.Compile at the API boundary, repeatedly.
// cconc direct mode (C18, C08): many goroutines compile a shuffled multiset concurrently (race build)
// while others run contexts; every result must equal the sequential reference dump.

import (
	"crypto/sha256"
	"encoding/hex"
	"encoding/json"
	"fmt"
	"math/rand"
	"os"
	"runtime/debug"
	"strings"
	"sync"
	"sync/atomic"
	"time"

	"github.com/go-python/gpython/py"
)

type compileCase struct {
	ID          string `json:"id"`
	Src         string `json:"src"`
	SrcHex      string `json:"src_hex"` // alternative to src for arbitrary bytes
	Mode        string `json:"mode"`
	N           int    `json:"n"`      // number of compilations (>=1)
	Verify      bool   `json:"verify"` // run the C12 verifier on the result
	Filename    string `json:"filename"`
	Between     string `json:"between"`      // another source compiled between repeats (interleaving)
	NoDump      bool   `json:"nodump"`       // do not render the dump (size stress)
	BetweenMode string `json:"between_mode"` // compile mode of the interleaved compilation
}

func init() {
	modes["compile"] = compileHandler
	directModes["cconc"] = cconcMain
}

func pyMode(s string) py.CompileMode {
	switch s {
	case "eval":
		return py.EvalMode
	case "single":
		return py.SingleMode
	}
	return py.ExecMode
}

func hashStr(s string) string {
	h := sha256.Sum256([]byte(s))
	return hex.EncodeToString(h[:8])
}

// errDetail describes a compile error at the API boundary
func errDetail(err error) map[string]interface{} {
	d := map[string]interface{}{}
	var exc *py.Exception
	switch e := err.(type) {
	case py.ExceptionInfo:
		if e.Type != nil {
			d["type"] = e.Type.Name
		}
		exc, _ = e.Value.(*py.Exception)
	case *py.ExceptionInfo:
		if e.Type != nil {
			d["type"] = e.Type.Name
		}
		exc, _ = e.Value.(*py.Exception)
	case *py.Exception:
		d["type"] = e.Type().Name
		exc = e
	default:
		d["type"] = fmt.Sprintf("<go:%T>", err)
		d["msg"] = err.Error()
		return d
	}
	if exc != nil {
		d["type"] = exc.Type().Name
		// family: is SyntaxError among the bases?
		fam := false
		for t := exc.Type(); t != nil; t = t.Base {
			if t == py.SyntaxError {
				fam = true
				break
			}
		}
		d["syntax_family"] = fam
		_, hasF := exc.Dict["filename"]
		_, hasL := exc.Dict["lineno"]
		_, hasO := exc.Dict["offset"]
		d["has_location"] = hasF && hasL && hasO
		if hasL {
			if l, ok := exc.Dict["lineno"].(py.Int); ok {
				d["lineno"] = int64(l)
			}
		}
		if hasF {
			if f, ok := exc.Dict["filename"].(py.String); ok {
				d["filename"] = string(f)
			}
		}
		d["msg"] = safeStr(exc)
	}
	return d
}

func compileHandler(raw json.RawMessage) map[string]interface{} {
	var c compileCase
	if err := json.Unmarshal(raw, &c); err != nil {
		return map[string]interface{}{"harness_panic": "bad case: " + err.Error()}
	}
	src := c.Src
	if c.SrcHex != "" {
		b, err := hex.DecodeString(c.SrcHex)
		if err != nil {
			return map[string]interface{}{"harness_panic": "bad hex"}
		}
		src = string(b)
	}
	if c.N < 1 {
		c.N = 1
	}
	fn := c.Filename
	if fn == "" {
		fn = "<case>"
	}
	res := map[string]interface{}{}
	mode := pyMode(c.Mode)
	var first string
	var firstErr string
	var maxus int64
	for i := 0; i < c.N; i++ {
		var code *py.Code
		var err error
		var pan interface{}
		var stack string
		t0 := time.Now()
		func() {
			defer func() {
				if r := recover(); r != nil {
					pan = r
					stack = trimStack(string(debug.Stack()))
				}
			}()
			code, err = py.Compile(src, fn, mode, 0, true)
		}()
		if us := time.Since(t0).Microseconds(); us > maxus {
			maxus = us
		}
		if pan != nil {
			res["panic"] = fmt.Sprint(pan)
			res["stack"] = stack
			break
		}
		var cur, curErr string
		if err != nil {
			d := errDetail(err)
			curErr, _ = d["type"].(string)
			if i == 0 {
				res["err"] = d
			}
		} else if code == nil {
			res["nil_code"] = true
			break
		} else {
			if c.NoDump {
				cur = "nodump"
			} else {
				cur = dumpCode(code)
			}
			if i == 0 {
				res["dump_hash"] = hashStr(cur)
				res["dump_len"] = len(cur)
				if c.Verify {
					vr := verifyCodeTree(code, src)
					res["vstat"] = vr.stats()
					if len(vr.Errors) > 0 {
						res["verrs"] = vr.Errors
					}
				}
			}
		}
		if i == 0 {
			first, firstErr = cur, curErr
		} else if cur != first || curErr != firstErr {
			res["repeat_diff"] = fmt.Sprintf("compilation %d differs from the first (err %q vs %q)", i, curErr, firstErr)
			if cur != "" && first != "" {
				res["diff_excerpt"] = firstDiff(first, cur)
			}
			break
		}
		if c.Between != "" {
			func() {
				defer func() { recover() }()
				py.Compile(c.Between, "<between>", pyMode(c.BetweenMode), 0, true)
			}()
		}
	}
	res["n"] = c.N
	res["max_us"] = maxus
	return res
}

func firstDiff(a, b string) string {
	la, lb := strings.Split(a, "\n"), strings.Split(b, "\n")
	for i := 0; i < len(la) && i < len(lb); i++ {
		if la[i] != lb[i] {
			return fmt.Sprintf("line %d: %.200s  !=  %.200s", i, la[i], lb[i])
		}
	}
	return fmt.Sprintf("length %d vs %d lines", len(la), len(lb))
}

// ---- concurrent compile ---------------------------------------------------------------------

type cconcOut struct {
	Sources     int      `json:"sources"`
	Compiles    int64    `json:"compiles"`
	Runs        int64    `json:"context_runs"`
	Mismatches  []string `json:"mismatches"`
	Panics      []string `json:"panics"`
	Goroutines  int      `json:"goroutines"`
	RunOutDiffs []string `json:"run_output_diffs"`
}

func cconcMain() int {
	data, err := os.ReadFile(*flagIn)
	if err != nil {
		fmt.Fprintln(os.Stderr, err)
		return 64
	}
	var cases []compileCase
	for _, line := range strings.Split(string(data), "\n") {
		line = strings.TrimSpace(line)
		if line == "" {
			continue
		}
		var c compileCase
		if json.Unmarshal([]byte(line), &c) == nil {
			cases = append(cases, c)
		}
	}
	G := 16
	rounds := 4
	fmt.Sscanf(*flagOpt, "%d,%d", &G, &rounds)
	out := &cconcOut{Sources: len(cases), Goroutines: G}
	// sequential reference
	ref := make([]string, len(cases))
	refErr := make([]string, len(cases))
	refOut := make([]string, len(cases))
	for i, c := range cases {
		code, err := safeCompile(c.Src, pyMode(c.Mode))
		if err != nil {
			refErr[i] = errType(err)
			continue
		}
		ref[i] = dumpCode(code)
	}
	// reference run outputs (solo) for the runnable subset (first 64)
	nrun := len(cases)
	if nrun > 64 {
		nrun = 64
	}
	for i := 0; i < nrun; i++ {
		if ref[i] != "" {
			refOut[i] = runSolo(cases[i].Src)
		}
	}
	var mu sync.Mutex
	addMis := func(s string) {
		mu.Lock()
		if len(out.Mismatches) < 20 {
			out.Mismatches = append(out.Mismatches, s)
		}
		mu.Unlock()
	}
	var wg sync.WaitGroup
	for g := 0; g < G; g++ {
		wg.Add(1)
		go func(g int) {
			defer wg.Done()
			defer func() {
				if r := recover(); r != nil {
					mu.Lock()
					out.Panics = append(out.Panics, fmt.Sprint(r)+" @ "+trimStack(string(debug.Stack())))
					mu.Unlock()
				}
			}()
			rr := rand.New(rand.NewSource(*flagSeed*977 + int64(g)))
			for r := 0; r < rounds; r++ {
				perm := rr.Perm(len(cases))
				for _, i := range perm {
					if g%4 == 3 && i < nrun && ref[i] != "" {
						// this goroutine runs contexts while the others compile
						o := runSolo(cases[i].Src)
						atomic.AddInt64(&out.Runs, 1)
						if o != refOut[i] {
							mu.Lock()
							if len(out.RunOutDiffs) < 10 {
								out.RunOutDiffs = append(out.RunOutDiffs, fmt.Sprintf("%s: %.120q vs solo %.120q", cases[i].ID, o, refOut[i]))
							}
							mu.Unlock()
						}
						continue
					}
					code, err := safeCompile(cases[i].Src, pyMode(cases[i].Mode))
					atomic.AddInt64(&out.Compiles, 1)
					if err != nil {
						if et := errType(err); et != refErr[i] {
							addMis(fmt.Sprintf("%s: concurrent compile error %q, sequential %q", cases[i].ID, et, refErr[i]))
						}
						continue
					}
					if d := dumpCode(code); d != ref[i] {
						addMis(fmt.Sprintf("%s: concurrent compile differs from sequential: %s", cases[i].ID, firstDiff(ref[i], d)))
					}
				}
			}
		}(g)
	}
	wg.Wait()
	b, _ := json.Marshal(out)
	os.WriteFile(*flagOut, append(b, '\n'), 0644)
	return 0
}

func safeCompile(src string, mode py.CompileMode) (code *py.Code, err error) {
	defer func() {
		if r := recover(); r != nil {
			err = fmt.Errorf("panic: %v", r)
		}
	}()
	return py.Compile(src, "<case>", mode, 0, true)
}

func errType(err error) string {
	t, _, _ := errInfo(err)
	return t
}

func runSolo(src string) string {
	res := map[string]interface{}{}
	runOne(src, "exec", nil, false, false, 0, res, "", false)
	o, _ := res["out"].(string)
	if e, ok := res["exc"].(string); ok {
		o += "\n!exc=" + e
	}
	if p, ok := res["panic"].(string); ok {
		o += "\n!panic=" + p
	}
	return o
}
