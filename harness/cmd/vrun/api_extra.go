package main

// apibatch mode: many api cases in one line of input (amortises process/JSON overhead when a property needs
// ~10^6 tiny operations, e.g. every string method on every short string).
// input : {"id": ..., "cases": [ <api case>, ... ]}      (ids of the inner cases are optional)
// output: {"id": ..., "results": [ <api result>, ... ]}  (same order; each inner case runs under the api handler's own recover())

import (
	"encoding/json"
	"fmt"
)

type apiBatch struct {
	ID    string            `json:"id"`
	Cases []json.RawMessage `json:"cases"`
}

func init() {
	modes["apibatch"] = apiBatchHandler
	setups["apibatch"] = func() {
		apiCtx, _ = newCtx(nil)
	}
}

func apiBatchHandler(raw json.RawMessage) map[string]interface{} {
	var b apiBatch
	if err := json.Unmarshal(raw, &b); err != nil {
		return map[string]interface{}{"harness_panic": "bad batch: " + err.Error()}
	}
	out := make([]map[string]interface{}, len(b.Cases))
	for i, c := range b.Cases {
		func() {
			defer func() {
				if r := recover(); r != nil {
					out[i] = map[string]interface{}{"panic": fmt.Sprint(r)}
				}
			}()
			out[i] = apiHandler(c)
		}()
	}
	return map[string]interface{}{"results": out}
}
