package main

// api mode: apply one py-level operation to operands decoded from JSON; return the result encoded
// unambiguously (ints as decimal text + representation, floats as IEEE bits, strings as code points).

import (
	"encoding/json"
	"fmt"
	"math"
	"math/big"
	"runtime/debug"
	"sort"
	"strconv"
	"strings"

	"github.com/go-python/gpython/py"
)

type jval struct {
	T     string   `json:"t"`
	V     string   `json:"v,omitempty"`    // int decimal text
	Big   bool     `json:"big,omitempty"`  // force *BigInt representation
	B     bool     `json:"b,omitempty"`    // bool value
	Bits  string   `json:"bits,omitempty"` // float bits hex
	Re    string   `json:"re,omitempty"`
	Im    string   `json:"im,omitempty"`
	Cps   []int32  `json:"cps,omitempty"`
	Hex   string   `json:"hex,omitempty"`
	Items []jval   `json:"items,omitempty"`
	Keys  []jval   `json:"keys,omitempty"` // dict keys (Items are the values)
	Ref   *int     `json:"ref,omitempty"`  // alias of argument #ref (same object)
	Name  string   `json:"name,omitempty"` // for t=builtin
	Extra []string `json:"extra,omitempty"`
}

func floatFromBits(h string) float64 {
	u, _ := strconv.ParseUint(h, 16, 64)
	return math.Float64frombits(u)
}

func decodeVal(j jval, args []py.Object) (py.Object, error) {
	if j.Ref != nil {
		if *j.Ref < 0 || *j.Ref >= len(args) {
			return nil, fmt.Errorf("bad ref")
		}
		return args[*j.Ref], nil
	}
	switch j.T {
	case "none":
		return py.None, nil
	case "bool":
		return py.NewBool(j.B), nil
	case "int":
		bi, ok := new(big.Int).SetString(j.V, 10)
		if !ok {
			return nil, fmt.Errorf("bad int %q", j.V)
		}
		if j.Big || !bi.IsInt64() {
			return (*py.BigInt)(bi), nil
		}
		return py.Int(bi.Int64()), nil
	case "float":
		return py.Float(floatFromBits(j.Bits)), nil
	case "complex":
		return py.Complex(complex(floatFromBits(j.Re), floatFromBits(j.Im))), nil
	case "str":
		var sb strings.Builder
		for _, c := range j.Cps {
			sb.WriteRune(rune(c))
		}
		return py.String(sb.String()), nil
	case "bytes":
		b := make([]byte, len(j.Hex)/2)
		for i := range b {
			v, _ := strconv.ParseUint(j.Hex[2*i:2*i+2], 16, 8)
			b[i] = byte(v)
		}
		return py.Bytes(b), nil
	case "list", "tuple", "set", "frozenset":
		items := make([]py.Object, len(j.Items))
		for i, it := range j.Items {
			v, err := decodeVal(it, args)
			if err != nil {
				return nil, err
			}
			items[i] = v
		}
		switch j.T {
		case "list":
			return py.NewListFromItems(items), nil
		case "tuple":
			return py.Tuple(items), nil
		case "set":
			return py.NewSetFromItems(items), nil
		default:
			return py.NewFrozenSetFromItems(items), nil
		}
	case "dict":
		d := py.NewStringDict()
		for i, k := range j.Keys {
			kv, err := decodeVal(k, args)
			if err != nil {
				return nil, err
			}
			vv, err := decodeVal(j.Items[i], args)
			if err != nil {
				return nil, err
			}
			d[string(kv.(py.String))] = vv
		}
		return d, nil
	case "range", "slice":
		items := make([]py.Object, len(j.Items))
		for i, it := range j.Items {
			v, err := decodeVal(it, args)
			if err != nil {
				return nil, err
			}
			items[i] = v
		}
		if j.T == "slice" {
			for len(items) < 3 {
				items = append(items, py.None)
			}
			return py.NewSlice(items[0], items[1], items[2]), nil
		}
		return py.RangeNew(py.RangeType, py.Tuple(items), nil)
	case "ellipsis":
		return py.Ellipsis, nil
	case "notimplemented":
		return py.NotImplemented, nil
	}
	return nil, fmt.Errorf("unknown value type %q", j.T)
}

func bitsHex(f float64) string { return fmt.Sprintf("%016x", math.Float64bits(f)) }

func encodeVal(o py.Object, depth int) map[string]interface{} {
	if depth > 8 {
		return map[string]interface{}{"t": "deep"}
	}
	if o == py.NotImplemented {
		return map[string]interface{}{"t": "notimplemented"}
	}
	switch v := o.(type) {
	case nil:
		return map[string]interface{}{"t": "nil"}
	case py.NoneType:
		return map[string]interface{}{"t": "none"}
	case py.Bool:
		return map[string]interface{}{"t": "bool", "b": bool(v)}
	case py.Int:
		return map[string]interface{}{"t": "int", "v": strconv.FormatInt(int64(v), 10), "rep": "int"}
	case *py.BigInt:
		return map[string]interface{}{"t": "int", "v": (*big.Int)(v).String(), "rep": "big"}
	case py.Float:
		return map[string]interface{}{"t": "float", "bits": bitsHex(float64(v))}
	case py.Complex:
		return map[string]interface{}{"t": "complex", "re": bitsHex(real(complex128(v))), "im": bitsHex(imag(complex128(v)))}
	case py.String:
		cps := []int32{}
		for _, r := range string(v) {
			cps = append(cps, int32(r))
		}
		return map[string]interface{}{"t": "str", "cps": cps, "nbytes": len(v)}
	case py.Bytes:
		return map[string]interface{}{"t": "bytes", "hex": fmt.Sprintf("%x", []byte(v))}
	case py.Tuple:
		items := make([]interface{}, len(v))
		for i, e := range v {
			items[i] = encodeVal(e, depth+1)
		}
		return map[string]interface{}{"t": "tuple", "items": items}
	case *py.List:
		items := make([]interface{}, len(v.Items))
		for i, e := range v.Items {
			items[i] = encodeVal(e, depth+1)
		}
		return map[string]interface{}{"t": "list", "items": items}
	case py.StringDict:
		keys := make([]string, 0, len(v))
		for k := range v {
			keys = append(keys, k)
		}
		sort.Strings(keys)
		ks := make([]interface{}, len(keys))
		items := make([]interface{}, len(keys))
		for i, k := range keys {
			ks[i] = encodeVal(py.String(k), depth+1)
			items[i] = encodeVal(v[k], depth+1)
		}
		return map[string]interface{}{"t": "dict", "keys": ks, "items": items}
	case *py.Set, *py.FrozenSet:
		// order-normalised: encode members then sort by their JSON text
		var members []py.Object
		it, err := py.Iter(o)
		if err == nil {
			for {
				x, err := py.Next(it)
				if err != nil {
					break
				}
				members = append(members, x)
			}
		}
		enc := make([]string, len(members))
		for i, m := range members {
			b, _ := json.Marshal(encodeVal(m, depth+1))
			enc[i] = string(b)
		}
		sort.Strings(enc)
		items := make([]interface{}, len(enc))
		for i, e := range enc {
			items[i] = json.RawMessage(e)
		}
		return map[string]interface{}{"t": o.Type().Name, "items": items}
	case *py.Range:
		return map[string]interface{}{"t": "range", "start": int64(v.Start), "stop": int64(v.Stop), "step": int64(v.Step), "len": int64(v.Length)}
	case *py.Slice:
		return map[string]interface{}{"t": "slice", "items": []interface{}{encodeVal(v.Start, depth+1), encodeVal(v.Stop, depth+1), encodeVal(v.Step, depth+1)}}
	case py.EllipsisType:
		return map[string]interface{}{"t": "ellipsis"}
	case *py.Type:
		return map[string]interface{}{"t": "type", "name": v.Name}
	}
	return map[string]interface{}{"t": "obj", "type": o.Type().Name}
}

type apiCase struct {
	ID    string `json:"id"`
	Op    string `json:"op"`
	Args  []jval `json:"args"`
	Alias bool   `json:"alias"` // after the op, mutate a list result and re-dump the operands
	Iter  bool   `json:"iter"`  // also return list(iter(result))
	Build string `json:"build"` // construction history of the first operand: "" (from items), list: "append", "shrunk"; tuple/bytes/list/str: "sliced" (a slice of a longer parent), "grown" (built from an iterator)
	Twice bool   `json:"twice"` // run the operation a second time with another right operand and re-read the first result
}

// rebuildImmutable returns a value equal to v with another history: "sliced" = the leading slice of a longer parent (which must stay intact),
// "grown" = built item by item from an iterator.  parent/want are nil when there is no parent to watch.
func rebuildImmutable(v py.Object, how string) (nv, parent, want py.Object, err error) {
	var n int
	var sentinels, mk func() py.Object
	switch x := v.(type) {
	case py.Tuple:
		n = len(x)
		mk = func() py.Object { return append(append(py.Tuple{}, x...), py.Int(-101), py.Int(-102), py.Int(-103)) }
		if how == "grown" {
			nv, err = py.SequenceTuple(py.NewIterator(py.NewListFromItems(append([]py.Object{}, x...))))
			return nv, nil, nil, err
		}
	case py.Bytes:
		n = len(x)
		mk = func() py.Object { return py.Bytes(append(append([]byte{}, x...), 0xf1, 0xf2, 0xf3)) }
		if how == "grown" {
			return v, nil, nil, nil
		}
	case *py.List:
		n = len(x.Items)
		mk = func() py.Object {
			return py.NewListFromItems(append(append([]py.Object{}, x.Items...), py.Int(-101), py.Int(-102), py.Int(-103)))
		}
		if how == "grown" {
			l := py.NewList()
			err = l.ExtendSequence(py.NewIterator(py.NewListFromItems(append([]py.Object{}, x.Items...))))
			return l, nil, nil, err
		}
	case py.String:
		n = len([]rune(string(x)))
		mk = func() py.Object { return x + py.String("\u00e9\u4e16Z") }
		if how == "grown" {
			return v, nil, nil, nil
		}
	default:
		return v, nil, nil, nil
	}
	_ = sentinels
	parent, want = mk(), mk()
	nv, err = py.GetItem(parent, &py.Slice{Start: py.None, Stop: py.Int(n), Step: py.None})
	if err != nil {
		// the type cannot be sliced (a missing feature, judged elsewhere): no second history for it
		return v, nil, nil, nil
	}
	return nv, parent, want, nil
}

// altOperand returns another value of the same kind and length as v (for the second run of an operation)
func altOperand(v py.Object) py.Object {
	switch x := v.(type) {
	case py.Tuple:
		t := make(py.Tuple, len(x))
		for i := range t {
			t[i] = py.Int(-700 - i)
		}
		return t
	case *py.List:
		l := py.NewListSized(len(x.Items))
		for i := range l.Items {
			l.Items[i] = py.Int(-700 - i)
		}
		return l
	case py.Bytes:
		b := make(py.Bytes, len(x))
		for i := range b {
			b[i] = 0xe0 + byte(i%16)
		}
		return b
	case py.String:
		return py.String(strings.Repeat("\u00fc", len([]rune(string(x)))))
	case py.Int:
		return x
	}
	return nil
}

// rebuildList returns a list with the same items as l but another history (its backing array has spare capacity)
func rebuildList(l *py.List, how string) (py.Object, error) {
	nl := py.NewList()
	for _, it := range l.Items {
		nl.Append(it)
	}
	if how == "shrunk" {
		n := len(l.Items)
		for i := 0; i < 3; i++ {
			nl.Append(py.Int(-100 - i))
		}
		if _, err := py.DelItem(nl, &py.Slice{Start: py.Int(n), Stop: py.None, Step: py.None}); err != nil {
			return nil, err
		}
		if len(nl.Items) != n {
			return nil, fmt.Errorf("harness: shrinking left %d items, want %d", len(nl.Items), n)
		}
	}
	return nl, nil
}

func init() {
	modes["api"] = apiHandler
	setups["api"] = func() {
		apiCtx, _ = newCtx(nil)
	}
}

var apiCtx py.Context

func apiHandler(raw json.RawMessage) map[string]interface{} {
	var c apiCase
	if err := json.Unmarshal(raw, &c); err != nil {
		return map[string]interface{}{"harness_panic": "bad case: " + err.Error()}
	}
	res := map[string]interface{}{}
	var parent, parentWant py.Object
	args := make([]py.Object, 0, len(c.Args))
	for _, a := range c.Args {
		v, err := decodeVal(a, args)
		if err != nil {
			// decoding itself can raise (e.g. range() with bad args)
			if _, ok := err.(py.ExceptionInfo); ok {
				t, m, _ := errInfo(err)
				res["exc"] = t
				res["excmsg"] = m
				return res
			}
			if e, ok := err.(*py.Exception); ok {
				res["exc"] = e.Type().Name
				return res
			}
			return map[string]interface{}{"harness_panic": "decode: " + err.Error()}
		}
		if c.Build != "" && len(args) == 0 {
			if l, ok := v.(*py.List); ok && (c.Build == "append" || c.Build == "shrunk") {
				nv, err := rebuildList(l, c.Build)
				if err != nil {
					return map[string]interface{}{"harness_panic": "build: " + err.Error()}
				}
				v = nv
			} else if c.Build == "sliced" || c.Build == "grown" {
				nv, par, want, err := rebuildImmutable(v, c.Build)
				if err != nil {
					return map[string]interface{}{"harness_panic": "build: " + err.Error()}
				}
				v, parent, parentWant = nv, par, want
			}
		}
		args = append(args, v)
	}
	func() {
		defer func() {
			if r := recover(); r != nil {
				res["panic"] = fmt.Sprint(r)
				res["stack"] = trimStack(string(debug.Stack()))
			}
		}()
		val, err := applyOp(c.Op, args)
		if err != nil {
			t, m, _ := errInfo(err)
			res["exc"] = t
			res["excmsg"] = m
		} else {
			res["val"] = encodeVal(val, 0)
			if c.Iter {
				var items []interface{}
				it, err := py.Iter(val)
				if err != nil {
					t, _, _ := errInfo(err)
					res["iter_exc"] = t
				} else {
					for n := 0; n < 10000; n++ {
						x, err := py.Next(it)
						if err != nil {
							if !py.IsException(py.StopIteration, err) {
								t, _, _ := errInfo(err)
								res["iter_exc"] = t
							}
							break
						}
						items = append(items, encodeVal(x, 1))
					}
					if items == nil {
						items = []interface{}{}
					}
					res["iter"] = items
				}
			}
		}
		if c.Twice && err == nil && len(args) == 2 {
			// the same operation again with another right operand of the same kind: the FIRST result must not change
			// (a result that shares spare capacity of an operand's backing array is overwritten by the second one)
			if alt := altOperand(args[1]); alt != nil {
				before := encodeVal(val, 0)
				if _, err2 := applyOp(c.Op, []py.Object{args[0], alt}); err2 == nil {
					res["first_before"] = before
					res["first_again"] = encodeVal(val, 0)
				}
			}
		}
		after := make([]interface{}, len(args))
		for i, a := range args {
			after[i] = encodeVal(a, 0)
		}
		res["after"] = after
		if parent != nil {
			res["parent_after"] = encodeVal(parent, 0)
			res["parent_want"] = encodeVal(parentWant, 0)
		}
		if c.Alias && err == nil {
			if l, ok := val.(*py.List); ok {
				l.Items = append(l.Items, py.String("<<sentinel>>"))
				if len(l.Items) > 1 {
					l.Items[0] = py.String("<<sentinel0>>")
				}
				after2 := make([]interface{}, len(args))
				for i, a := range args {
					if a == val {
						after2[i] = "same-object"
					} else {
						after2[i] = encodeVal(a, 0)
					}
				}
				res["after_mut"] = after2
			}
		}
	}()
	return res
}

func arg(args []py.Object, i int) py.Object {
	if i < len(args) {
		return args[i]
	}
	return py.None
}

func applyOp(op string, a []py.Object) (py.Object, error) {
	switch op {
	case "add":
		return py.Add(a[0], a[1])
	case "sub":
		return py.Sub(a[0], a[1])
	case "mul":
		return py.Mul(a[0], a[1])
	case "truediv":
		return py.TrueDiv(a[0], a[1])
	case "floordiv":
		return py.FloorDiv(a[0], a[1])
	case "mod":
		return py.Mod(a[0], a[1])
	case "divmod":
		q, r, err := py.DivMod(a[0], a[1])
		if err != nil {
			return nil, err
		}
		return py.Tuple{q, r}, nil
	case "pow":
		return py.Pow(a[0], a[1], py.None)
	case "pow3":
		return py.Pow(a[0], a[1], a[2])
	case "lshift":
		return py.Lshift(a[0], a[1])
	case "rshift":
		return py.Rshift(a[0], a[1])
	case "and":
		return py.And(a[0], a[1])
	case "or":
		return py.Or(a[0], a[1])
	case "xor":
		return py.Xor(a[0], a[1])
	case "iadd":
		return py.IAdd(a[0], a[1])
	case "isub":
		return py.ISub(a[0], a[1])
	case "imul":
		return py.IMul(a[0], a[1])
	case "ifloordiv":
		return py.IFloorDiv(a[0], a[1])
	case "imod":
		return py.IMod(a[0], a[1])
	case "ipow":
		return py.IPow(a[0], a[1], py.None)
	case "ilshift":
		return py.ILshift(a[0], a[1])
	case "irshift":
		return py.IRshift(a[0], a[1])
	case "iand":
		return py.IAnd(a[0], a[1])
	case "ior":
		return py.IOr(a[0], a[1])
	case "ixor":
		return py.IXor(a[0], a[1])
	case "neg":
		return py.Neg(a[0])
	case "pos":
		return py.Pos(a[0])
	case "abs":
		return py.Abs(a[0])
	case "invert":
		return py.Invert(a[0])
	case "lt":
		return py.Lt(a[0], a[1])
	case "le":
		return py.Le(a[0], a[1])
	case "eq":
		return py.Eq(a[0], a[1])
	case "ne":
		return py.Ne(a[0], a[1])
	case "gt":
		return py.Gt(a[0], a[1])
	case "ge":
		return py.Ge(a[0], a[1])
	case "bool":
		return py.MakeBool(a[0])
	case "not":
		return py.Not(a[0])
	case "str":
		return py.Str(a[0])
	case "repr":
		return py.Repr(a[0])
	case "len":
		return py.Len(a[0])
	case "getitem":
		return py.GetItem(a[0], a[1])
	case "setitem":
		return py.SetItem(a[0], a[1], a[2])
	case "delitem":
		return py.DelItem(a[0], a[1])
	case "contains":
		ok, err := py.SequenceContains(a[0], a[1])
		if err != nil {
			return nil, err
		}
		return py.NewBool(ok), nil
	case "iterlist":
		l, err := py.SequenceList(a[0])
		if err != nil {
			return nil, err
		}
		return l, nil
	case "int_from_str":
		base, _ := a[1].(py.Int)
		return py.IntFromString(string(a[0].(py.String)), int(base))
	case "makefloat":
		return py.MakeFloat(a[0])
	case "makeint":
		return py.MakeInt(a[0])
	case "reprevalrt":
		// x -> repr -> compile(eval) -> run -> y ; returns (repr text, y)
		r, err := py.Repr(a[0])
		if err != nil {
			return nil, err
		}
		code, err := py.Compile(string(r.(py.String)), "<repr>", py.EvalMode, 0, true)
		if err != nil {
			return nil, err
		}
		y, err := ctxRun(apiCtx, code)
		if err != nil {
			return nil, err
		}
		return py.Tuple{r, y}, nil
	}
	if strings.HasPrefix(op, "call:") {
		name := op[5:]
		fn, ok := apiCtx.Store().Builtins.Globals[name]
		if !ok {
			return nil, fmt.Errorf("no builtin %q", name)
		}
		return py.Call(fn, py.Tuple(a), nil)
	}
	if strings.HasPrefix(op, "meth:") {
		name := op[5:]
		m, err := py.GetAttrString(a[0], name)
		if err != nil {
			return nil, err
		}
		return py.Call(m, py.Tuple(a[1:]), nil)
	}
	return nil, fmt.Errorf("unknown op %q", op)
}
