package main

import (
	"encoding/json"
	"fmt"
	"os"
	"path/filepath"
	"runtime/debug"
	"strings"

	"github.com/go-python/gpython/py"
)

// ---- capture object -------------------------------------------------------

type capture struct {
	sb strings.Builder
}

var captureType = py.NewType("verifcapture", "captures writes")

func (c *capture) Type() *py.Type { return captureType }

func init() {
	captureType.Dict["write"] = py.MustNewMethod("write", func(self py.Object, arg py.Object) (py.Object, error) {
		c := self.(*capture)
		s, ok := arg.(py.String)
		if !ok {
			return nil, py.ExceptionNewf(py.TypeError, "write() argument must be str")
		}
		c.sb.WriteString(string(s))
		return py.Int(len(s)), nil
	}, 0, "write(s)")
	captureType.Dict["flush"] = py.MustNewMethod("flush", func(self py.Object) (py.Object, error) {
		return py.None, nil
	}, 0, "flush()")
}

func newCtx(paths []string) (py.Context, *capture) {
	if paths == nil {
		paths = []string{}
	}
	ctx := py.NewContext(py.ContextOpts{SysArgs: []string{""}, SysPaths: paths})
	c := &capture{}
	sys := ctx.Store().MustGetModule("sys")
	sys.Globals["stdout"] = c
	sys.Globals["stderr"] = c
	return ctx, c
}

// errInfo turns an error returned by the run API into (type name, message, traceback)
func errInfo(err error) (string, string, [][]interface{}) {
	var tb [][]interface{}
	switch e := err.(type) {
	case py.ExceptionInfo:
		return excInfo(&e)
	case *py.ExceptionInfo:
		return excInfo(e)
	case *py.Exception:
		return e.Type().Name, safeStr(e), tb
	}
	return "<go:" + fmt.Sprintf("%T", err) + ">", err.Error(), tb
}

func safeStr(o py.Object) (s string) {
	defer func() {
		if r := recover(); r != nil {
			s = "<str panicked>"
		}
	}()
	if o == nil {
		return "<nil>"
	}
	if e, ok := o.(*py.Exception); ok {
		parts := []string{}
		if args, ok := e.Args.(py.Tuple); ok {
			for _, a := range args {
				r, err := py.ReprAsString(a)
				if err != nil {
					r = "?"
				}
				parts = append(parts, r)
			}
		}
		return strings.Join(parts, ",")
	}
	r, err := py.ReprAsString(o)
	if err != nil {
		return "?"
	}
	return r
}

func excInfo(e *py.ExceptionInfo) (string, string, [][]interface{}) {
	tb := [][]interface{}{}
	for t := e.Traceback; t != nil; t = t.Next {
		name := "?"
		if t.Frame != nil && t.Frame.Code != nil {
			name = t.Frame.Code.Name
		}
		tb = append(tb, []interface{}{name, int(t.Lineno)})
	}
	tname := "<nil-type>"
	if e.Type != nil {
		tname = e.Type.Name
	}
	return tname, safeStr(e.Value), tb
}

// ---- exec mode ------------------------------------------------------------

type execCase struct {
	ID     string            `json:"id"`
	Src    string            `json:"src"`
	Mode   string            `json:"mode"`
	Files  map[string]string `json:"files"`
	Verify bool              `json:"verify"` // run the C12 verifier + dynamic monitor
	Dump   bool              `json:"dump"`   // return the canonical code dump hash
	Recomp int               `json:"recomp"` // extra compilations whose dump must equal the first
	NoRun  bool              `json:"norun"`  // compile (+verify/dump) only
	Post   string            `json:"post"`   // optional second program run in a *fresh* context afterwards (C08 sequential isolation)
}

func init() {
	modes["exec"] = execHandler
}

func execHandler(raw json.RawMessage) map[string]interface{} {
	var c execCase
	if err := json.Unmarshal(raw, &c); err != nil {
		return map[string]interface{}{"harness_panic": "bad case: " + err.Error()}
	}
	res := map[string]interface{}{}
	var paths []string
	if len(c.Files) > 0 {
		// under the worker's scratch directory (removed by the driver even when this process is killed)
		dir, err := os.MkdirTemp(".", "vrun-mod-")
		if err == nil {
			dir, err = filepath.Abs(dir)
		}
		if err != nil {
			return map[string]interface{}{"harness_panic": err.Error()}
		}
		defer os.RemoveAll(dir)
		for name, content := range c.Files {
			p := filepath.Join(dir, name)
			os.MkdirAll(filepath.Dir(p), 0755)
			if err := os.WriteFile(p, []byte(content), 0644); err != nil {
				return map[string]interface{}{"harness_panic": err.Error()}
			}
		}
		paths = []string{dir}
	}
	runOne(c.Src, c.Mode, paths, c.Verify, c.Dump, c.Recomp, res, "", c.NoRun)
	if c.Post != "" {
		runOne(c.Post, c.Mode, paths, false, false, 0, res, "post_", false)
	}
	return res
}

func runOne(src, modeS string, paths []string, verify, dump bool, recomp int, res map[string]interface{}, pfx string, norun bool) {
	mode := py.ExecMode
	switch modeS {
	case "eval":
		mode = py.EvalMode
	case "single":
		mode = py.SingleMode
	}
	ctx, cap := newCtx(paths)
	defer ctx.Close()
	func() {
		defer func() {
			if r := recover(); r != nil {
				res[pfx+"panic"] = fmt.Sprint(r)
				res[pfx+"stack"] = trimStack(string(debug.Stack()))
			}
		}()
		code, err := py.Compile(src, "<case>", mode, 0, true)
		if err != nil {
			t, m, _ := errInfo(err)
			res[pfx+"cerr"] = t
			res[pfx+"cmsg"] = m
			return
		}
		if dump || recomp > 0 {
			d := dumpCode(code)
			if dump {
				res[pfx+"dump"] = d
			}
			for i := 0; i < recomp; i++ {
				code2, err2 := py.Compile(src, "<case>", mode, 0, true)
				if err2 != nil {
					res[pfx+"recomp_diff"] = fmt.Sprintf("recompile %d failed: %v", i, err2)
					break
				}
				if d2 := dumpCode(code2); d2 != d {
					res[pfx+"recomp_diff"] = fmt.Sprintf("recompile %d differs", i)
					res[pfx+"recomp_a"] = d
					res[pfx+"recomp_b"] = d2
					break
				}
			}
		}
		var mon *dynMonitor
		if verify {
			vr := verifyCodeTree(code, src)
			res[pfx+"vstat"] = vr.stats()
			if len(vr.Errors) > 0 {
				res[pfx+"verrs"] = vr.Errors
			}
			mon = startDynMonitor(vr)
			defer func() {
				stopDynMonitor()
				res[pfx+"dyn"] = mon.stats()
				if len(mon.errors) > 0 {
					res[pfx+"dynerrs"] = mon.errors
				}
			}()
		}
		if norun {
			return
		}
		val, err := ctxRun(ctx, code)
		if err != nil {
			t, m, tb := errInfo(err)
			res[pfx+"exc"] = t
			res[pfx+"excmsg"] = m
			res[pfx+"tb"] = tb
		} else if mode == py.EvalMode && val != nil {
			res[pfx+"val"] = safeStr(val)
		}
	}()
	res[pfx+"out"] = cap.sb.String()
}

func ctxRun(ctx py.Context, code *py.Code) (py.Object, error) {
	impl := py.ModuleImpl{Info: py.ModuleInfo{Name: "__main__", FileDesc: "<case>"}}
	module, err := ctx.Store().NewModule(ctx, &impl)
	if err != nil {
		return nil, err
	}
	return ctx.RunCode(code, module.Globals, module.Globals, nil)
}

func trimStack(s string) string {
	lines := strings.Split(s, "\n")
	out := []string{}
	for _, l := range lines {
		if strings.Contains(l, "gpython/") || strings.Contains(l, "/repo/") {
			out = append(out, strings.TrimSpace(l))
		}
		if len(out) >= 12 {
			break
		}
	}
	return strings.Join(out, " | ")
}
