package main

// gocall mode (C04, embedding boundary): a Go module "verifmod" and a Go type "VT" whose callables use
// each of the four Go signatures accepted by py.NewMethod. Every callable records exactly what it
// received (receiver kind, positional arguments, sorted keyword arguments) into a per-case log.
//
// case:   {"id", "src", "gocalls": [{"target": "mod.f0" | "inst.m0" | "cls.m0", "args": [jv...], "kwargs": {name: jv}, "kwnil": bool}]}
//         src is a Python program that imports verifmod; it is run first. gocalls are then executed from Go
//         through py.GetAttrString + py.Call ("cls.*" gets a fresh instance VT(77) prepended as explicit receiver,
//         "inst.*" is looked up on a fresh instance VT(77)).
// result: out/exc/excmsg/panic as in exec mode, "log": [record...] for the Python program and
//         "go": [{"exc","panic","ret","log":[record...]} ...] one per gocall.
// record: {"fn": name, "self": receiver description, "args": [value description...], "kw": [[name, value description]...]}
//         or {"mark": n} (written by verifmod.mark(n), used to delimit the calls of the program).
// value descriptions: "i:<int>", "s:<str>", "None", "VT#<tag>", "module:<name>", "type:<name>", "nil", "nilmodule", "other:<type>".

import (
	"encoding/json"
	"fmt"
	"runtime/debug"
	"sort"

	"github.com/go-python/gpython/py"
)

type gcRecord map[string]interface{}

// one case at a time per worker process
var gcLog []gcRecord

type vtObj struct {
	tag int64
}

var vtType *py.Type

func (o *vtObj) Type() *py.Type { return vtType }

func gcDescribe(o py.Object) string {
	if o == nil {
		return "nil"
	}
	switch v := o.(type) {
	case py.Int:
		return fmt.Sprintf("i:%d", int64(v))
	case py.String:
		return "s:" + string(v)
	case py.NoneType:
		return "None"
	case *vtObj:
		if v == nil {
			return "nilVT"
		}
		return fmt.Sprintf("VT#%d", v.tag)
	case *py.Module:
		if v == nil {
			return "nilmodule"
		}
		name, _ := v.Globals["__name__"].(py.String)
		return "module:" + string(name)
	case *py.Type:
		if v == nil {
			return "niltype"
		}
		return "type:" + v.Name
	case py.Bool:
		if v {
			return "b:True"
		}
		return "b:False"
	}
	return "other:" + o.Type().Name
}

func gcRecordCall(name string, self py.Object, args py.Tuple, hasArgs bool, kwargs py.StringDict, hasKw bool) {
	rec := gcRecord{"fn": name, "self": gcDescribe(self)}
	if hasArgs {
		a := make([]string, len(args))
		for i, x := range args {
			a[i] = gcDescribe(x)
		}
		rec["args"] = a
	}
	if hasKw {
		keys := make([]string, 0, len(kwargs))
		for k := range kwargs {
			keys = append(keys, k)
		}
		sort.Strings(keys)
		kw := make([][]string, 0, len(keys))
		for _, k := range keys {
			kw = append(kw, []string{k, gcDescribe(kwargs[k])})
		}
		rec["kw"] = kw
		if kwargs == nil {
			rec["kwnil"] = true
		}
	}
	gcLog = append(gcLog, rec)
}

// the four Go signatures, parameterised by the name they record under
func gcSelfOnly(name string) func(py.Object) (py.Object, error) {
	return func(self py.Object) (py.Object, error) {
		gcRecordCall(name, self, nil, false, nil, false)
		return py.String(name), nil
	}
}

func gcOneArg(name string) func(py.Object, py.Object) (py.Object, error) {
	return func(self py.Object, arg py.Object) (py.Object, error) {
		gcRecordCall(name, self, py.Tuple{arg}, true, nil, false)
		return py.String(name), nil
	}
}

func gcArgs(name string) func(py.Object, py.Tuple) (py.Object, error) {
	return func(self py.Object, args py.Tuple) (py.Object, error) {
		gcRecordCall(name, self, args, true, nil, false)
		return py.String(name), nil
	}
}

func gcArgsKw(name string) func(py.Object, py.Tuple, py.StringDict) (py.Object, error) {
	return func(self py.Object, args py.Tuple, kwargs py.StringDict) (py.Object, error) {
		gcRecordCall(name, self, args, true, kwargs, true)
		return py.String(name), nil
	}
}

func init() {
	vtType = py.NewTypeX("VT", "verif type with Go methods of the four signatures",
		func(metatype *py.Type, args py.Tuple, kwargs py.StringDict) (py.Object, error) {
			var tag int64
			if len(args) > 0 {
				if i, ok := args[0].(py.Int); ok {
					tag = int64(i)
				}
			}
			return &vtObj{tag: tag}, nil
		}, nil)
	vtType.Dict["m0"] = py.MustNewMethod("m0", gcSelfOnly("m0"), 0, "")
	vtType.Dict["m1"] = py.MustNewMethod("m1", gcOneArg("m1"), 0, "")
	vtType.Dict["ma"] = py.MustNewMethod("ma", gcArgs("ma"), 0, "")
	vtType.Dict["mk"] = py.MustNewMethod("mk", gcArgsKw("mk"), 0, "")
	// returns the very tuple it was handed (a Go callable may legitimately keep/return its args: tuples are immutable)
	vtType.Dict["keep"] = py.MustNewMethod("keep", func(self py.Object, args py.Tuple) (py.Object, error) {
		return args, nil
	}, 0, "")

	methods := []*py.Method{
		py.MustNewMethod("f0", gcSelfOnly("f0"), 0, ""),
		py.MustNewMethod("f1", gcOneArg("f1"), 0, ""),
		py.MustNewMethod("fa", gcArgs("fa"), 0, ""),
		py.MustNewMethod("fk", gcArgsKw("fk"), 0, ""),
		py.MustNewMethod("keep", func(self py.Object, args py.Tuple) (py.Object, error) {
			return args, nil
		}, 0, ""),
		py.MustNewMethod("mark", func(self py.Object, arg py.Object) (py.Object, error) {
			n, _ := arg.(py.Int)
			gcLog = append(gcLog, gcRecord{"mark": int64(n)})
			return py.None, nil
		}, 0, ""),
	}
	py.RegisterModule(&py.ModuleImpl{
		Info:    py.ModuleInfo{Name: "verifmod", Doc: "verif: Go callables that record what they receive"},
		Methods: methods,
		Globals: py.StringDict{"VT": vtType},
	})
	modes["gocall"] = gocallHandler
}

type gcGoCall struct {
	Target string          `json:"target"`
	Args   []jval          `json:"args"`
	Kwargs map[string]jval `json:"kwargs"`
	KwNil  bool            `json:"kwnil"`
}

type gocallCase struct {
	ID      string     `json:"id"`
	Src     string     `json:"src"`
	GoCalls []gcGoCall `json:"gocalls"`
}

func gocallHandler(raw json.RawMessage) map[string]interface{} {
	var c gocallCase
	if err := json.Unmarshal(raw, &c); err != nil {
		return map[string]interface{}{"harness_panic": "bad case: " + err.Error()}
	}
	res := map[string]interface{}{}
	gcLog = nil
	ctx, cap := newCtx(nil)
	defer ctx.Close()
	func() {
		defer func() {
			if r := recover(); r != nil {
				res["panic"] = fmt.Sprint(r)
				res["stack"] = trimStack(string(debug.Stack()))
			}
		}()
		code, err := py.Compile(c.Src, "<case>", py.ExecMode, 0, true)
		if err != nil {
			t, m, _ := errInfo(err)
			res["cerr"] = t
			res["cmsg"] = m
			return
		}
		if _, err := ctxRun(ctx, code); err != nil {
			t, m, tb := errInfo(err)
			res["exc"] = t
			res["excmsg"] = m
			res["tb"] = tb
		}
	}()
	res["out"] = cap.sb.String()
	if gcLog == nil {
		gcLog = []gcRecord{}
	}
	res["log"] = gcLog

	if len(c.GoCalls) > 0 {
		gores := make([]map[string]interface{}, 0, len(c.GoCalls))
		for _, gc := range c.GoCalls {
			gores = append(gores, gcDirect(ctx, gc))
		}
		res["go"] = gores
	}
	return res
}

// gcDirect performs one call from Go through the public API (py.GetAttrString + py.Call).
func gcDirect(ctx py.Context, gc gcGoCall) (r map[string]interface{}) {
	r = map[string]interface{}{}
	gcLog = []gcRecord{}
	defer func() {
		if p := recover(); p != nil {
			r["panic"] = fmt.Sprint(p)
			r["stack"] = trimStack(string(debug.Stack()))
		}
		r["log"] = gcLog
	}()
	args := make(py.Tuple, 0, len(gc.Args)+1)
	for _, a := range gc.Args {
		v, err := decodeVal(a, nil)
		if err != nil {
			r["harness_error"] = err.Error()
			return
		}
		args = append(args, v)
	}
	var kwargs py.StringDict
	if !gc.KwNil {
		kwargs = py.NewStringDict()
	}
	for k, a := range gc.Kwargs {
		v, err := decodeVal(a, nil)
		if err != nil {
			r["harness_error"] = err.Error()
			return
		}
		if kwargs == nil {
			kwargs = py.NewStringDict()
		}
		kwargs[k] = v
	}
	if len(gc.Target) < 5 {
		r["harness_error"] = "bad target"
		return
	}
	kind, name := gc.Target[:4], gc.Target[4:]
	var fn py.Object
	var err error
	switch kind {
	case "mod.":
		var mod py.Object
		mod, err = py.ImportModuleLevelObject(ctx, "verifmod", nil, nil, nil, 0)
		if err == nil {
			fn, err = py.GetAttrString(mod, name)
		}
	case "inst":
		// "inst.m0"
		name = gc.Target[5:]
		fn, err = py.GetAttrString(&vtObj{tag: 77}, name)
	case "cls.":
		fn, err = py.GetAttrString(vtType, name)
		args = append(py.Tuple{&vtObj{tag: 77}}, args...)
	default:
		r["harness_error"] = "bad target kind"
		return
	}
	if err != nil {
		t, m, _ := errInfo(err)
		r["lookup_exc"] = t
		r["excmsg"] = m
		return
	}
	ret, err := py.Call(fn, args, kwargs)
	if err != nil {
		t, m, _ := errInfo(err)
		r["exc"] = t
		r["excmsg"] = m
		return
	}
	r["ret"] = gcDescribe(ret)
	return
}
