package main

// repl mode (C20): feed physical lines one at a time to a repl.REPL with a recording UI and report, per line, the UI
// events (SetPrompt / Print), the prompt in force afterwards, the captured sys.stdout delta, the text written to
// os.Stderr (tracebacks of runtime errors go there) and a snapshot of the session module's globals.
// The same case can carry the list of whole statements; they are compiled one by one in `single` mode and run in ONE
// other fresh context (self-reference inside gpython), recording the same observations per statement.

import (
	"encoding/json"
	"fmt"
	"io"
	"os"
	"runtime/debug"
	"sort"

	"github.com/go-python/gpython/py"
	"github.com/go-python/gpython/repl"
	"github.com/go-python/gpython/vm"
)

type replCase struct {
	ID    string   `json:"id"`
	Lines []string `json:"lines"`
	Stmts []string `json:"stmts"`
}

type recUI struct {
	prompt string
	events [][]string // [kind, text]
}

func (u *recUI) SetPrompt(p string) {
	u.prompt = p
	u.events = append(u.events, []string{"prompt", p})
}

func (u *recUI) Print(s string) {
	u.events = append(u.events, []string{"print", s})
}

func (u *recUI) take() [][]string {
	ev := u.events
	u.events = nil
	if ev == nil {
		ev = [][]string{}
	}
	return ev
}

func init() {
	modes["repl"] = replHandler
}

// stderrGrab swaps the os.Stderr *variable* (py.TracebackDump reads it at call time) for a scratch file.
type stderrGrab struct {
	f   *os.File
	old *os.File
}

func newStderrGrab() *stderrGrab {
	f, err := os.CreateTemp("", "vrun-repl-stderr-")
	if err != nil {
		return &stderrGrab{}
	}
	os.Remove(f.Name()) // stays usable through the descriptor
	return &stderrGrab{f: f}
}

func (g *stderrGrab) begin() {
	if g.f == nil {
		return
	}
	g.old = os.Stderr
	os.Stderr = g.f
}

func (g *stderrGrab) end() string {
	if g.f == nil {
		return ""
	}
	os.Stderr = g.old
	n, _ := g.f.Seek(0, io.SeekCurrent)
	buf := make([]byte, n)
	g.f.ReadAt(buf, 0)
	g.f.Truncate(0)
	g.f.Seek(0, io.SeekStart)
	return string(buf)
}

func (g *stderrGrab) close() {
	if g.f != nil {
		g.f.Close()
	}
}

func snapGlobals(gl py.StringDict) map[string]string {
	out := map[string]string{}
	keys := make([]string, 0, len(gl))
	for k := range gl {
		keys = append(keys, k)
	}
	sort.Strings(keys)
	for _, k := range keys {
		if len(k) >= 2 && k[:2] == "__" {
			continue
		}
		switch v := gl[k].(type) {
		case nil:
			out[k] = "nil!"
		case py.Int:
			out[k] = fmt.Sprintf("i:%d", int64(v))
		case *py.BigInt:
			out[k] = "i:" + safeStr(v)
		case py.Bool:
			if v {
				out[k] = "b:True"
			} else {
				out[k] = "b:False"
			}
		case py.String:
			out[k] = "s:" + string(v)
		case py.NoneType:
			out[k] = "n"
		case *py.List:
			out[k] = fmt.Sprintf("t:list/%d", len(v.Items))
		default:
			out[k] = "t:" + v.Type().Name
		}
	}
	return out
}

func replHandler(raw json.RawMessage) map[string]interface{} {
	var c replCase
	if err := json.Unmarshal(raw, &c); err != nil {
		return map[string]interface{}{"harness_panic": "bad case: " + err.Error()}
	}
	res := map[string]interface{}{}
	grab := newStderrGrab()
	defer grab.close()
	savedPrintExpr := vm.PrintExpr
	defer func() { vm.PrintExpr = savedPrintExpr }()

	// ---- the interactive session -------------------------------------------------------------
	func() {
		ctx, cap := newCtx(nil)
		defer ctx.Close()
		ui := &recUI{}
		lines := []map[string]interface{}{}
		defer func() {
			if r := recover(); r != nil {
				os.Stderr = firstNonNil(grab.old, os.Stderr)
				res["panic"] = fmt.Sprint(r)
				res["stack"] = trimStack(string(debug.Stack()))
				res["panic_line"] = len(lines)
			}
			res["lines"] = lines
		}()
		r := repl.New(ctx)
		r.SetUI(ui)
		res["init"] = map[string]interface{}{"p": ui.prompt, "ev": ui.take()}
		for _, line := range c.Lines {
			before := cap.sb.Len()
			grab.begin()
			err := r.Run(line)
			errText := grab.end()
			rec := map[string]interface{}{
				"p":   ui.prompt,
				"ev":  ui.take(),
				"out": cap.sb.String()[before:],
				"err": errText,
				"g":   snapGlobals(r.Module.Globals),
			}
			if err != nil {
				t, _, _ := errInfo(err)
				rec["runerr"] = t
			}
			// the REPL must restore the package-level hook it swaps
			if fmt.Sprintf("%p", vm.PrintExpr) != fmt.Sprintf("%p", savedPrintExpr) {
				rec["printexpr_not_restored"] = true
				vm.PrintExpr = savedPrintExpr
			}
			lines = append(lines, rec)
		}
	}()

	// ---- reference: each statement compiled whole in single mode, one fresh context --------------
	if len(c.Stmts) > 0 {
		func() {
			ctx, cap := newCtx(nil)
			defer ctx.Close()
			stmts := []map[string]interface{}{}
			defer func() {
				if r := recover(); r != nil {
					res["ref_panic"] = fmt.Sprint(r)
					res["ref_stack"] = trimStack(string(debug.Stack()))
				}
				res["ref"] = stmts
			}()
			module, err := ctx.ModuleInit(&py.ModuleImpl{Info: py.ModuleInfo{FileDesc: "<stdin>"}})
			if err != nil {
				res["ref_panic"] = "ModuleInit: " + err.Error()
				return
			}
			var echo [][]string
			vm.PrintExpr = func(s string) { echo = append(echo, []string{"print", s}) }
			for _, st := range c.Stmts {
				echo = [][]string{}
				before := cap.sb.Len()
				rec := map[string]interface{}{}
				code, err := py.Compile(st, "<stdin>", py.SingleMode, 0, true)
				if err != nil {
					t, m, _ := errInfo(err)
					rec["cerr"] = t
					rec["cmsg"] = m
				} else {
					_, err = ctx.RunCode(code, module.Globals, module.Globals, nil)
					if err != nil {
						t, m, _ := errInfo(err)
						rec["exc"] = t
						rec["excmsg"] = m
					}
				}
				rec["ev"] = echo
				rec["out"] = cap.sb.String()[before:]
				rec["g"] = snapGlobals(module.Globals)
				stmts = append(stmts, rec)
			}
		}()
	}
	return res
}

func firstNonNil(a, b *os.File) *os.File {
	if a != nil {
		return a
	}
	return b
}
