package main

// Bytecode verifier for C12: abstract interpretation of an emitted code object over
// states (pc, abstract value stack, block stack), written from the VM's semantics in
// vm/eval.go (NOT from the compiler's own stack-depth table).
//
// Abstract stack kinds:
//   v  ordinary value
//   n  the None constant (as pushed by LOAD_CONST None)
//   B  why-code "break"         (pushed by the unwinder when entering a finally)
//   R  why-code "return"        (retval below it)
//   C  why-code "continue"      (target below it)
//   S  why-code "silenced"      (pushed by WITH_CLEANUP)
//   E  exception type (top of an exc triple pushed by the unwinder)
//   X  the __exit__ callable placed by SETUP_WITH

import (
	"fmt"
	"os"
	"sort"
	"strings"

	"github.com/go-python/gpython/py"
	"github.com/go-python/gpython/vm"
)

const maxStatesPerCode = 400000

var verifDebug = os.Getenv("VERIF_DEBUG") != ""

type vBlock struct {
	typ     byte // 'L' loop, 'X' except, 'F' finally, 'H' except-handler
	handler int32
	level   int
}

type vState struct {
	pc     int32
	stack  string
	blocks []vBlock
}

func (s vState) key() string {
	var sb strings.Builder
	fmt.Fprintf(&sb, "%d|%s|", s.pc, s.stack)
	for _, b := range s.blocks {
		fmt.Fprintf(&sb, "%c%d,%d;", b.typ, b.handler, b.level)
	}
	return sb.String()
}

type depthPair struct{ stack, block int }

type codeReport struct {
	code      *py.Code
	predicted map[int32]map[depthPair]bool // pc -> allowed (stack depth, block depth)
	instrs    map[int32]bool               // instruction boundaries
	nStates   int
	overflow  bool
	maxDepth  int
	maxBlocks int
	opcodes   map[vm.OpCode]bool
}

type verifyReport struct {
	Errors   []string
	codes    map[*py.Code]*codeReport
	nCodes   int
	nInstrs  int
	nStates  int
	overflow int
	opcodes  map[vm.OpCode]bool
}

func (r *verifyReport) stats() map[string]interface{} {
	return map[string]interface{}{"codes": r.nCodes, "instrs": r.nInstrs, "states": r.nStates, "overflow": r.overflow, "nopcodes": len(r.opcodes)}
}

func (r *verifyReport) errf(c *py.Code, pc int32, f string, a ...interface{}) {
	if len(r.Errors) < 20 {
		r.Errors = append(r.Errors, fmt.Sprintf("code %q pc=%d: ", c.Name, pc)+fmt.Sprintf(f, a...))
	}
}

func verifyCodeTree(code *py.Code, src string) *verifyReport {
	r := &verifyReport{codes: map[*py.Code]*codeReport{}, opcodes: map[vm.OpCode]bool{}}
	nlines := strings.Count(src, "\n") + 1
	var walk func(c *py.Code)
	walk = func(c *py.Code) {
		if _, ok := r.codes[c]; ok {
			return
		}
		cr := verifyCode(r, c, nlines)
		r.codes[c] = cr
		r.nCodes++
		r.nInstrs += len(cr.instrs)
		r.nStates += cr.nStates
		if cr.overflow {
			r.overflow++
		}
		for op := range cr.opcodes {
			r.opcodes[op] = true
		}
		for _, k := range c.Consts {
			if cc, ok := k.(*py.Code); ok {
				walk(cc)
			}
		}
	}
	walk(code)
	return r
}

type instr struct {
	pc   int32
	op   vm.OpCode
	arg  int32
	next int32
}

func decode(r *verifyReport, c *py.Code) (map[int32]*instr, []int32) {
	ins := map[int32]*instr{}
	var order []int32
	b := c.Code
	var ext int32
	extended := false
	for pc := int32(0); int(pc) < len(b); {
		op := vm.OpCode(b[pc])
		in := &instr{pc: pc, op: op}
		n := pc + 1
		if op.HAS_ARG() {
			if int(pc)+2 >= len(b) {
				r.errf(c, pc, "truncated operand")
				return ins, order
			}
			in.arg = int32(b[pc+1]) | int32(b[pc+2])<<8
			if extended {
				in.arg += ext << 16
			}
			n = pc + 3
		}
		extended = false
		if op == vm.EXTENDED_ARG {
			ext = in.arg
			extended = true
		}
		in.next = n
		ins[pc] = in
		order = append(order, pc)
		pc = n
	}
	return ins, order
}

var knownOps = map[vm.OpCode]bool{}

func init() {
	for _, op := range []vm.OpCode{vm.POP_TOP, vm.ROT_TWO, vm.ROT_THREE, vm.DUP_TOP, vm.DUP_TOP_TWO, vm.NOP, vm.UNARY_POSITIVE, vm.UNARY_NEGATIVE, vm.UNARY_NOT, vm.UNARY_INVERT,
		vm.BINARY_POWER, vm.BINARY_MULTIPLY, vm.BINARY_MODULO, vm.BINARY_ADD, vm.BINARY_SUBTRACT, vm.BINARY_SUBSCR, vm.BINARY_FLOOR_DIVIDE, vm.BINARY_TRUE_DIVIDE,
		vm.INPLACE_FLOOR_DIVIDE, vm.INPLACE_TRUE_DIVIDE, vm.STORE_MAP, vm.INPLACE_ADD, vm.INPLACE_SUBTRACT, vm.INPLACE_MULTIPLY, vm.INPLACE_MODULO, vm.STORE_SUBSCR, vm.DELETE_SUBSCR,
		vm.BINARY_LSHIFT, vm.BINARY_RSHIFT, vm.BINARY_AND, vm.BINARY_XOR, vm.BINARY_OR, vm.INPLACE_POWER, vm.GET_ITER, vm.PRINT_EXPR, vm.LOAD_BUILD_CLASS, vm.YIELD_FROM,
		vm.INPLACE_LSHIFT, vm.INPLACE_RSHIFT, vm.INPLACE_AND, vm.INPLACE_XOR, vm.INPLACE_OR, vm.BREAK_LOOP, vm.WITH_CLEANUP, vm.RETURN_VALUE, vm.IMPORT_STAR, vm.YIELD_VALUE,
		vm.POP_BLOCK, vm.END_FINALLY, vm.POP_EXCEPT, vm.STORE_NAME, vm.DELETE_NAME, vm.UNPACK_SEQUENCE, vm.FOR_ITER, vm.UNPACK_EX, vm.STORE_ATTR, vm.DELETE_ATTR, vm.STORE_GLOBAL,
		vm.DELETE_GLOBAL, vm.LOAD_CONST, vm.LOAD_NAME, vm.BUILD_TUPLE, vm.BUILD_LIST, vm.BUILD_SET, vm.BUILD_MAP, vm.LOAD_ATTR, vm.COMPARE_OP, vm.IMPORT_NAME, vm.IMPORT_FROM,
		vm.JUMP_FORWARD, vm.JUMP_IF_FALSE_OR_POP, vm.JUMP_IF_TRUE_OR_POP, vm.JUMP_ABSOLUTE, vm.POP_JUMP_IF_FALSE, vm.POP_JUMP_IF_TRUE, vm.LOAD_GLOBAL, vm.CONTINUE_LOOP,
		vm.SETUP_LOOP, vm.SETUP_EXCEPT, vm.SETUP_FINALLY, vm.LOAD_FAST, vm.STORE_FAST, vm.DELETE_FAST, vm.RAISE_VARARGS, vm.CALL_FUNCTION, vm.MAKE_FUNCTION, vm.BUILD_SLICE,
		vm.MAKE_CLOSURE, vm.LOAD_CLOSURE, vm.LOAD_DEREF, vm.STORE_DEREF, vm.DELETE_DEREF, vm.CALL_FUNCTION_VAR, vm.CALL_FUNCTION_KW, vm.CALL_FUNCTION_VAR_KW, vm.SETUP_WITH,
		vm.EXTENDED_ARG, vm.LIST_APPEND, vm.SET_ADD, vm.MAP_ADD, vm.LOAD_CLASSDEREF} {
		knownOps[op] = true
	}
}

// instructions that cannot raise in the VM (no exception edge)
var noRaise = map[vm.OpCode]bool{
	vm.POP_TOP: true, vm.ROT_TWO: true, vm.ROT_THREE: true, vm.DUP_TOP: true, vm.DUP_TOP_TWO: true, vm.NOP: true,
	vm.LOAD_CONST: true, vm.JUMP_FORWARD: true, vm.JUMP_ABSOLUTE: true, vm.SETUP_LOOP: true, vm.SETUP_EXCEPT: true, vm.SETUP_FINALLY: true,
	vm.POP_BLOCK: true, vm.POP_EXCEPT: true, vm.BREAK_LOOP: true, vm.CONTINUE_LOOP: true, vm.RETURN_VALUE: true, vm.LOAD_CLOSURE: true,
	vm.STORE_FAST: true, vm.BUILD_TUPLE: true, vm.BUILD_LIST: true, vm.BUILD_MAP: true, vm.EXTENDED_ARG: true, vm.END_FINALLY: true,
	vm.POP_JUMP_IF_FALSE: false, vm.LOAD_BUILD_CLASS: true, vm.STORE_DEREF: true, vm.BUILD_SLICE: true, vm.LIST_APPEND: true,
}

func verifyCode(r *verifyReport, c *py.Code, nlines int) *codeReport {
	cr := &codeReport{code: c, predicted: map[int32]map[depthPair]bool{}, instrs: map[int32]bool{}, opcodes: map[vm.OpCode]bool{}}
	contTargets = nil
	contIndex = map[int32]byte{}
	ins, order := decode(r, c)
	for _, pc := range order {
		cr.instrs[pc] = true
		cr.opcodes[ins[pc].op] = true
	}
	ncells := len(c.Cellvars) + len(c.Freevars)
	// ---- operand range checks (independent of paths) ----
	for _, pc := range order {
		in := ins[pc]
		a := int(in.arg)
		if !knownOps[in.op] {
			r.errf(c, pc, "unknown opcode %d", in.op)
			continue
		}
		switch in.op {
		case vm.LOAD_CONST:
			if a < 0 || a >= len(c.Consts) {
				r.errf(c, pc, "LOAD_CONST index %d out of range (%d consts)", a, len(c.Consts))
			}
		case vm.STORE_NAME, vm.DELETE_NAME, vm.LOAD_NAME, vm.STORE_ATTR, vm.DELETE_ATTR, vm.LOAD_ATTR, vm.STORE_GLOBAL, vm.DELETE_GLOBAL, vm.LOAD_GLOBAL, vm.IMPORT_NAME, vm.IMPORT_FROM:
			if a < 0 || a >= len(c.Names) {
				r.errf(c, pc, "%v name index %d out of range (%d names)", in.op, a, len(c.Names))
			}
		case vm.LOAD_FAST, vm.STORE_FAST, vm.DELETE_FAST:
			if a < 0 || a >= len(c.Varnames) || a >= int(c.Nlocals) {
				r.errf(c, pc, "%v local index %d out of range (%d varnames, nlocals %d)", in.op, a, len(c.Varnames), c.Nlocals)
			}
		case vm.LOAD_CLOSURE, vm.LOAD_DEREF, vm.STORE_DEREF, vm.DELETE_DEREF, vm.LOAD_CLASSDEREF:
			if a < 0 || a >= ncells {
				r.errf(c, pc, "%v cell index %d out of range (%d cells+frees)", in.op, a, ncells)
			}
		case vm.COMPARE_OP:
			if a < 0 || a > 10 {
				r.errf(c, pc, "COMPARE_OP operand %d out of range", a)
			}
		case vm.BUILD_SLICE:
			if a != 2 && a != 3 {
				r.errf(c, pc, "BUILD_SLICE operand %d", a)
			}
		case vm.RAISE_VARARGS:
			if a < 0 || a > 2 {
				r.errf(c, pc, "RAISE_VARARGS operand %d", a)
			}
		}
	}
	if int(c.Nlocals) != len(c.Varnames) {
		r.errf(c, 0, "nlocals %d != len(varnames) %d", c.Nlocals, len(c.Varnames))
	}
	if int(c.Argcount+c.Kwonlyargcount) > len(c.Varnames) {
		r.errf(c, 0, "argcount+kwonly %d > len(varnames) %d", c.Argcount+c.Kwonlyargcount, len(c.Varnames))
	}
	if c.Stacksize < 0 {
		r.errf(c, 0, "negative stacksize")
	}
	// ---- line table ----
	checkLnotab(r, c, cr, nlines)
	if len(r.Errors) > 0 && len(order) == 0 {
		return cr
	}
	if len(order) == 0 {
		r.errf(c, 0, "empty code")
		return cr
	}

	// ---- abstract execution ----
	// a block is pushed by a SETUP_* instruction and, in balanced code, popped before that instruction runs again: more live blocks than
	// SETUP_* instructions (plus the handler blocks the VM itself pushes while one of them unwinds) means a loop path that re-enters a block it
	// never left - the block stack would grow on every iteration (and this search would not end)
	nsetup := 0
	for _, pc := range order {
		switch ins[pc].op {
		case vm.SETUP_LOOP, vm.SETUP_EXCEPT, vm.SETUP_FINALLY, vm.SETUP_WITH:
			nsetup++
		}
	}
	seen := map[string]bool{}
	var work []vState
	push := func(s vState, from int32) {
		if _, ok := ins[s.pc]; !ok {
			r.errf(c, from, "control reaches pc=%d which is not an instruction boundary inside the code (len %d)", s.pc, len(c.Code))
			return
		}
		k := s.key()
		if seen[k] {
			return
		}
		if len(seen) >= maxStatesPerCode {
			cr.overflow = true
			return
		}
		seen[k] = true
		work = append(work, s)
	}
	push(vState{pc: 0}, 0)
	for len(work) > 0 {
		s := work[len(work)-1]
		work = work[:len(work)-1]
		in := ins[s.pc]
		d := len(s.stack)
		if verifDebug {
			fmt.Fprintf(os.Stderr, "  %q pc=%d %v(%d) stack=%q blocks=%v\n", c.Name, s.pc, in.op, in.arg, s.stack, s.blocks)
		}
		if d > cr.maxDepth {
			cr.maxDepth = d
		}
		if len(s.blocks) > cr.maxBlocks {
			cr.maxBlocks = len(s.blocks)
		}
		if d > int(c.Stacksize) {
			r.errf(c, s.pc, "stack depth %d exceeds declared stacksize %d (stack %q)", d, c.Stacksize, s.stack)
			continue
		}
		m := cr.predicted[s.pc]
		if m == nil {
			m = map[depthPair]bool{}
			cr.predicted[s.pc] = m
		}
		m[depthPair{d, len(s.blocks)}] = true
		if len(s.blocks) > 2*nsetup+1 {
			r.errf(c, s.pc, "block stack grows without bound: %d live blocks in code with %d SETUP_* instructions (a path re-enters a block it never left)", len(s.blocks), nsetup)
			continue
		}
		step(r, c, cr, ins, s, in, push)
	}
	cr.nStates = len(seen)
	// every instruction should be reachable? (dead code is legal: e.g. after return) - not checked.
	return cr
}

func checkLnotab(r *verifyReport, c *py.Code, cr *codeReport, nlines int) {
	lt := c.Lnotab
	if len(lt)%2 != 0 {
		r.errf(c, 0, "lnotab has odd length %d", len(lt))
		return
	}
	addr := 0
	line := int(c.Firstlineno)
	if line < 0 || line > nlines+1 {
		r.errf(c, 0, "firstlineno %d outside source (%d lines)", line, nlines)
	}
	for i := 0; i+1 < len(lt); i += 2 {
		da := int(lt[i])
		dl := int(lt[i+1])
		addr += da
		line += dl
		// 3.4 lnotab: both increments unsigned => monotone by construction; check bounds
		if addr > len(c.Code) {
			r.errf(c, 0, "lnotab address %d beyond code length %d", addr, len(c.Code))
			return
		}
		if da != 0 && !cr.instrs[int32(addr)] && addr != len(c.Code) {
			// address increments of 255 are split; only the final address of a run must be a boundary
			if !(da == 255 && dl == 0) {
				r.errf(c, 0, "lnotab address %d is not an instruction boundary", addr)
			}
		}
		if line > nlines+1 {
			r.errf(c, 0, "lnotab line %d beyond source (%d lines)", line, nlines)
			return
		}
	}
}

func pops(s string, n int) (string, bool) {
	if len(s) < n {
		return s, false
	}
	return s[:len(s)-n], true
}

func rep(k byte, n int) string { return strings.Repeat(string(k), n) }

// abstract unwind, following RunFrame's unwinding loop. why: 'E' exception, 'R' return, 'B' break, 'C' continue.
// Returns the successor state, or terminal=true if the frame exits.
func unwind(r *verifyReport, c *py.Code, s vState, why byte, contTarget int32, at int32) (ns vState, terminal bool, ok bool) {
	stack := s.stack
	blocks := append([]vBlock(nil), s.blocks...)
	for len(blocks) > 0 {
		b := blocks[len(blocks)-1]
		if b.typ == 'L' && why == 'C' {
			return vState{pc: contTarget, stack: stack, blocks: blocks}, false, true
		}
		blocks = blocks[:len(blocks)-1]
		if b.typ == 'H' {
			if len(stack) < b.level+3 {
				r.errf(c, at, "unwinding except-handler block: stack depth %d < level+3 = %d (VM would panic)", len(stack), b.level+3)
				return ns, false, false
			}
			stack = stack[:b.level]
			continue
		}
		if len(stack) > b.level {
			stack = stack[:b.level]
		} else if len(stack) < b.level {
			r.errf(c, at, "unwinding block %c: stack depth %d below block level %d", b.typ, len(stack), b.level)
			return ns, false, false
		}
		if b.typ == 'L' && why == 'B' {
			return vState{pc: b.handler, stack: stack, blocks: blocks}, false, true
		}
		if why == 'E' && (b.typ == 'X' || b.typ == 'F') {
			blocks = append(blocks, vBlock{'H', -1, len(stack)})
			stack = stack + "vvvvvE"
			return vState{pc: b.handler, stack: stack, blocks: blocks}, false, true
		}
		if b.typ == 'F' {
			if why == 'R' || why == 'C' {
				stack += "v"
			}
			if why == 'C' {
				stack += string(contKind(contTarget))
			} else {
				stack += string(why)
			}
			return vState{pc: b.handler, stack: stack, blocks: blocks}, false, true
		}
	}
	if why == 'R' || why == 'E' {
		return ns, true, true
	}
	r.errf(c, at, "why=%c reaches the end of the block stack (VM would panic: no result or exception)", why)
	return ns, false, false
}

func step(r *verifyReport, c *py.Code, cr *codeReport, ins map[int32]*instr, s vState, in *instr, push func(vState, int32)) {
	pc := s.pc
	st := s.stack
	fail := func(f string, a ...interface{}) { r.errf(c, pc, f, a...) }
	need := func(n int) bool {
		if len(st) < n {
			fail("%v needs %d stack entries, has %d (stack %q)", in.op, n, len(st), st)
			return false
		}
		return true
	}
	goNext := func(stack string) {
		if int(in.next) >= len(c.Code) {
			fail("%v falls off the end of the code", in.op)
			return
		}
		push(vState{pc: in.next, stack: stack, blocks: s.blocks}, pc)
	}
	goTo := func(target int32, stack string) {
		push(vState{pc: target, stack: stack, blocks: s.blocks}, pc)
	}
	excEdge := func() {
		if len(s.blocks) == 0 {
			return
		}
		ns, term, ok := unwind(r, c, s, 'E', 0, pc)
		if ok && !term {
			push(ns, pc)
		}
	}
	simple := func(npop, npush int) {
		if !need(npop) {
			return
		}
		ns, _ := pops(st, npop)
		goNext(ns + rep('v', npush))
	}
	if !noRaise[in.op] {
		excEdge()
	}
	a := int(in.arg)
	switch in.op {
	case vm.NOP, vm.EXTENDED_ARG:
		goNext(st)
	case vm.POP_TOP:
		simple(1, 0)
	case vm.ROT_TWO:
		if need(2) {
			n := len(st)
			goNext(st[:n-2] + string(st[n-1]) + string(st[n-2]))
		}
	case vm.ROT_THREE:
		if need(3) {
			n := len(st)
			// TOS moves to third position
			goNext(st[:n-3] + string(st[n-1]) + string(st[n-3]) + string(st[n-2]))
		}
	case vm.DUP_TOP:
		if need(1) {
			goNext(st + string(st[len(st)-1]))
		}
	case vm.DUP_TOP_TWO:
		if need(2) {
			goNext(st + st[len(st)-2:])
		}
	case vm.UNARY_POSITIVE, vm.UNARY_NEGATIVE, vm.UNARY_NOT, vm.UNARY_INVERT, vm.GET_ITER, vm.LOAD_ATTR:
		simple(1, 1)
	case vm.BINARY_POWER, vm.BINARY_MULTIPLY, vm.BINARY_MODULO, vm.BINARY_ADD, vm.BINARY_SUBTRACT, vm.BINARY_SUBSCR, vm.BINARY_FLOOR_DIVIDE, vm.BINARY_TRUE_DIVIDE,
		vm.INPLACE_FLOOR_DIVIDE, vm.INPLACE_TRUE_DIVIDE, vm.INPLACE_ADD, vm.INPLACE_SUBTRACT, vm.INPLACE_MULTIPLY, vm.INPLACE_MODULO,
		vm.BINARY_LSHIFT, vm.BINARY_RSHIFT, vm.BINARY_AND, vm.BINARY_XOR, vm.BINARY_OR, vm.INPLACE_POWER,
		vm.INPLACE_LSHIFT, vm.INPLACE_RSHIFT, vm.INPLACE_AND, vm.INPLACE_XOR, vm.INPLACE_OR, vm.COMPARE_OP:
		simple(2, 1)
	case vm.STORE_MAP:
		simple(3, 1)
	case vm.STORE_SUBSCR:
		simple(3, 0)
	case vm.DELETE_SUBSCR:
		simple(2, 0)
	case vm.PRINT_EXPR, vm.IMPORT_STAR, vm.STORE_NAME, vm.STORE_GLOBAL, vm.STORE_FAST, vm.STORE_DEREF, vm.DELETE_ATTR:
		simple(1, 0)
	case vm.STORE_ATTR:
		simple(2, 0)
	case vm.LOAD_BUILD_CLASS, vm.LOAD_NAME, vm.LOAD_GLOBAL, vm.LOAD_FAST, vm.LOAD_CLOSURE, vm.LOAD_DEREF, vm.LOAD_CLASSDEREF, vm.BUILD_MAP:
		simple(0, 1)
	case vm.DELETE_NAME, vm.DELETE_GLOBAL, vm.DELETE_FAST, vm.DELETE_DEREF:
		simple(0, 0)
	case vm.LOAD_CONST:
		k := byte('v')
		if a >= 0 && a < len(c.Consts) && c.Consts[a] == py.None {
			k = 'n'
		}
		goNext(st + string(k))
	case vm.YIELD_VALUE:
		if c.Flags&py.CO_GENERATOR == 0 {
			fail("YIELD_VALUE in a code object without CO_GENERATOR")
		}
		simple(1, 1)
	case vm.YIELD_FROM:
		if c.Flags&py.CO_GENERATOR == 0 {
			fail("YIELD_FROM in a code object without CO_GENERATOR")
		}
		// [x, u] -> yields (and re-executes with [x, sent]) or finishes with one value left
		simple(2, 1)
	case vm.UNPACK_SEQUENCE:
		simple(1, a)
	case vm.UNPACK_EX:
		simple(1, (a&0xff)+1+(a>>8))
	case vm.BUILD_TUPLE, vm.BUILD_LIST, vm.BUILD_SET:
		simple(a, 1)
	case vm.BUILD_SLICE:
		simple(a, 1)
	case vm.IMPORT_NAME:
		simple(2, 1)
	case vm.IMPORT_FROM:
		simple(1, 2)
	case vm.LIST_APPEND, vm.SET_ADD:
		// pops TOS, then PEEK(a) must exist
		if need(1 + a) {
			if a < 1 {
				fail("%v operand %d", in.op, a)
			}
			goNext(st[:len(st)-1])
		}
	case vm.MAP_ADD:
		if need(2 + a) {
			if a < 1 {
				fail("MAP_ADD operand %d", a)
			}
			goNext(st[:len(st)-2])
		}
	case vm.CALL_FUNCTION, vm.CALL_FUNCTION_VAR, vm.CALL_FUNCTION_KW, vm.CALL_FUNCTION_VAR_KW:
		n := (a & 0xff) + 2*((a>>8)&0xff) + 1
		switch in.op {
		case vm.CALL_FUNCTION_VAR, vm.CALL_FUNCTION_KW:
			n++
		case vm.CALL_FUNCTION_VAR_KW:
			n += 2
		}
		simple(n, 1)
	case vm.MAKE_FUNCTION, vm.MAKE_CLOSURE:
		n := 2 + (a & 0xff) + 2*((a>>8)&0xff) + ((a >> 16) & 0x7fff)
		if in.op == vm.MAKE_CLOSURE {
			n++
		}
		simple(n, 1)
	case vm.RAISE_VARARGS:
		if need(a) {
			// raises: exception edge already added; if no block, the frame exits with the exception
		}
	case vm.RETURN_VALUE:
		if need(1) {
			ns := vState{pc: pc, stack: st[:len(st)-1], blocks: s.blocks}
			nx, term, ok := unwind(r, c, ns, 'R', 0, pc)
			if ok && !term {
				push(nx, pc)
			}
		}
	case vm.BREAK_LOOP:
		nx, term, ok := unwind(r, c, s, 'B', 0, pc)
		if ok && !term {
			push(nx, pc)
		}
	case vm.CONTINUE_LOOP:
		if _, okb := ins[int32(a)]; !okb {
			fail("CONTINUE_LOOP target %d is not an instruction boundary", a)
			return
		}
		nx, term, ok := unwind(r, c, s, 'C', int32(a), pc)
		if ok && !term {
			push(nx, pc)
		}
	case vm.JUMP_FORWARD:
		goTo(in.next+in.arg, st)
	case vm.JUMP_ABSOLUTE:
		goTo(in.arg, st)
	case vm.POP_JUMP_IF_FALSE, vm.POP_JUMP_IF_TRUE:
		if need(1) {
			ns := st[:len(st)-1]
			goTo(in.arg, ns)
			goNext(ns)
		}
	case vm.JUMP_IF_FALSE_OR_POP, vm.JUMP_IF_TRUE_OR_POP:
		if need(1) {
			goTo(in.arg, st)
			goNext(st[:len(st)-1])
		}
	case vm.FOR_ITER:
		if need(1) {
			goNext(st + "v")
			goTo(in.next+in.arg, st[:len(st)-1])
		}
	case vm.SETUP_LOOP, vm.SETUP_EXCEPT, vm.SETUP_FINALLY:
		t := byte('L')
		if in.op == vm.SETUP_EXCEPT {
			t = 'X'
		} else if in.op == vm.SETUP_FINALLY {
			t = 'F'
		}
		h := in.next + in.arg
		if _, okb := ins[h]; !okb {
			fail("%v handler %d is not an instruction boundary", in.op, h)
			return
		}
		nb := append(append([]vBlock(nil), s.blocks...), vBlock{t, h, len(st)})
		if int(in.next) >= len(c.Code) {
			fail("%v falls off the end of the code", in.op)
			return
		}
		push(vState{pc: in.next, stack: st, blocks: nb}, pc)
	case vm.SETUP_WITH:
		if need(1) {
			h := in.next + in.arg
			if _, okb := ins[h]; !okb {
				fail("SETUP_WITH handler %d is not an instruction boundary", h)
				return
			}
			ns := st[:len(st)-1] + "X"
			nb := append(append([]vBlock(nil), s.blocks...), vBlock{'F', h, len(ns)})
			push(vState{pc: in.next, stack: ns + "v", blocks: nb}, pc)
		}
	case vm.POP_BLOCK:
		if len(s.blocks) == 0 {
			fail("POP_BLOCK with an empty block stack")
			return
		}
		b := s.blocks[len(s.blocks)-1]
		if b.typ == 'H' {
			fail("POP_BLOCK pops an except-handler block")
			return
		}
		if len(st) < b.level {
			fail("POP_BLOCK: stack depth %d below block level %d", len(st), b.level)
			return
		}
		push(vState{pc: in.next, stack: st, blocks: s.blocks[:len(s.blocks)-1]}, pc)
	case vm.POP_EXCEPT:
		if len(s.blocks) == 0 {
			fail("POP_EXCEPT with an empty block stack")
			return
		}
		b := s.blocks[len(s.blocks)-1]
		if b.typ != 'H' {
			fail("POP_EXCEPT: popped block is %c, not an except handler", b.typ)
			return
		}
		if len(st) < b.level+3 {
			fail("POP_EXCEPT: stack depth %d < level+3 = %d (VM would panic)", len(st), b.level+3)
			return
		}
		push(vState{pc: in.next, stack: st[:b.level], blocks: s.blocks[:len(s.blocks)-1]}, pc)
	case vm.END_FINALLY:
		if !need(1) {
			return
		}
		top := st[len(st)-1]
		rest := st[:len(st)-1]
		switch top {
		case 'n':
			goNext(rest)
		case 'B':
			nx, term, ok := unwind(r, c, vState{pc: pc, stack: rest, blocks: s.blocks}, 'B', 0, pc)
			if ok && !term {
				push(nx, pc)
			}
		case 'R':
			if len(rest) < 1 {
				fail("END_FINALLY: why=return without a return value below")
				return
			}
			nx, term, ok := unwind(r, c, vState{pc: pc, stack: rest[:len(rest)-1], blocks: s.blocks}, 'R', 0, pc)
			if ok && !term {
				push(nx, pc)
			}
		case 'C':
			// the continue target was pushed as retval by the unwinder; we do not track its value:
			// it is the operand of the CONTINUE_LOOP that started the unwind. Find the innermost loop block
			// and require it to exist; the target is the loop's FOR_ITER/loop start which we cannot recover
			// from the kinds alone, so continue-through-finally is followed by encoding the target in the kind (see below).
			fail("internal: untagged continue why-code")
		case 'S':
			if len(s.blocks) == 0 || s.blocks[len(s.blocks)-1].typ != 'H' {
				fail("END_FINALLY(silenced): top block is not an except handler (VM would panic)")
				return
			}
			b := s.blocks[len(s.blocks)-1]
			if len(rest) < b.level+3 {
				fail("END_FINALLY(silenced): stack depth %d < level+3 = %d", len(rest), b.level+3)
				return
			}
			push(vState{pc: in.next, stack: rest[:b.level], blocks: s.blocks[:len(s.blocks)-1]}, pc)
		case 'E':
			if len(rest) < 2 {
				fail("END_FINALLY: exception type without value/traceback below")
				return
			}
			nx, term, ok := unwind(r, c, vState{pc: pc, stack: rest[:len(rest)-2], blocks: s.blocks}, 'E', 0, pc)
			if ok && !term {
				push(nx, pc)
			}
		default:
			if isContKind(top) {
				// tagged continue: kind byte indexes contTargets
				tgt := contTargetOf(top)
				if len(rest) < 1 {
					fail("END_FINALLY: why=continue without target below")
					return
				}
				nx, term, ok := unwind(r, c, vState{pc: pc, stack: rest[:len(rest)-1], blocks: s.blocks}, 'C', tgt, pc)
				if ok && !term {
					push(nx, pc)
				}
				return
			}
			fail("END_FINALLY pops %q which is neither None, a why-code nor an exception (VM: SystemError 'finally pops bad exception')", string(top))
		}
	case vm.WITH_CLEANUP:
		if !need(1) {
			return
		}
		top := st[len(st)-1]
		switch {
		case top == 'n':
			// [X, n] -> [n]
			if !need(2) {
				return
			}
			if st[len(st)-2] != 'X' {
				fail("WITH_CLEANUP: expected __exit__ below None, found kind %q", string(st[len(st)-2]))
				return
			}
			goNext(st[:len(st)-2] + "n")
		case top == 'R' || isContKind(top):
			// [X, retval, why] -> [retval, why]
			if !need(3) {
				return
			}
			if st[len(st)-3] != 'X' {
				fail("WITH_CLEANUP: expected __exit__ below retval, found kind %q", string(st[len(st)-3]))
				return
			}
			goNext(st[:len(st)-3] + st[len(st)-2:])
		case top == 'B':
			if !need(2) {
				return
			}
			if st[len(st)-2] != 'X' {
				fail("WITH_CLEANUP: expected __exit__ below why, found kind %q", string(st[len(st)-2]))
				return
			}
			goNext(st[:len(st)-2] + "B")
		case top == 'E':
			// [X, tb2, exc2, tp2, tb, val, exc] with an except-handler block whose level is decremented
			if !need(7) {
				return
			}
			if st[len(st)-7] != 'X' {
				fail("WITH_CLEANUP: expected __exit__ at depth 7, found kind %q", string(st[len(st)-7]))
				return
			}
			if len(s.blocks) == 0 || s.blocks[len(s.blocks)-1].typ != 'H' {
				fail("WITH_CLEANUP: top block is not an except handler (VM would panic)")
				return
			}
			nb := append([]vBlock(nil), s.blocks...)
			nb[len(nb)-1].level--
			// the VM shifts the lower triple down over __exit__ and leaves a nil in the fourth slot: depth unchanged
			ns := st[:len(st)-7] + "v" + st[len(st)-6:]
			// either __exit__ returned true (push silenced) or not
			push(vState{pc: in.next, stack: ns, blocks: nb}, pc)
			push(vState{pc: in.next, stack: ns + "S", blocks: nb}, pc)
		default:
			fail("WITH_CLEANUP: unexpected top-of-stack kind %q", string(top))
		}
	default:
		fail("verifier: unhandled opcode %v", in.op)
	}
}

// continue targets are tagged into the why-kind so that END_FINALLY can resume the unwind
const contKinds = "0123456789abcdefghijklmopqrstuwxyz"

var contTargets []int32
var contIndex = map[int32]byte{}

func isContKind(k byte) bool { return strings.IndexByte(contKinds, k) >= 0 }

func contKind(t int32) byte {
	if k, ok := contIndex[t]; ok {
		return k
	}
	if len(contTargets) >= len(contKinds) {
		return contKinds[0] // saturate: >34 distinct continue-through-finally targets in one code object
	}
	k := contKinds[len(contTargets)]
	contTargets = append(contTargets, t)
	contIndex[t] = k
	return k
}

func contTargetOf(k byte) int32 {
	i := strings.IndexByte(contKinds, k)
	if i >= 0 && i < len(contTargets) {
		return contTargets[i]
	}
	return -1
}

func opNames(m map[vm.OpCode]bool) []string {
	var out []string
	for op := range m {
		out = append(out, op.String())
	}
	sort.Strings(out)
	return out
}
