package main

// C04, direct mode gorecv: the receiver a module-level Go callable gets is the module object of the context the call was made in - also when
// several contexts that imported the same ModuleImpl (flagged ShareModule or not) are alive at the same time, whatever order they were
// created and called in.  Every supported Go signature; print() of each context writes to that context's sys.stdout.

import (
	"encoding/json"
	"fmt"
	"os"

	"github.com/go-python/gpython/py"
)

var gorecvSeen []py.Object

func init() {
	directModes["gorecv"] = goRecvMain
	mk := func(name string, flags py.ModuleFlags) {
		py.RegisterModule(&py.ModuleImpl{
			Info: py.ModuleInfo{Name: name, Flags: flags},
			Methods: []*py.Method{
				py.MustNewMethod("r0", func(self py.Object) (py.Object, error) { gorecvSeen = append(gorecvSeen, self); return py.None, nil }, 0, ""),
				py.MustNewMethod("r1", func(self py.Object, a py.Object) (py.Object, error) { gorecvSeen = append(gorecvSeen, self); return a, nil }, 0, ""),
				py.MustNewMethod("ra", func(self py.Object, a py.Tuple) (py.Object, error) {
					gorecvSeen = append(gorecvSeen, self)
					return py.Int(len(a)), nil
				}, 0, ""),
				py.MustNewMethod("rk", func(self py.Object, a py.Tuple, k py.StringDict) (py.Object, error) {
					gorecvSeen = append(gorecvSeen, self)
					return py.Int(len(a) + 10*len(k)), nil
				}, 0, ""),
			},
		})
	}
	mk("recvshared", py.ShareModule)
	mk("recvown", 0)
}

func goRecvMain() int {
	type viol struct {
		Order string `json:"order"`
		What  string `json:"what"`
	}
	var viols []viol
	calls := 0
	src := "import recvshared, recvown\nrecvshared.r0()\nrecvshared.r1(5)\nrecvshared.ra(1, 2)\nrecvshared.rk(1, x=2)\nrecvown.r0()\nrecvown.r1(5)\nrecvown.ra(1, 2)\nrecvown.rk(1, x=2)\nprint(TAG)\nf = recvshared.r1\ng = recvown.rk\n"
	again := "f(1)\ng(2, y=3)\nprint(TAG)\n"
	code, err := py.Compile(src, "<recv>", py.ExecMode, 0, true)
	code2, err2 := py.Compile(again, "<recv2>", py.ExecMode, 0, true)
	if err != nil || err2 != nil {
		fmt.Println("setup:", err, err2)
		return 1
	}
	// creation orders / call orders over three contexts
	orders := [][]int{{0, 1, 2}, {2, 1, 0}, {0, 2, 1}, {1, 0, 2}, {0, 0, 1}, {2, 0, 2}}
	for _, order := range orders {
		ctxs := []py.Context{}
		caps := []*capture{}
		globs := []py.StringDict{}
		for i := 0; i < 3; i++ {
			c, cp := newCtx(nil)
			ctxs = append(ctxs, c)
			caps = append(caps, cp)
			globs = append(globs, py.StringDict{"TAG": py.String(fmt.Sprintf("ctx%d", i))})
		}
		check := func(phase string, i int, expectShared, expectOwn []int) {
			ms, _ := ctxs[i].GetModule("recvshared")
			mo, _ := ctxs[i].GetModule("recvown")
			for k, s := range gorecvSeen {
				calls++
				var want py.Object = mo
				isShared := false
				for _, x := range expectShared {
					if x == k {
						isShared = true
					}
				}
				if isShared {
					want = ms
				}
				if s != py.Object(want) {
					which := "another module object"
					for j := range ctxs {
						a, _ := ctxs[j].GetModule("recvshared")
						b, _ := ctxs[j].GetModule("recvown")
						if s == py.Object(a) || s == py.Object(b) {
							which = fmt.Sprintf("the module of context %d", j)
						}
					}
					viols = append(viols, viol{fmt.Sprint(order), fmt.Sprintf("%s: call %d made in context %d received %s as its receiver (shared-flag module: %v)", phase, k, i, which, isShared)})
				}
			}
		}
		for _, i := range order {
			gorecvSeen = nil
			caps[i].sb.Reset()
			if _, err := ctxs[i].RunCode(code, globs[i], globs[i], nil); err != nil {
				viols = append(viols, viol{fmt.Sprint(order), "run failed: " + err.Error()})
				continue
			}
			check("first calls", i, []int{0, 1, 2, 3}, nil)
			if got := caps[i].sb.String(); got != fmt.Sprintf("ctx%d\n", i) {
				viols = append(viols, viol{fmt.Sprint(order), fmt.Sprintf("print() in context %d wrote %q to that context's stdout", i, got)})
			}
		}
		// bound callables taken earlier, called again after all contexts exist and ran
		for _, i := range order {
			gorecvSeen = nil
			caps[i].sb.Reset()
			if _, err := ctxs[i].RunCode(code2, globs[i], globs[i], nil); err != nil {
				viols = append(viols, viol{fmt.Sprint(order), "second run failed: " + err.Error()})
				continue
			}
			check("later calls through kept callables", i, []int{0}, nil)
			if got := caps[i].sb.String(); got != fmt.Sprintf("ctx%d\n", i) {
				viols = append(viols, viol{fmt.Sprint(order), fmt.Sprintf("print() in context %d (second run) wrote %q to that context's stdout", i, got)})
			}
		}
		for _, c := range ctxs {
			c.Close()
		}
	}
	out := map[string]interface{}{"orders": len(orders), "receiver_observations": calls, "violations": viols}
	b, _ := json.Marshal(out)
	if *flagOut != "" {
		os.WriteFile(*flagOut, append(b, '\n'), 0644)
	} else {
		fmt.Println(string(b))
	}
	return 0
}
