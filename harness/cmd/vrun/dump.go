package main

import (
	"fmt"
	"math"
	"math/big"
	"sort"
	"strings"

	"github.com/go-python/gpython/py"
)

// dumpCode renders every field of a code object, recursively, in a canonical text form.
func dumpCode(c *py.Code) string {
	var sb strings.Builder
	dumpCodeTo(&sb, c, 0)
	return sb.String()
}

func dumpCodeTo(sb *strings.Builder, c *py.Code, depth int) {
	ind := strings.Repeat("  ", depth)
	fmt.Fprintf(sb, "%scode name=%q file=%q first=%d argc=%d kwonly=%d nlocals=%d stack=%d flags=%#x\n", ind, c.Name, c.Filename, c.Firstlineno, c.Argcount, c.Kwonlyargcount, c.Nlocals, c.Stacksize, c.Flags)
	fmt.Fprintf(sb, "%s bytes=%x\n", ind, c.Code)
	fmt.Fprintf(sb, "%s lnotab=%x\n", ind, c.Lnotab)
	fmt.Fprintf(sb, "%s names=%q varnames=%q freevars=%q cellvars=%q cell2arg=%v\n", ind, c.Names, c.Varnames, c.Freevars, c.Cellvars, c.Cell2arg)
	for i, k := range c.Consts {
		fmt.Fprintf(sb, "%s const[%d]=", ind, i)
		if cc, ok := k.(*py.Code); ok {
			sb.WriteString("\n")
			dumpCodeTo(sb, cc, depth+1)
		} else {
			sb.WriteString(dumpObj(k))
			sb.WriteString("\n")
		}
	}
}

// dumpObj: canonical, unambiguous rendering of a constant-like object
func dumpObj(o py.Object) string {
	switch v := o.(type) {
	case nil:
		return "<nil>"
	case py.NoneType:
		return "None"
	case py.Bool:
		if v {
			return "True"
		}
		return "False"
	case py.Int:
		return fmt.Sprintf("int:%d", int64(v))
	case *py.BigInt:
		return "bigint:" + (*big.Int)(v).String()
	case py.Float:
		return fmt.Sprintf("float:%016x", math.Float64bits(float64(v)))
	case py.Complex:
		return fmt.Sprintf("complex:%016x,%016x", math.Float64bits(real(complex128(v))), math.Float64bits(imag(complex128(v))))
	case py.String:
		return "str:" + cps(string(v))
	case py.Bytes:
		return fmt.Sprintf("bytes:%x", []byte(v))
	case py.Tuple:
		parts := make([]string, len(v))
		for i, e := range v {
			parts[i] = dumpObj(e)
		}
		return "tuple(" + strings.Join(parts, ",") + ")"
	case *py.List:
		parts := make([]string, len(v.Items))
		for i, e := range v.Items {
			parts[i] = dumpObj(e)
		}
		return "list(" + strings.Join(parts, ",") + ")"
	case *py.FrozenSet:
		return "frozenset(...)"
	case py.StringDict:
		keys := make([]string, 0, len(v))
		for k := range v {
			keys = append(keys, k)
		}
		sort.Strings(keys)
		parts := make([]string, len(keys))
		for i, k := range keys {
			parts[i] = cps(k) + "=" + dumpObj(v[k])
		}
		return "sdict(" + strings.Join(parts, ",") + ")"
	case py.EllipsisType:
		return "Ellipsis"
	case *py.Code:
		return "code<" + dumpCode(v) + ">"
	}
	return fmt.Sprintf("<%s>", o.Type().Name)
}

// cps renders a string as its code points (so that the dump is independent of any repr logic)
func cps(s string) string {
	var sb strings.Builder
	sb.WriteByte('[')
	first := true
	for _, r := range s {
		if !first {
			sb.WriteByte(' ')
		}
		first = false
		fmt.Fprintf(&sb, "%x", r)
	}
	sb.WriteByte(']')
	return sb.String()
}
