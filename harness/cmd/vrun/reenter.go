package main

// C09, direct mode lifereenter: "Close may be called at any time" - also from inside a module's close callback (same goroutine).
// One context, one module whose OnContextClosed calls Close again.  The closing goroutine is observed by goroutine-state sampling:
// a goroutine that waits, inside Close, for a sync.Once / mutex held by an outer Close of the same goroutine can never proceed
// (structural verdict: the stack shows (*context).Close twice and a sync wait on top), so no wall-clock deadline decides.

import (
	"encoding/json"
	"fmt"
	"os"
	"regexp"
	"runtime"
	"strings"
	"time"

	"github.com/go-python/gpython/py"
)

func init() {
	directModes["lifereenter"] = lifeReenterMain
}

func lifeReenterMain() int {
	out := map[string]interface{}{}
	ctx, _ := newCtx(nil)
	callbacks := 0
	impl := &py.ModuleImpl{
		Info: py.ModuleInfo{Name: "reentermod"},
		OnContextClosed: func(m *py.Module) {
			callbacks++
			m.Context.Close()
		},
	}
	if _, err := ctx.ModuleInit(impl); err != nil {
		out["setup_error"] = err.Error()
	} else {
		returned := make(chan struct{})
		go func() {
			ctx.Close()
			close(returned)
		}()
		closeFrames := regexp.MustCompile(`stdlib\.\(\*context\)\.Close`)
		verdict := "inconclusive"
		stuck := 0
		for i := 0; i < 200 && verdict == "inconclusive"; i++ {
			select {
			case <-returned:
				verdict = "returned"
			case <-time.After(50 * time.Millisecond):
				buf := make([]byte, 1<<20)
				n := runtime.Stack(buf, true)
				blocked := false
				for _, g := range strings.Split(string(buf[:n]), "\n\n") {
					if len(closeFrames.FindAllString(g, -1)) >= 2 && (strings.Contains(g, "[sync.Mutex.Lock") || strings.Contains(g, "[semacquire") || strings.Contains(g, "[sync.Cond.Wait") || strings.Contains(g, "[chan receive")) {
						blocked = true
						out["stack"] = trimStack(g)
					}
				}
				if blocked {
					stuck++
				} else {
					stuck = 0
				}
				if stuck >= 3 {
					verdict = "deadlock"
				}
			}
		}
		out["verdict"] = verdict
		out["callbacks"] = callbacks
		if verdict == "returned" {
			select {
			case <-ctx.Done():
				out["done"] = true
			default:
				out["done"] = false
			}
		}
	}
	b, _ := json.Marshal(out)
	if *flagOut != "" {
		os.WriteFile(*flagOut, append(b, '\n'), 0644)
	} else {
		fmt.Println(string(b))
	}
	return 0
}
