package main

// gomod mode (C19, Go-implemented modules): three modules are registered with py.RegisterModule
//   vg_plain  : Methods + Globals
//   vg_src    : Methods + Globals + CodeSrc (the body calls _hit(), so every initialisation is counted)
//   vg_closed : Methods + CodeSrc + OnContextClosed
// A case runs its program (plus optional source modules in `files`) in `nctx` fresh contexts one after the other and
// reports, per context: stdout, exception type, number of body executions per module object, whether every module
// object seen by a Go method (its bound `self`, and the object the program passed to ident()) is the one
// ctx.GetModule returns, which modules are loaded, and the OnContextClosed calls made by ctx.Close().

import (
	"encoding/json"
	"fmt"
	"os"
	"path/filepath"
	"runtime/debug"

	"github.com/go-python/gpython/py"
)

type gomodCase struct {
	ID    string            `json:"id"`
	Src   string            `json:"src"`
	Files map[string]string `json:"files"`
	Nctx  int               `json:"nctx"`
}

var gomodNames = []string{"vg_plain", "vg_src", "vg_closed"}

var gm struct {
	hits   map[*py.Module]int      // body executions per module object
	selfs  map[string][]*py.Module // module objects seen as bound self, by module name
	args   map[string][]py.Object  // objects passed to ident(), by module name
	closed []*py.Module
}

func gmReset() {
	gm.hits = map[*py.Module]int{}
	gm.selfs = map[string][]*py.Module{}
	gm.args = map[string][]py.Object{}
	gm.closed = nil
}

func gomodMethods(name string) []*py.Method {
	return []*py.Method{
		py.MustNewMethod("_hit", func(self py.Object) (py.Object, error) {
			m := self.(*py.Module)
			gm.hits[m]++
			gm.selfs[name] = append(gm.selfs[name], m)
			return py.None, nil
		}, 0, "_hit()"),
		py.MustNewMethod("ident", func(self py.Object, arg py.Object) (py.Object, error) {
			m := self.(*py.Module)
			gm.selfs[name] = append(gm.selfs[name], m)
			gm.args[name] = append(gm.args[name], arg)
			return py.NewBool(arg == py.Object(m)), nil
		}, 0, "ident(x) -> x is this module"),
	}
}

func init() {
	gmReset()
	py.RegisterModule(&py.ModuleImpl{
		Info:    py.ModuleInfo{Name: "vg_plain", Doc: "verif plain go module"},
		Methods: gomodMethods("vg_plain"),
		Globals: py.StringDict{"counter": py.Int(0), "_hidden": py.Int(7)},
	})
	py.RegisterModule(&py.ModuleImpl{
		Info:    py.ModuleInfo{Name: "vg_src", Doc: "verif go module with source body"},
		Methods: gomodMethods("vg_src"),
		Globals: py.StringDict{"counter": py.Int(0)},
		CodeSrc: "_hit()\nvalue = 41 + 1\n_private = 1\n",
	})
	py.RegisterModule(&py.ModuleImpl{
		Info:            py.ModuleInfo{Name: "vg_closed", Doc: "verif go module with close callback"},
		Methods:         gomodMethods("vg_closed"),
		CodeSrc:         "_hit()\nvalue = 5\n",
		OnContextClosed: func(m *py.Module) { gm.closed = append(gm.closed, m) },
	})
	modes["gomod"] = gomodHandler
}

func gomodHandler(raw json.RawMessage) map[string]interface{} {
	var c gomodCase
	if err := json.Unmarshal(raw, &c); err != nil {
		return map[string]interface{}{"harness_panic": "bad case: " + err.Error()}
	}
	if c.Nctx <= 0 {
		c.Nctx = 1
	}
	var paths []string
	if len(c.Files) > 0 {
		dir, err := os.MkdirTemp(".", "vrun-gomod-")
		if err == nil {
			dir, err = filepath.Abs(dir)
		}
		if err != nil {
			return map[string]interface{}{"harness_panic": err.Error()}
		}
		defer os.RemoveAll(dir)
		for name, content := range c.Files {
			if err := os.WriteFile(filepath.Join(dir, name), []byte(content), 0644); err != nil {
				return map[string]interface{}{"harness_panic": err.Error()}
			}
		}
		paths = []string{dir}
	}
	ctxs := []map[string]interface{}{}
	res := map[string]interface{}{}
	for n := 0; n < c.Nctx; n++ {
		rec := map[string]interface{}{}
		gmReset()
		func() {
			ctx, cap := newCtx(paths)
			closedDone := false
			defer func() {
				if r := recover(); r != nil {
					rec["panic"] = fmt.Sprint(r)
					rec["stack"] = trimStack(string(debug.Stack()))
				}
				if !closedDone {
					ctx.Close()
				}
			}()
			code, err := py.Compile(c.Src, "<case>", py.ExecMode, 0, true)
			if err != nil {
				t, _, _ := errInfo(err)
				rec["cerr"] = t
				return
			}
			if _, err := ctxRun(ctx, code); err != nil {
				t, m, _ := errInfo(err)
				rec["exc"] = t
				rec["excmsg"] = m
			}
			rec["out"] = cap.sb.String()
			loaded := map[string]bool{}
			inits := map[string]int{}
			same := map[string]bool{}
			mods := map[string]*py.Module{}
			for _, name := range gomodNames {
				m, err := ctx.GetModule(name)
				loaded[name] = err == nil
				total := 0
				ok := true
				for _, s := range gm.selfs[name] {
					if err != nil || s != m {
						ok = false
					}
				}
				for _, a := range gm.args[name] {
					if err != nil || a != py.Object(m) {
						ok = false
					}
				}
				for mod, h := range gm.hits {
					if mn, _ := mod.Globals["__name__"].(py.String); string(mn) == name {
						total += h
						if err != nil || mod != m {
							ok = false
						}
					}
				}
				inits[name] = total
				same[name] = ok
				if err == nil {
					mods[name] = m
				}
			}
			rec["loaded"] = loaded
			rec["inits"] = inits
			rec["same"] = same
			ctx.Close()
			<-ctx.Done()
			closedDone = true
			rec["closed_calls"] = len(gm.closed)
			okc := true
			for _, m := range gm.closed {
				if m != mods["vg_closed"] {
					okc = false
				}
			}
			rec["closed_same"] = okc
		}()
		ctxs = append(ctxs, rec)
	}
	res["ctxs"] = ctxs
	return res
}
