package main

// C10: "no Python-level action can panic or abort the embedding process".
// mode listcall (direct): enumerate callables/operators/universe as JSON.
// mode call: one case = one callable x a batch of argument tuples; every call runs under recover();
// the result lists the panics (never judged by what a call returns - only by whether it panics).

import (
	"encoding/json"
	"fmt"
	"math"
	"math/big"
	"os"
	"runtime/debug"
	"sort"
	"strings"

	"github.com/go-python/gpython/py"
)

func init() {
	directModes["listcall"] = listCallMain
	modes["call"] = callHandler
	setups["call"] = callSetup
}

type uval struct {
	name string
	huge bool // may make a correct implementation allocate/compute unboundedly
	mk   func() py.Object
}

var fuzzCtx py.Context
var fuzzMod *py.Module
var universe []uval
var uindex = map[string]int{}

const fuzzSetupSrc = `
def fn(*a, **k):
    return 1
def fn2(a, b=2):
    return a
def genf():
    yield 1
    yield 2
class K:
    x = 1
    def m(self):
        return 2
    def __init__(self, *a):
        pass
class E(Exception):
    pass
inst = K()
lam = lambda x: x
class Hostile:
    def __repr__(self):
        return 5
    def __str__(self):
        return None
    def __len__(self):
        return -1
    def __iter__(self):
        return 5
    def __index__(self):
        return "x"
    def __bool__(self):
        return 2
    def __hash__(self):
        return "h"
    def __contains__(self, x):
        return "yes"
    def __getitem__(self, i):
        raise KeyError(i)
    def __call__(self, *a, **k):
        return self
    def __eq__(self, o):
        return 3
    def __lt__(self, o):
        return None
    def __enter__(self):
        return self
    def __exit__(self, *a):
        return 7
    def __int__(self):
        return 1.5
    def __float__(self):
        return "f"
    def __complex__(self):
        return 1
    def __neg__(self):
        return None
    def __add__(self, o):
        return NotImplemented
def mk(c):
    try:
        return c()
    except Exception:
        return None
def mksub(base, name):
    try:
        return type(name, (base,), {})()
    except Exception:
        return None
subl = mksub(list, "SubList")
subd = mksub(dict, "SubDict")
subs = mksub(str, "SubStr")
subn = mksub(int, "SubInt")
subt = mksub(tuple, "SubTuple")
sube = mksub(KeyError, "SubKeyError")
hostile = mk(Hostile)
`

func callSetup() {
	var cap *capture
	fuzzCtx, cap = newCtx(nil)
	_ = cap
	code, err := py.Compile(fuzzSetupSrc, "<fuzzsetup>", py.ExecMode, 0, true)
	if err != nil {
		panic(err)
	}
	impl := py.ModuleImpl{Info: py.ModuleInfo{Name: "__main__", FileDesc: "<fuzzsetup>"}}
	fuzzMod, err = fuzzCtx.Store().NewModule(fuzzCtx, &impl)
	if err != nil {
		panic(err)
	}
	if _, err = fuzzCtx.RunCode(code, fuzzMod.Globals, fuzzMod.Globals, nil); err != nil {
		panic(err)
	}
	buildUniverse()
	buildSnippets()
}

func bigPow(b, e int64) *py.BigInt {
	return (*py.BigInt)(new(big.Int).Exp(big.NewInt(b), big.NewInt(e), nil))
}

func g(name string) py.Object { return fuzzMod.Globals[name] }

func buildUniverse() {
	add := func(name string, huge bool, mk func() py.Object) {
		uindex[name] = len(universe)
		universe = append(universe, uval{name, huge, mk})
	}
	c := func(o py.Object) func() py.Object { return func() py.Object { return o } }
	add("None", false, c(py.None))
	add("True", false, c(py.True))
	add("False", false, c(py.False))
	add("0", false, c(py.Int(0)))
	add("1", false, c(py.Int(1)))
	add("-1", false, c(py.Int(-1)))
	add("7", false, c(py.Int(7)))
	add("2**31", true, c(py.Int(1<<31)))
	add("2**63-1", true, c(py.Int(math.MaxInt64)))
	add("-2**63", true, c(py.Int(math.MinInt64)))
	add("2**64", true, func() py.Object { return bigPow(2, 64) })
	add("-2**100", true, func() py.Object { return (*py.BigInt)(new(big.Int).Neg((*big.Int)(bigPow(2, 100)))) })
	add("big5", false, func() py.Object { return (*py.BigInt)(big.NewInt(5)) })
	add("0.0", false, c(py.Float(0)))
	add("-0.0", false, c(py.Float(math.Copysign(0, -1))))
	add("1.5", false, c(py.Float(1.5)))
	add("inf", false, c(py.Float(math.Inf(1))))
	add("nan", false, c(py.Float(math.NaN())))
	add("1e308", true, c(py.Float(1e308)))
	add("1+2j", false, c(py.Complex(complex(1, 2))))
	add("''", false, c(py.String("")))
	add("'abc'", false, c(py.String("abc")))
	add("'é€😀'", false, c(py.String("é€😀")))
	add("'a\\0b'", false, c(py.String("a\x00b")))
	add("'%s%d'", false, c(py.String("%s %d {} {0}")))
	add("b''", false, c(py.Bytes{}))
	add("b'ab\\xff'", false, c(py.Bytes{'a', 'b', 0xff}))
	add("[]", false, func() py.Object { return py.NewList() })
	add("[1,2,3]", false, func() py.Object { return py.NewListFromItems([]py.Object{py.Int(1), py.Int(2), py.Int(3)}) })
	add("[[1],'a']", false, func() py.Object {
		return py.NewListFromItems([]py.Object{py.NewListFromItems([]py.Object{py.Int(1)}), py.String("a")})
	})
	add("selflist", false, func() py.Object {
		l := py.NewListFromItems([]py.Object{py.Int(1)})
		l.Append(l)
		return l
	})
	add("()", false, func() py.Object { return py.Tuple{} })
	add("(1,2)", false, func() py.Object { return py.Tuple{py.Int(1), py.Int(2)} })
	add("(('a',1),)", false, func() py.Object { return py.Tuple{py.Tuple{py.String("a"), py.Int(1)}} })
	add("{}", false, func() py.Object { return py.NewStringDict() })
	add("{'a':1}", false, func() py.Object { return py.StringDict{"a": py.Int(1)} })
	add("set()", false, func() py.Object { return py.NewSet() })
	add("{1,2}", false, func() py.Object { return py.NewSetFromItems([]py.Object{py.Int(1), py.Int(2)}) })
	add("frozenset{1}", false, func() py.Object { return py.NewFrozenSetFromItems([]py.Object{py.Int(1)}) })
	add("range(0)", false, func() py.Object { r, _ := py.RangeNew(py.RangeType, py.Tuple{py.Int(0)}, nil); return r })
	add("range(5)", false, func() py.Object { r, _ := py.RangeNew(py.RangeType, py.Tuple{py.Int(5)}, nil); return r })
	add("range(2**62)", true, func() py.Object { r, _ := py.RangeNew(py.RangeType, py.Tuple{py.Int(1 << 62)}, nil); return r })
	add("slice(None)", false, func() py.Object { return py.NewSlice(py.None, py.None, py.None) })
	add("slice(1,2**63-1,-1)", false, func() py.Object { return py.NewSlice(py.Int(1), py.Int(math.MaxInt64), py.Int(-1)) })
	add("slice('a',1.5,[])", false, func() py.Object { return py.NewSlice(py.String("a"), py.Float(1.5), py.NewList()) })
	// members whose Go representation is a slice or a map (not comparable with ==)
	add("slice((1,2),b'x',{})", false, func() py.Object {
		return py.NewSlice(py.Tuple{py.Int(1), py.Int(2)}, py.Bytes("x"), py.NewStringDict())
	})
	add("iter([1,2])", false, func() py.Object {
		return py.NewIterator(py.NewListFromItems([]py.Object{py.Int(1), py.Int(2)}))
	})
	add("generator", false, func() py.Object {
		o, err := py.Call(g("genf"), nil, nil)
		if err != nil {
			return py.None
		}
		return o
	})
	add("fn", false, func() py.Object { return g("fn") })
	add("fn2", false, func() py.Object { return g("fn2") })
	add("lambda", false, func() py.Object { return g("lam") })
	add("boundmethod", false, func() py.Object {
		o, err := py.GetAttrString(g("inst"), "m")
		if err != nil {
			return py.None
		}
		return o
	})
	for _, nm := range []string{"subl", "subd", "subs", "subn", "subt", "sube", "hostile"} {
		nm := nm
		if g(nm) != nil && g(nm) != py.None {
			add("inst "+nm, false, func() py.Object { return g(nm) })
		}
	}
	add("[('a',)]", false, func() py.Object {
		return py.NewListFromItems([]py.Object{py.Tuple{py.String("a")}, py.Tuple{py.String("b"), py.Int(1), py.Int(2)}, py.Tuple{}})
	})
	add("class K", false, func() py.Object { return g("K") })
	add("instance", false, func() py.Object { return g("inst") })
	add("KeyError", false, c(py.KeyError))
	add("KeyError()", false, func() py.Object { e, _ := py.ExceptionNew(py.KeyError, nil, nil); return e })
	add("ValueError('x')", false, func() py.Object { return py.ExceptionNewf(py.ValueError, "x") })
	add("class E", false, func() py.Object { return g("E") })
	add("StopIteration", false, c(py.StopIteration))
	add("module sys", false, func() py.Object { return fuzzCtx.Store().MustGetModule("sys") })
	add("code", false, func() py.Object { return g("fn").(*py.Function).Code })
	add("type int", false, c(py.IntType))
	add("type str", false, c(py.StringType))
	add("type list", false, c(py.ListType))
	add("type type", false, c(py.TypeType))
	add("type object", false, c(py.ObjectType))
	add("Ellipsis", false, c(py.Ellipsis))
	add("NotImplemented", false, c(py.NotImplemented))
	add("builtin len", false, func() py.Object { return fuzzCtx.Store().Builtins.Globals["len"] })
}

var opNamesList = []string{"add", "sub", "mul", "truediv", "floordiv", "mod", "divmod", "pow", "lshift", "rshift", "and", "or", "xor",
	"iadd", "isub", "imul", "ifloordiv", "imod", "ipow", "ilshift", "irshift", "iand", "ior", "ixor",
	"neg", "pos", "abs", "invert", "lt", "le", "eq", "ne", "gt", "ge", "bool", "not", "str", "repr", "len", "getitem", "delitem", "contains", "iterlist",
	"makefloat", "makeint", "getattr", "iternext", "callobj", "hashkey"}
var op3NamesList = []string{"pow3", "setitem", "setattr", "callobj2"}

func applyFuzzOp(op string, a []py.Object) (py.Object, error) {
	switch op {
	case "getattr":
		return py.GetAttr(a[0], a[1])
	case "setattr":
		return py.SetAttr(a[0], a[1], a[2])
	case "iternext":
		it, err := py.Iter(a[0])
		if err != nil {
			return nil, err
		}
		return py.Next(it)
	case "callobj":
		if t, ok := a[1].(py.Tuple); ok {
			return py.Call(a[0], t, nil)
		}
		return py.Call(a[0], py.Tuple{a[1]}, nil)
	case "callobj2":
		kw, _ := a[2].(py.StringDict)
		return py.Call(a[0], py.Tuple{a[1]}, kw)
	case "hashkey":
		d := py.NewStringDict()
		return d.M__setitem__(a[0], a[1])
	}
	return applyOp(op, a)
}

// source snippets run with globals a, b, c
var snippetSrc = []string{"a + b", "a - b", "a * b", "a / b", "a // b", "a % b", "a ** b", "a << b", "a >> b", "a & b", "a | b", "a ^ b", "a < b", "a == b", "a != b", "a >= b", "a in b", "a not in b", "a is b",
	"-a", "+a", "~a", "not a", "a[b]", "a[b:c]", "a[b:c:a]", "a[::b]", "a[b] = c", "a[b:c] = a", "del a[b]", "del a[b:c]", "a.b", "a(b)", "a(*b)", "a(**b)", "a(b, *c)", "a(b, **c)", "a(x=b)", "a(*b, **c)",
	"x, y = a", "x, *y = a", "[x for x in a]", "{x for x in a}", "{x: b for x in a}", "for x in a: pass", "a if b else c", "a and b or c", "a < b < c", "a += b", "a -= b", "a *= b", "a //= b", "a **= b", "a <<= b", "a[b] += c",
	"with a: pass", "with a as x: pass", "raise a", "raise a from b", "assert a, b", "print(a)", "print(a, b, sep=c)", "print(a, end=b)", "print(a, file=b)", "{a: b}", "{a, b}", "[a, b][c]", "(a, b) < (b, c)", "str(a) + repr(b)",
	"import a", "from sys import a", "lambda: (yield a)", "def f(x=a, *y, z=b): return x\nf(c)", "class X(a): pass", "class X(a, metaclass=b): pass", "class X:\n    x = a\nX.x(b)", "try:\n    raise a\nexcept b:\n    pass",
	"try:\n    raise a\nexcept (b, c):\n    pass", "a.x = b", "del a.x", "a.x", "a.__class__", "a.__dict__", "a.__name__", "a.__doc__", "a[b][c]", "a(b)(c)", "iter(a)", "next(a, b)", "getattr(a, b, c)", "setattr(a, b, c)",
	"isinstance(a, b)", "issubclass(a, b)", "sorted(a, key=b, reverse=c)", "max(a, b, key=c)", "min(a, default=b)", "sum(a, b)", "zip(a, b, c)", "map(a, b, c)", "filter(a, b)", "enumerate(a, b)", "range(a, b, c)", "slice(a, b, c)",
	"dict(a, **b)", "dict(a)", "list(a)", "tuple(a)", "set(a)", "str(a)", "bytes(a)", "int(a, b)", "float(a)", "complex(a, b)", "bool(a)", "type(a)", "type(a, b, c)", "a.join(b)", "a.format(b, c)", "a % (b, c)", "a.split(b, c)", "a.append(b)", "a.sort(key=b)", "a.get(b, c)",
	"exec(a)", "eval(a)", "compile(a, b, c)", "globals()[a]", "locals()[a] = b", "chr(a)", "ord(a)", "divmod(a, b)", "pow(a, b, c)", "round(a, b)", "abs(a)", "hash(a)", "len(a)", "repr(a)", "bin(a)", "hex(a)", "oct(a)", "any(a)", "all(a)", "open(a, b)"}
var snippetCode []*py.Code

func buildSnippets() {
	for _, s := range snippetSrc {
		code, err := py.Compile(s+"\n", "<snippet>", py.ExecMode, 0, true)
		if err != nil {
			snippetCode = append(snippetCode, nil)
			continue
		}
		snippetCode = append(snippetCode, code)
	}
}

func typeDictNames(t *py.Type) []string {
	// the type's own attribute table and, for a class defined in Python, those of the classes it inherits from (not object's):
	// an instance of a Python subclass of list reaches list's Go methods with a receiver they do not expect
	seen := map[string]bool{}
	for k := range t.Dict {
		seen[k] = true
	}
	for _, b := range t.Mro {
		if bt, ok := b.(*py.Type); ok && bt != py.ObjectType && bt != t {
			for k := range bt.Dict {
				seen[k] = true
			}
		}
	}
	var out []string
	for k := range seen {
		out = append(out, k)
	}
	sort.Strings(out)
	return out
}

func listCallMain() int {
	callSetup()
	out := map[string]interface{}{}
	var bn []string
	for k, v := range fuzzCtx.Store().Builtins.Globals {
		switch v.(type) {
		case *py.Method, *py.Type:
			// skip things that block or touch the process
			if k == "input" || k == "exit" || k == "quit" || k == "breakpoint" {
				continue
			}
			bn = append(bn, k)
		}
	}
	sort.Strings(bn)
	out["builtins"] = bn
	types := map[string][]string{}
	recvOf := map[string][]string{}
	for _, u := range universe {
		t := u.mk().Type()
		if _, ok := types[t.Name]; !ok {
			types[t.Name] = typeDictNames(t)
		}
		recvOf[t.Name] = append(recvOf[t.Name], u.name)
	}
	out["types"] = types
	out["receivers"] = recvOf
	var un, huge []string
	for _, u := range universe {
		un = append(un, u.name)
		if u.huge {
			huge = append(huge, u.name)
		}
	}
	out["universe"] = un
	out["huge"] = huge
	out["ops2"] = opNamesList
	out["ops3"] = op3NamesList
	sn := []string{}
	for i, s := range snippetSrc {
		if snippetCode[i] != nil {
			sn = append(sn, s)
		} else {
			sn = append(sn, "")
		}
	}
	out["snippets"] = sn
	b, _ := json.Marshal(out)
	os.WriteFile(*flagOut, b, 0644)
	return 0
}

type callCase struct {
	ID     string     `json:"id"`
	Kind   string     `json:"kind"` // builtin | method | unbound | op | snippet
	Name   string     `json:"name"`
	Type   string     `json:"type"`   // for method/unbound: the receiver type name (informational)
	Recv   string     `json:"recv"`   // universe name of the receiver (method/unbound)
	Tuples [][]string `json:"tuples"` // explicit argument tuples (universe names)
	Arity  int        `json:"arity"`  // or: enumerate all tuples of this arity over Pool
	Pool   []string   `json:"pool"`
	First  string     `json:"first"` // optional fixed first argument (partition of the product)
	Kw     []string   `json:"kw"`    // optional keyword names; the last len(kw) args are passed as keywords
}

type callPanic struct {
	Args  []string `json:"args"`
	Msg   string   `json:"msg"`
	Stack string   `json:"stack"`
}

func callHandler(raw json.RawMessage) map[string]interface{} {
	var c callCase
	if err := json.Unmarshal(raw, &c); err != nil {
		return map[string]interface{}{"harness_panic": "bad case: " + err.Error()}
	}
	tuples := c.Tuples
	if tuples == nil {
		pool := c.Pool
		var rec func(prefix []string, k int)
		rec = func(prefix []string, k int) {
			if k == 0 {
				tuples = append(tuples, append([]string(nil), prefix...))
				return
			}
			for _, p := range pool {
				rec(append(prefix, p), k-1)
			}
		}
		if c.First != "" {
			rec([]string{c.First}, c.Arity-1)
		} else {
			rec(nil, c.Arity)
		}
	}
	outcomes := map[string]int{}
	var panics []callPanic
	ncalls := 0
	snipIdx := -1
	if c.Kind == "snippet" {
		for i, s := range snippetSrc {
			if s == c.Name {
				snipIdx = i
			}
		}
		if snipIdx < 0 || snippetCode[snipIdx] == nil {
			return map[string]interface{}{"skipped": "snippet does not compile"}
		}
	}
	for _, tup := range tuples {
		args := make([]py.Object, len(tup))
		bad := false
		for i, n := range tup {
			ix, ok := uindex[n]
			if !ok {
				bad = true
				break
			}
			args[i] = universe[ix].mk()
		}
		if bad {
			continue
		}
		ncalls++
		func() {
			defer func() {
				if r := recover(); r != nil {
					msg := fmt.Sprint(r)
					outcomes["PANIC"]++
					if len(panics) < 40 {
						panics = append(panics, callPanic{Args: tup, Msg: msg, Stack: trimStack(string(debug.Stack()))})
					}
				}
			}()
			var err error
			switch c.Kind {
			case "builtin":
				fn := fuzzCtx.Store().Builtins.Globals[c.Name]
				pos, kw := splitKw(args, c.Kw)
				_, err = py.Call(fn, pos, kw)
			case "method":
				recv := universe[uindex[c.Recv]].mk()
				var m py.Object
				m, err = py.GetAttrString(recv, c.Name)
				if err == nil {
					pos, kw := splitKw(args, c.Kw)
					_, err = py.Call(m, pos, kw)
				}
			case "unbound":
				recv := universe[uindex[c.Recv]].mk()
				var m py.Object
				m, err = py.GetAttrString(recv.Type(), c.Name)
				if err == nil {
					_, err = py.Call(m, py.Tuple(args), nil)
				}
			case "op":
				_, err = applyFuzzOp(c.Name, args)
			case "snippet":
				gl := py.StringDict{}
				names := []string{"a", "b", "c"}
				for i, a := range args {
					gl[names[i]] = a
				}
				_, err = fuzzCtx.RunCode(snippetCode[snipIdx], gl, gl, nil)
			}
			if err != nil {
				t, _, _ := errInfo(err)
				outcomes[t]++
			} else {
				outcomes["ok"]++
			}
		}()
	}
	res := map[string]interface{}{"ncalls": ncalls, "outcomes": outcomes}
	if len(panics) > 0 {
		res["panics"] = panics
	}
	return res
}

func splitKw(args []py.Object, kw []string) (py.Tuple, py.StringDict) {
	if len(kw) == 0 || len(kw) > len(args) {
		return py.Tuple(args), nil
	}
	n := len(args) - len(kw)
	d := py.StringDict{}
	for i, k := range kw {
		d[k] = args[n+i]
	}
	return py.Tuple(args[:n]), d
}

var _ = strings.TrimSpace
