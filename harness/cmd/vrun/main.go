// vrun: the harness binary. One binary, many modes; every mode reads JSONL
// cases from --in and writes one JSONL result per case to --out. The id of a
// case is appended to --progress *before* the case starts, so a process abort
// identifies its culprit. Each case runs under recover() and a watchdog.
package main

import (
	"bufio"
	"encoding/json"
	"flag"
	"fmt"
	"os"
	"runtime/debug"
	"time"

	_ "github.com/go-python/gpython/stdlib"
)

type handler func(raw json.RawMessage) map[string]interface{}

var modes = map[string]handler{}

// per-process setup hooks by mode (run once before the first case)
var setups = map[string]func(){}

// per-process summary hooks by mode (run after the last case; result written as a final line with id "__summary__")
var summaries = map[string]func() map[string]interface{}{}

var (
	flagMode     = flag.String("mode", "exec", "mode")
	flagIn       = flag.String("in", "", "input JSONL")
	flagOut      = flag.String("out", "", "output JSONL")
	flagProgress = flag.String("progress", "", "progress file")
	flagSkip     = flag.Int("skip", 0, "skip the first N cases")
	flagTimeout  = flag.Duration("timeout", 20*time.Second, "per-case watchdog")
	flagSeed     = flag.Int64("seed", 1, "seed")
	flagOpt      = flag.String("opt", "", "mode-specific option string")
	flagPerCase  = flag.Bool("percase", false, "exit (status 5) after every case so that each case gets a fresh process")
)

type idOnly struct {
	ID string `json:"id"`
}

func main() {
	flag.Parse()
	if direct, ok := directModes[*flagMode]; ok {
		os.Exit(direct())
	}
	h, ok := modes[*flagMode]
	if !ok {
		fmt.Fprintf(os.Stderr, "unknown mode %q\n", *flagMode)
		os.Exit(64)
	}
	in, err := os.Open(*flagIn)
	if err != nil {
		fmt.Fprintln(os.Stderr, err)
		os.Exit(64)
	}
	outf, err := os.OpenFile(*flagOut, os.O_WRONLY|os.O_CREATE|os.O_APPEND, 0644)
	if err != nil {
		fmt.Fprintln(os.Stderr, err)
		os.Exit(64)
	}
	out := bufio.NewWriterSize(outf, 1<<20)
	var prog *os.File
	if *flagProgress != "" {
		prog, err = os.OpenFile(*flagProgress, os.O_WRONLY|os.O_CREATE|os.O_TRUNC, 0644)
		if err != nil {
			fmt.Fprintln(os.Stderr, err)
			os.Exit(64)
		}
	}
	if s, ok := setups[*flagMode]; ok {
		s()
	}
	sc := bufio.NewScanner(in)
	sc.Buffer(make([]byte, 1<<20), 1<<28)
	n := 0
	for sc.Scan() {
		line := sc.Bytes()
		if len(line) == 0 {
			continue
		}
		n++
		if n <= *flagSkip {
			continue
		}
		raw := make([]byte, len(line))
		copy(raw, line)
		var idv idOnly
		_ = json.Unmarshal(raw, &idv)
		if prog != nil {
			// flush results first so that the out file is consistent with progress
			out.Flush()
			fmt.Fprintf(prog, "%d %s\n", n, idv.ID)
		}
		type resT struct {
			m map[string]interface{}
		}
		ch := make(chan resT, 1)
		go func() {
			var res map[string]interface{}
			defer func() {
				if r := recover(); r != nil {
					res = map[string]interface{}{"harness_panic": fmt.Sprint(r), "stack": string(debug.Stack())}
				}
				ch <- resT{res}
			}()
			res = h(raw)
		}()
		var res map[string]interface{}
		select {
		case r := <-ch:
			res = r.m
		case <-time.After(*flagTimeout):
			res = map[string]interface{}{"timeout": true}
			res["id"] = idv.ID
			b, _ := json.Marshal(res)
			out.Write(b)
			out.WriteByte('\n')
			out.Flush()
			os.Exit(3)
		}
		if res == nil {
			res = map[string]interface{}{}
		}
		res["id"] = idv.ID
		b, err := json.Marshal(res)
		if err != nil {
			b, _ = json.Marshal(map[string]interface{}{"id": idv.ID, "harness_panic": "marshal: " + err.Error()})
		}
		out.Write(b)
		out.WriteByte('\n')
		if *flagPerCase {
			out.Flush()
			outf.Close()
			os.Exit(5)
		}
	}
	if s, ok := summaries[*flagMode]; ok {
		res := s()
		res["id"] = "__summary__"
		b, _ := json.Marshal(res)
		out.Write(b)
		out.WriteByte('\n')
	}
	out.Flush()
	outf.Close()
}

// directModes do not use the case loop (they drive themselves).
var directModes = map[string]func() int{}
