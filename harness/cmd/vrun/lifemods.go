package main

// C09, direct mode lifemods: "module close callbacks have run exactly once" over module HISTORIES.  One registered Go module with a source
// body that can be made to fail; every sequence (length <= 4) of failing / successful imports, repeated imports and a second module, then
// Close.  Monitor: a counter per *py.Module object - no module object is called back twice, the module that is live in the store when Close
// is called is called back exactly once, Done is signalled when Close returns.

import (
	"encoding/json"
	"fmt"
	"os"
	"sync"

	"github.com/go-python/gpython/py"
)

func init() {
	directModes["lifemods"] = lifeModsMain
}

var (
	lifeModsFailNext bool
	lifeModsMu       sync.Mutex
	lifeModsCounts   = map[*py.Module]int{}
	lifeModsBodies   int
)

func lifeModsMain() int {
	mkImpl := func(name string) *py.ModuleImpl {
		return &py.ModuleImpl{
			Info: py.ModuleInfo{Name: name},
			Methods: []*py.Method{
				py.MustNewMethod("shouldfail", func(self py.Object) (py.Object, error) {
					lifeModsMu.Lock()
					defer lifeModsMu.Unlock()
					lifeModsBodies++
					return py.NewBool(lifeModsFailNext), nil
				}, 0, "tells the body whether to fail this time"),
			},
			CodeSrc: "if shouldfail():\n    raise ValueError('body fails this time')\nV = 1\n",
			OnContextClosed: func(m *py.Module) {
				lifeModsMu.Lock()
				lifeModsCounts[m]++
				lifeModsMu.Unlock()
			},
		}
	}
	py.RegisterModule(mkImpl("histmod"))
	py.RegisterModule(mkImpl("histmod2"))
	imp := map[string]*py.Code{}
	for _, n := range []string{"histmod", "histmod2"} {
		c, err := py.Compile("import "+n+"\n", "<hist>", py.ExecMode, 0, true)
		if err != nil {
			fmt.Println("setup:", err)
			return 1
		}
		imp[n] = c
	}
	ops := []string{"F", "S", "F2", "S2"}
	var seqs [][]string
	var rec func(cur []string, n int)
	rec = func(cur []string, n int) {
		if len(cur) > 0 {
			seqs = append(seqs, append([]string{}, cur...))
		}
		if n == 0 {
			return
		}
		for _, o := range ops {
			rec(append(cur, o), n-1)
		}
	}
	rec(nil, 4)
	type viol struct {
		Seq  []string `json:"seq"`
		What string   `json:"what"`
	}
	var viols []viol
	outcomes := map[string]int{}
	for _, seq := range seqs {
		ctx, _ := newCtx(nil)
		lifeModsMu.Lock()
		lifeModsCounts = map[*py.Module]int{}
		lifeModsMu.Unlock()
		results := ""
		for _, o := range seq {
			name := "histmod"
			if len(o) == 2 {
				name = "histmod2"
			}
			lifeModsMu.Lock()
			lifeModsFailNext = o[0] == 'F'
			lifeModsMu.Unlock()
			g := py.StringDict{}
			_, err := ctx.RunCode(imp[name], g, g, nil)
			if err != nil {
				results += "e"
			} else {
				results += "k"
			}
		}
		live := map[string]*py.Module{}
		for _, n := range []string{"histmod", "histmod2"} {
			if m, err := ctx.GetModule(n); err == nil && m != nil {
				live[n] = m
			}
		}
		func() {
			defer func() {
				if r := recover(); r != nil {
					viols = append(viols, viol{seq, fmt.Sprintf("Close panicked: %v", r)})
				}
			}()
			ctx.Close()
		}()
		select {
		case <-ctx.Done():
		default:
			viols = append(viols, viol{seq, "Done not signalled when Close returned"})
		}
		lifeModsMu.Lock()
		for m, n := range lifeModsCounts {
			if n > 1 {
				viols = append(viols, viol{seq, fmt.Sprintf("close callback of module %s ran %d times for one module object", m.ModuleImpl.Info.Name, n)})
			}
		}
		for n, m := range live {
			if lifeModsCounts[m] != 1 {
				viols = append(viols, viol{seq, fmt.Sprintf("close callback of the live module %s ran %d times", n, lifeModsCounts[m])})
			}
		}
		lifeModsMu.Unlock()
		outcomes[fmt.Sprintf("%d-ops:%s live=%d", len(seq), results, len(live))]++
	}
	out := map[string]interface{}{"sequences": len(seqs), "violations": viols, "outcomes": outcomes, "bodies_run": lifeModsBodies}
	b, _ := json.Marshal(out)
	if *flagOut != "" {
		os.WriteFile(*flagOut, append(b, '\n'), 0644)
	} else {
		fmt.Println(string(b))
	}
	return 0
}
