package main

import (
	"fmt"

	"github.com/go-python/gpython/py"
	"github.com/go-python/gpython/vm"
)

// dynMonitor: dynamic conformance (H2). Before every executed instruction the actual
// (stack depth, block depth) must be among the statically predicted ones for that pc.
type dynMonitor struct {
	rep      *verifyReport
	errors   []string
	nInstr   int
	sites    map[siteKey]bool
	pairs    map[sitePair]bool
	opcodes  map[vm.OpCode]bool
	maxDepth int
	maxBlock int
	lazy     int
}

type siteKey struct {
	c  *py.Code
	pc int32
}
type sitePair struct {
	c  *py.Code
	pc int32
	d  depthPair
}

var curMon *dynMonitor

func startDynMonitor(rep *verifyReport) *dynMonitor {
	m := &dynMonitor{rep: rep, sites: map[siteKey]bool{}, pairs: map[sitePair]bool{}, opcodes: map[vm.OpCode]bool{}}
	curMon = m
	vm.VerifInstr = m.onInstr
	return m
}

func stopDynMonitor() {
	vm.VerifInstr = nil
	curMon = nil
}

func (m *dynMonitor) errf(f string, a ...interface{}) {
	if len(m.errors) < 10 {
		m.errors = append(m.errors, fmt.Sprintf(f, a...))
	}
}

func (m *dynMonitor) onInstr(frame *py.Frame, pc int32, op vm.OpCode, arg int32) {
	m.nInstr++
	c := frame.Code
	cr, ok := m.rep.codes[c]
	if !ok {
		// code object compiled at run time (exec/eval/import): verify lazily
		m.lazy++
		nerr := len(m.rep.Errors)
		sub := verifyCodeTree(c, "")
		_ = nerr
		for k, v := range sub.codes {
			m.rep.codes[k] = v
		}
		for _, e := range sub.Errors {
			// lnotab-vs-source bounds cannot be checked without the source: drop those
			if !containsAny(e, "beyond source", "outside source") {
				m.rep.Errors = append(m.rep.Errors, e)
			}
		}
		cr = m.rep.codes[c]
	}
	d := depthPair{len(frame.Stack), len(frame.Blockstack)}
	if d.stack > m.maxDepth {
		m.maxDepth = d.stack
	}
	if d.block > m.maxBlock {
		m.maxBlock = d.block
	}
	m.opcodes[op] = true
	sk := siteKey{c, pc}
	m.sites[sk] = true
	sp := sitePair{c, pc, d}
	if m.pairs[sp] {
		return
	}
	m.pairs[sp] = true
	if d.stack > int(c.Stacksize) {
		m.errf("code %q pc=%d %v: actual stack depth %d exceeds declared stacksize %d", c.Name, pc, op, d.stack, c.Stacksize)
	}
	if cr == nil || cr.overflow {
		return
	}
	if !cr.instrs[pc] {
		m.errf("code %q pc=%d %v: executing at an offset that is not an instruction boundary", c.Name, pc, op)
		return
	}
	pred := cr.predicted[pc]
	if !pred[d] {
		m.errf("code %q pc=%d %v: actual (stack,block) depth (%d,%d) not among predicted %v", c.Name, pc, op, d.stack, d.block, predList(pred))
	}
}

func predList(p map[depthPair]bool) []string {
	var out []string
	for k := range p {
		out = append(out, fmt.Sprintf("(%d,%d)", k.stack, k.block))
	}
	return out
}

func containsAny(s string, subs ...string) bool {
	for _, x := range subs {
		if len(x) > 0 && len(s) >= len(x) {
			for i := 0; i+len(x) <= len(s); i++ {
				if s[i:i+len(x)] == x {
					return true
				}
			}
		}
	}
	return false
}

func (m *dynMonitor) stats() map[string]interface{} {
	return map[string]interface{}{"instrs": m.nInstr, "sites": len(m.sites), "pairs": len(m.pairs), "nopcodes": len(m.opcodes), "maxdepth": m.maxDepth, "maxblock": m.maxBlock, "lazy": m.lazy, "opcodes": opNames(m.opcodes)}
}
