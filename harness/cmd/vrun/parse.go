package main

// parse mode (C06): text -> ast.Dump(parser.ParseString(text, mode)) or the error type.

import (
	"encoding/hex"
	"encoding/json"
	"fmt"
	"runtime/debug"

	"github.com/go-python/gpython/ast"
	"github.com/go-python/gpython/parser"
)

type parseCase struct {
	ID     string `json:"id"`
	Src    string `json:"src"`
	SrcHex string `json:"src_hex"`
	Mode   string `json:"mode"`
}

func init() {
	modes["parse"] = parseHandler
}

func parseHandler(raw json.RawMessage) map[string]interface{} {
	var c parseCase
	if err := json.Unmarshal(raw, &c); err != nil {
		return map[string]interface{}{"harness_panic": "bad case: " + err.Error()}
	}
	src := c.Src
	if c.SrcHex != "" {
		b, err := hex.DecodeString(c.SrcHex)
		if err != nil {
			return map[string]interface{}{"harness_panic": "bad hex"}
		}
		src = string(b)
	}
	res := map[string]interface{}{}
	func() {
		defer func() {
			if r := recover(); r != nil {
				res["panic"] = fmt.Sprint(r)
				res["stack"] = trimStack(string(debug.Stack()))
			}
		}()
		tree, err := parser.ParseString(src, pyMode(c.Mode))
		if err != nil {
			d := errDetail(err)
			res["err"] = d["type"]
			res["errmsg"] = d["msg"]
			return
		}
		res["dump"] = ast.Dump(tree)
	}()
	return res
}

// evallit mode (C06 literal values): compile the text in eval mode, run it, return the value encoded unambiguously.
func init() {
	modes["evallit"] = evalLitHandler
	setups["evallit"] = func() { apiCtx, _ = newCtx(nil) }
}

func evalLitHandler(raw json.RawMessage) map[string]interface{} {
	var c parseCase
	if err := json.Unmarshal(raw, &c); err != nil {
		return map[string]interface{}{"harness_panic": "bad case: " + err.Error()}
	}
	res := map[string]interface{}{}
	func() {
		defer func() {
			if r := recover(); r != nil {
				res["panic"] = fmt.Sprint(r)
				res["stack"] = trimStack(string(debug.Stack()))
			}
		}()
		tree, err := parser.ParseString(c.Src, pyMode("eval"))
		if err != nil {
			d := errDetail(err)
			res["err"] = d["type"]
			res["errmsg"] = d["msg"]
			return
		}
		_ = tree
		code, err := safeCompile(c.Src, pyMode("eval"))
		if err != nil {
			res["err"] = errType(err)
			return
		}
		v, err := ctxRun(apiCtx, code)
		if err != nil {
			res["err"] = "run:" + errType(err)
			return
		}
		res["val"] = encodeVal(v, 0)
	}()
	return res
}
