package main

// C08: contexts are isolated and safe to run concurrently.
// direct mode cctx (race build): N contexts on N goroutines run generated programs (polluters + observers, a shared
// pre-compiled code object, a Go module with CodeSrc imported by all, optional REPL sessions) with seeded yields
// injected at instruction boundaries (hook H2); every captured output must equal the program's solo output.

import (
	"encoding/json"
	"fmt"
	"os"
	"runtime"
	"runtime/debug"
	"strings"
	"sync"
	"sync/atomic"

	"github.com/go-python/gpython/py"
	"github.com/go-python/gpython/repl"
	"github.com/go-python/gpython/vm"
)

func init() {
	directModes["cctx"] = cctxMain
	py.RegisterModule(ctxModImpl)
}

var ctxModInits int64

var ctxModImpl = &py.ModuleImpl{
	Info: py.ModuleInfo{Name: "ctxmod", Doc: "C08 harness module with a source body"},
	Methods: []*py.Method{
		py.MustNewMethod("ident", func(self py.Object) (py.Object, error) {
			// returns a value stored in this context's instance of the module
			m := self.(*py.Module)
			v, ok := m.Globals["counter"]
			if !ok {
				return py.Int(-1), nil
			}
			return v, nil
		}, 0, "ident() -> this module instance's counter"),
	},
	Globals: py.StringDict{"BASE": py.Int(100), "NAME": py.String("ctxmod")},
	CodeSrc: "counter = 0\ndef bump():\n    global counter\n    counter += 1\n    return counter\nVALUE = BASE + 1\n",
}

type cctxProg struct {
	ID   string `json:"id"`
	Src  string `json:"src"`
	Solo string `json:"solo"` // expected observation (out + exc marker) from a solo run in a fresh process
}

type cctxIn struct {
	Programs   []cctxProg `json:"programs"`
	SharedSrc  string     `json:"shared_src"`
	SharedSolo string     `json:"shared_solo"`
	Rounds     int        `json:"rounds"`
	Goroutines int        `json:"goroutines"`
	Density    int        `json:"density"` // yield at ~1/density of the instructions (0 = never)
	Repl       bool       `json:"repl"`
}

type cctxOut struct {
	Runs         int64    `json:"runs"`
	SharedRuns   int64    `json:"shared_runs"`
	ReplRuns     int64    `json:"repl_sessions"`
	FreshImports int64    `json:"fresh_gomodule_imports"`
	Yields       int64    `json:"yields_injected"`
	Instrs       int64    `json:"instructions_observed"`
	Mismatches   []string `json:"mismatches"`
	MismatchIDs  []string `json:"mismatch_ids"`
	Panics       []string `json:"panics"`
	Rounds       int      `json:"rounds"`
	Goroutines   int      `json:"goroutines"`
}

func observe(src string, code *py.Code) (obs string) {
	res := map[string]interface{}{}
	ctx, cap := newCtx(nil)
	defer ctx.Close()
	func() {
		defer func() {
			if r := recover(); r != nil {
				res["panic"] = fmt.Sprint(r) + " @ " + trimStack(string(debug.Stack()))
			}
		}()
		var err error
		if code == nil {
			code, err = py.Compile(src, "<case>", py.ExecMode, 0, true)
			if err != nil {
				t, _, _ := errInfo(err)
				res["cerr"] = t
				return
			}
		}
		_, err = ctxRun(ctx, code)
		if err != nil {
			t, _, tb := errInfo(err)
			res["exc"] = t
			// the traceback (function, line) list is part of the observation: it is computed from the shared code object
			res["exc"] = fmt.Sprintf("%s tb=%v", t, tb)
		}
	}()
	o := cap.sb.String()
	if e, ok := res["exc"].(string); ok {
		o += "\n!exc=" + e
	}
	if e, ok := res["cerr"].(string); ok {
		o += "\n!cerr=" + e
	}
	if p, ok := res["panic"].(string); ok {
		o += "\n!panic=" + p
	}
	return o
}

type nullUI struct{ sb strings.Builder }

func (u *nullUI) SetPrompt(s string) {}
func (u *nullUI) Print(s string)     { u.sb.WriteString(s); u.sb.WriteString("\n") }

func cctxMain() int {
	data, err := os.ReadFile(*flagIn)
	if err != nil {
		fmt.Fprintln(os.Stderr, err)
		return 64
	}
	var in cctxIn
	if err := json.Unmarshal(data, &in); err != nil {
		fmt.Fprintln(os.Stderr, err)
		return 64
	}
	out := &cctxOut{Rounds: in.Rounds, Goroutines: in.Goroutines}
	var mu sync.Mutex
	mism := func(id, s string) {
		mu.Lock()
		if len(out.Mismatches) < 30 {
			out.Mismatches = append(out.Mismatches, s)
			out.MismatchIDs = append(out.MismatchIDs, id)
		}
		mu.Unlock()
	}
	var shared *py.Code
	if in.SharedSrc != "" {
		shared, err = py.Compile(in.SharedSrc, "<shared>", py.ExecMode, 0, true)
		if err != nil {
			fmt.Fprintln(os.Stderr, "shared source does not compile:", err)
			return 64
		}
	}
	if in.Density > 0 {
		var ctr uint64
		d := uint64(in.Density)
		vm.VerifInstr = func(frame *py.Frame, pc int32, op vm.OpCode, arg int32) {
			n := atomic.AddUint64(&ctr, 1)
			// cheap hash of the global instruction counter: which instructions yield varies with the interleaving itself
			h := (n * 0x9E3779B97F4A7C15) >> 40
			if h%d == 0 {
				atomic.AddInt64(&out.Yields, 1)
				runtime.Gosched()
			}
		}
		defer func() { vm.VerifInstr = nil; out.Instrs = int64(ctr) }()
	}
	N := in.Goroutines
	for r := 0; r < in.Rounds; r++ {
		var wg sync.WaitGroup
		// a Go module with a source body that NO context has imported yet: several contexts import it at the same time
		freshName := fmt.Sprintf("ctxfresh%d", r)
		py.RegisterModule(&py.ModuleImpl{
			Info:    py.ModuleInfo{Name: freshName},
			Globals: py.StringDict{"BASE": py.Int(int64(r))},
			CodeSrc: "VALUE = BASE * 2 + 1\ndef get():\n    return VALUE\n",
		})
		freshSrc := fmt.Sprintf("import %s\nprint(%s.get())\n", freshName, freshName)
		freshWant := fmt.Sprintf("%d\n", r*2+1)
		for g := 0; g < N; g++ {
			wg.Add(1)
			go func(r, g int) {
				defer wg.Done()
				defer func() {
					if rec := recover(); rec != nil {
						mu.Lock()
						out.Panics = append(out.Panics, fmt.Sprint(rec)+" @ "+trimStack(string(debug.Stack())))
						mu.Unlock()
					}
				}()
				k := (r*N + g*7 + int(*flagSeed)) % len(in.Programs)
				p := in.Programs[k]
				switch {
				case g%5 == 2 || g%5 == 0 && r%2 == 1:
					o := observe(freshSrc, nil)
					atomic.AddInt64(&out.FreshImports, 1)
					if o != freshWant {
						mism("freshmod", fmt.Sprintf("fresh Go module with source body: %.200q vs %.200q", o, freshWant))
					}
				case shared != nil && g%5 == 4:
					o := observe("", shared)
					atomic.AddInt64(&out.SharedRuns, 1)
					if o != in.SharedSolo {
						mism("shared", fmt.Sprintf("shared code object: %.300q vs solo %.300q", o, in.SharedSolo))
					}
				case in.Repl && g%5 == 3:
					// an interactive session on its own context, in parallel with everything else
					ctx, cap := newCtx(nil)
					ui := &nullUI{}
					rp := repl.New(ctx)
					rp.SetUI(ui)
					for _, line := range []string{"x = 20 + 1", "x * 2", "def f(a):", "    return a + x", "", "f(1)", "'s' + 't'"} {
						rp.Run(line)
					}
					ctx.Close()
					atomic.AddInt64(&out.ReplRuns, 1)
					got := ui.sb.String() + "|" + cap.sb.String()
					want := "42\n22\n'st'\n|"
					if got != want {
						mism("repl", fmt.Sprintf("REPL session: %.200q vs %.200q", got, want))
					}
				default:
					o := observe(p.Src, nil)
					atomic.AddInt64(&out.Runs, 1)
					if o != p.Solo {
						mism(p.ID, fmt.Sprintf("%s: %.300q vs solo %.300q", p.ID, o, p.Solo))
					}
				}
			}(r, g)
		}
		wg.Wait()
	}
	b, _ := json.Marshal(out)
	os.WriteFile(*flagOut, append(b, '\n'), 0644)
	return 0
}
