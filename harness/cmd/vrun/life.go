package main

// C09: lifecycle monitor. A controlling scheduler installed at the H1 yield points serialises the
// goroutines of a scenario and enumerates interleavings (stateless DFS with optional preemption bound);
// every run is observed by (1) an event-trace checker on a logical clock, (2) a porcupine check of the
// admission sub-history against a latch model, (3) deadlock detection by goroutine-state inspection.
// A free-running stress variant (no serialisation; seeded yields/sleeps at the hooks) shares the monitors.

import (
	"bytes"
	"encoding/json"
	"fmt"
	"math/rand"
	"os"
	"path/filepath"
	"runtime"
	"runtime/debug"
	"sort"
	"strconv"
	"strings"
	"sync"
	"sync/atomic"
	"time"

	"github.com/anishathalye/porcupine"
	"github.com/go-python/gpython/py"
	"github.com/go-python/gpython/stdlib"
)

func init() {
	directModes["life"] = lifeMain
}

// ---------------------------------------------------------------------------------------------
// event log

type lifeEvent struct {
	T    int64  `json:"t"`
	G    int    `json:"g"`
	Kind string `json:"k"` // call, ret, body.start, body.end, callbacks, done.seen, panic, yield
	Op   string `json:"op,omitempty"`
	Res  string `json:"res,omitempty"` // ok | closed | err:<type>
	Seq  int    `json:"seq,omitempty"` // per-goroutine op index
}

type lifeLog struct {
	mu     sync.Mutex
	clock  int64
	events []lifeEvent
}

func (l *lifeLog) add(e lifeEvent) int64 {
	l.mu.Lock()
	l.clock++
	e.T = l.clock
	l.events = append(l.events, e)
	t := l.clock
	l.mu.Unlock()
	return t
}

// ---------------------------------------------------------------------------------------------
// goroutine identity

func curGoid() int64 {
	var buf [64]byte
	n := runtime.Stack(buf[:], false)
	// "goroutine 123 ["
	s := buf[:n]
	s = s[len("goroutine "):]
	i := bytes.IndexByte(s, ' ')
	id, _ := strconv.ParseInt(string(s[:i]), 10, 64)
	return id
}

// ---------------------------------------------------------------------------------------------
// scheduler

type gstate struct {
	idx      int
	goid     int64
	resume   chan struct{}
	at       string // yield point where parked ("" if not parked)
	parked   bool
	done     bool
	blocked  bool
	doneWait int32 // set while the goroutine is in <-ctx.Done()
}

type arrival struct {
	g     *gstate
	point string
	fin   bool
}

type scheduler struct {
	mu      sync.Mutex
	byGoid  map[int64]*gstate
	gs      []*gstate
	arrive  chan arrival
	points  map[string]bool // active yield points (granularity filter); nil = all
	log     *lifeLog
	trace   []string // "g:point" of every released step (the schedule as observed)
	aborted bool
}

func (s *scheduler) lookup() *gstate {
	id := curGoid()
	s.mu.Lock()
	g := s.byGoid[id]
	s.mu.Unlock()
	return g
}

// yield is called from the hooks on a workload goroutine
func (s *scheduler) yield(point string) {
	g := s.lookup()
	if g == nil {
		return
	}
	if s.points != nil && !s.points[point] {
		return
	}
	s.arrive <- arrival{g: g, point: point}
	<-g.resume
}

var waitStates = []string{"sync.Mutex.Lock", "sync.Cond.Wait", "semacquire", "chan receive", "select", "sync.WaitGroup.Wait", "sync.RWMutex", "chan send"}

// goroutineStates parses runtime.Stack(all): goid -> (state, hasLifecycleFrame)
var stackBuf = make([]byte, 1<<18)

func goroutineStates() map[int64][2]string {
	buf := stackBuf
	n := runtime.Stack(buf, true)
	out := map[int64][2]string{}
	for _, blk := range strings.Split(string(buf[:n]), "\n\n") {
		if !strings.HasPrefix(blk, "goroutine ") {
			continue
		}
		hdr := blk
		if i := strings.IndexByte(blk, '\n'); i >= 0 {
			hdr = blk[:i]
		}
		rest := hdr[len("goroutine "):]
		sp := strings.IndexByte(rest, ' ')
		if sp < 0 {
			continue
		}
		id, err := strconv.ParseInt(rest[:sp], 10, 64)
		if err != nil {
			continue
		}
		st := ""
		if a := strings.IndexByte(rest, '['); a >= 0 {
			if b := strings.IndexByte(rest[a:], ']'); b >= 0 {
				st = rest[a+1 : a+b]
			}
		}
		if c := strings.IndexByte(st, ','); c >= 0 {
			st = st[:c]
		}
		lf := ""
		if strings.Contains(blk, "stdlib.(*context)") {
			lf = "y"
		}
		out[id] = [2]string{st, lf}
	}
	return out
}

func isWaitState(st string) bool {
	for _, w := range waitStates {
		if strings.HasPrefix(st, w) {
			return true
		}
	}
	return false
}

// settle waits until every goroutine is parked at a yield point, finished, or confirmed blocked.
// Returns false on watchdog expiry (inconclusive).
func (s *scheduler) settle(watchdog time.Duration) bool {
	deadline := time.Now().Add(watchdog)
	blockedSamples := map[*gstate]int{}
	process := func(a arrival) {
		if a.fin {
			a.g.done = true
			a.g.parked = false
		} else {
			a.g.parked = true
			a.g.at = a.point
		}
		a.g.blocked = false
		delete(blockedSamples, a.g)
	}
	timer := time.NewTimer(time.Hour)
	defer timer.Stop()
	for {
		// drain arrivals
		for drained := false; !drained; {
			select {
			case a := <-s.arrive:
				process(a)
			default:
				drained = true
			}
		}
		var running []*gstate
		for _, g := range s.gs {
			if !g.parked && !g.done {
				running = append(running, g)
			}
		}
		if len(running) == 0 {
			return true
		}
		// give the running goroutines a moment to arrive before paying for a stack sample
		unconfirmed := false
		for _, g := range running {
			if !g.blocked {
				unconfirmed = true
			}
		}
		if unconfirmed {
			if !timer.Stop() {
				select {
				case <-timer.C:
				default:
				}
			}
			timer.Reset(150 * time.Microsecond)
			select {
			case a := <-s.arrive:
				process(a)
				continue
			case <-timer.C:
			}
		}
		states := goroutineStates()
		allBlocked := true
		for _, g := range running {
			st, ok := states[g.goid]
			isB := ok && isWaitState(st[0]) && (st[1] == "y" || atomic.LoadInt32(&g.doneWait) == 1)
			if isB {
				blockedSamples[g]++
			} else {
				blockedSamples[g] = 0
			}
			if blockedSamples[g] >= 3 {
				g.blocked = true
			} else {
				g.blocked = false
				allBlocked = false
			}
		}
		if allBlocked {
			// an arrival may have raced with the sampling
			select {
			case a := <-s.arrive:
				process(a)
				continue
			default:
			}
			return true
		}
		if time.Now().After(deadline) {
			return false
		}
	}
}

// ---------------------------------------------------------------------------------------------
// scenario

type lifeScenario struct {
	Name string     `json:"name"`
	Gs   [][]string `json:"gs"` // per goroutine: list of ops: run | modinit | resolve | close | closedone | donewait
}

type runResult struct {
	Events      []lifeEvent `json:"events"`
	Trace       []string    `json:"trace"`
	Choices     []int       `json:"choices"`
	Branching   []int       `json:"branching"`
	Violations  []string    `json:"violations"`
	Inconcl     string      `json:"inconclusive,omitempty"`
	Deadlock    bool        `json:"deadlock"`
	Preemptions int         `json:"preemptions"`
}

var lifeBodyLog *lifeLog
var lifeSched *scheduler
var lifeCallbacks int64
var lifeScratch string
var lifeCodeBody *py.Code
var lifeFree int32 // free-running mode flag

func lifeBody(self py.Object) (py.Object, error) {
	l := lifeBodyLog
	g := -1
	if s := lifeSched; s != nil {
		if gs := s.lookup(); gs != nil {
			g = gs.idx
		}
	} else {
		g = freeGIndex()
	}
	l.add(lifeEvent{G: g, Kind: "body.start"})
	if s := lifeSched; s != nil {
		s.yield("body")
	} else {
		freeYield("body")
	}
	l.add(lifeEvent{G: g, Kind: "body.end"})
	return py.None, nil
}

const injectedPanic = "verif: injected panic in a native callable"

var lifeModImpl = &py.ModuleImpl{
	Info: py.ModuleInfo{Name: "lifemod", Doc: "C09 harness module"},
	Methods: []*py.Method{
		py.MustNewMethod("body", lifeBody, 0, "logs and yields"),
		py.MustNewMethod("boom", func(self py.Object) (py.Object, error) {
			lifeBody(self)
			panic(injectedPanic)
		}, 0, "logs, yields, then panics (fault injection: a Go callable of the embedder that panics)"),
	},
	OnContextClosed: func(m *py.Module) {
		atomic.AddInt64(&lifeCallbacks, 1)
		g := -1
		if s := lifeSched; s != nil {
			if gs := s.lookup(); gs != nil {
				g = gs.idx
			}
		} else {
			g = freeGIndex()
		}
		lifeBodyLog.add(lifeEvent{G: g, Kind: "callbacks"})
	},
}

func classify(err error) string {
	if err == nil {
		return "ok"
	}
	t, m, _ := errInfo(err)
	if t == "RuntimeError" && strings.Contains(m, "closed") {
		return "closed"
	}
	return "err:" + t
}

type lifeEnv struct {
	ctx     py.Context
	boom    py.Object
	body    py.Object
	log     *lifeLog
	modSeq  int32
	srcFile string
}

func newLifeEnv(log *lifeLog) *lifeEnv {
	ctx := py.NewContext(py.ContextOpts{SysArgs: []string{""}, SysPaths: []string{lifeScratch}})
	m, err := ctx.ModuleInit(lifeModImpl)
	if err != nil {
		panic(err)
	}
	return &lifeEnv{ctx: ctx, body: m.Globals["body"], boom: m.Globals["boom"], log: log, srcFile: "lifesrc.py"}
}

// perform one operation on goroutine g; records call/ret events at the client boundary
func (e *lifeEnv) perform(g int, seq int, op string, dw *int32) {
	e.log.add(lifeEvent{G: g, Kind: "call", Op: op, Seq: seq})
	res := "ok"
	func() {
		defer func() {
			if r := recover(); r != nil {
				if fmt.Sprint(r) == injectedPanic && op == "runpanic" {
					res = "injected-panic"
					return
				}
				res = "panic:" + fmt.Sprint(r)
				e.log.add(lifeEvent{G: g, Kind: "panic", Op: op, Res: fmt.Sprint(r) + " @ " + trimStack(string(debug.Stack())), Seq: seq})
			}
		}()
		switch op {
		case "run":
			globals := py.StringDict{"body": e.body}
			_, err := e.ctx.RunCode(lifeCodeBody, globals, globals, nil)
			res = classify(err)
		case "runpanic":
			globals := py.StringDict{"body": e.boom}
			_, err := e.ctx.RunCode(lifeCodeBody, globals, globals, nil)
			res = classify(err)
		case "modinit":
			n := atomic.AddInt32(&e.modSeq, 1)
			impl := &py.ModuleImpl{
				Info:    py.ModuleInfo{Name: fmt.Sprintf("lifeaux%d_%d", g, n)},
				Globals: py.StringDict{"body": e.body},
				Code:    lifeCodeBody,
			}
			_, err := e.ctx.ModuleInit(impl)
			res = classify(err)
		case "resolve":
			_, err := e.ctx.ResolveAndCompile(e.srcFile, py.CompileOpts{CurDir: lifeScratch})
			res = classify(err)
		case "close":
			err := e.ctx.Close()
			res = classify(err)
		case "closedone":
			err := e.ctx.Close()
			res = classify(err)
			select {
			case <-e.ctx.Done():
				e.log.add(lifeEvent{G: g, Kind: "done.seen", Op: op, Seq: seq})
			default:
				res = "done-not-signalled-after-close"
			}
		case "donewait":
			if dw != nil {
				atomic.StoreInt32(dw, 1)
			}
			<-e.ctx.Done()
			if dw != nil {
				atomic.StoreInt32(dw, 0)
			}
			e.log.add(lifeEvent{G: g, Kind: "done.seen", Op: op, Seq: seq})
		}
	}()
	e.log.add(lifeEvent{G: g, Kind: "ret", Op: op, Res: res, Seq: seq})
}

// ---------------------------------------------------------------------------------------------
// trace specification

func isExecOp(op string) bool {
	return op == "run" || op == "modinit" || op == "resolve" || op == "runpanic"
}
func isCloseOp(op string) bool {
	return op == "close" || op == "closedone"
}

func checkTrace(ev []lifeEvent, doneAtEnd bool, anyCloseReturned bool) []string {
	var v []string
	add := func(f string, a ...interface{}) { v = append(v, fmt.Sprintf(f, a...)) }
	var tCallbacksFirst int64
	nCallbacks := 0
	var tFirstCloseCall, tFirstCloseRet int64
	for _, e := range ev {
		switch {
		case e.Kind == "callbacks":
			nCallbacks++
			if tCallbacksFirst == 0 {
				tCallbacksFirst = e.T
			}
		case e.Kind == "call" && isCloseOp(e.Op):
			if tFirstCloseCall == 0 {
				tFirstCloseCall = e.T
			}
		case e.Kind == "ret" && isCloseOp(e.Op):
			if tFirstCloseRet == 0 {
				tFirstCloseRet = e.T
			}
		case e.Kind == "panic":
			add("panic in %s on g%d: %s", e.Op, e.G, e.Res)
		}
	}
	if nCallbacks > 1 {
		add("close callbacks ran %d times", nCallbacks)
	}
	if anyCloseReturned && nCallbacks == 0 {
		add("a Close returned but the close callbacks never ran")
	}
	// per-op intervals
	type opk struct{ g, seq int }
	callT := map[opk]int64{}
	retT := map[opk]int64{}
	resOf := map[opk]string{}
	opOf := map[opk]string{}
	for _, e := range ev {
		k := opk{e.G, e.Seq}
		if e.Kind == "call" {
			callT[k] = e.T
			opOf[k] = e.Op
		} else if e.Kind == "ret" {
			retT[k] = e.T
			resOf[k] = e.Res
		}
	}
	// body events belong to the op of their goroutine that is open at that time
	for _, e := range ev {
		if e.Kind == "body.start" || e.Kind == "body.end" {
			if tCallbacksFirst != 0 && e.T > tCallbacksFirst {
				add("%s on g%d at t=%d after the close callbacks ran (t=%d): an execution was admitted/ran after close", e.Kind, e.G, e.T, tCallbacksFirst)
			}
		}
	}
	for k, op := range opOf {
		res := resOf[k]
		if isExecOp(op) {
			if tFirstCloseCall == 0 || callT[k] < tFirstCloseCall {
				// could still be rejected legitimately only if some Close call precedes its return
				if res == "closed" && (tFirstCloseCall == 0 || retT[k] < tFirstCloseCall) {
					add("%s on g%d rejected as closed although no Close had been called", op, k.g)
				}
			}
			if tFirstCloseRet != 0 && callT[k] > tFirstCloseRet && res == "ok" {
				add("%s on g%d was issued after a Close had returned (t=%d > %d) and succeeded", op, k.g, callT[k], tFirstCloseRet)
			}
			if strings.HasPrefix(res, "err:") {
				add("%s on g%d failed with an unexpected error %s", op, k.g, res)
			}
		}
		if isCloseOp(op) {
			if res != "ok" {
				add("%s on g%d returned %s", op, k.g, res)
			}
			if retT[k] != 0 && (tCallbacksFirst == 0 || retT[k] < tCallbacksFirst) {
				add("%s on g%d returned at t=%d before the close callbacks ran", op, k.g, retT[k])
			}
		}
	}
	for _, e := range ev {
		if e.Kind == "done.seen" {
			if tCallbacksFirst == 0 || e.T < tCallbacksFirst {
				add("Done observed signalled at t=%d before the close callbacks ran", e.T)
			}
			// and after every admitted execution finished: any body.end after done.seen
			for _, e2 := range ev {
				if e2.Kind == "body.end" && e2.T > e.T {
					add("Done observed at t=%d before an execution body finished (t=%d)", e.T, e2.T)
				}
			}
		}
	}
	if anyCloseReturned && !doneAtEnd {
		add("Done not signalled at the end although a Close returned")
	}
	sort.Strings(v)
	return dedup(v)
}

func dedup(v []string) []string {
	var out []string
	for i, s := range v {
		if i == 0 || s != v[i-1] {
			out = append(out, s)
		}
	}
	return out
}

// porcupine latch model on the admission sub-history
type latchIn struct {
	Close bool
}

var latchModel = porcupine.Model{
	Init: func() interface{} { return false },
	Step: func(state, input, output interface{}) (bool, interface{}) {
		closed := state.(bool)
		in := input.(latchIn)
		if in.Close {
			return true, true
		}
		res := output.(string)
		if res == "ok" {
			return !closed, closed
		}
		return closed, closed
	},
	Equal: func(a, b interface{}) bool { return a.(bool) == b.(bool) },
}

func checkLatch(ev []lifeEvent) (string, int) {
	type opk struct{ g, seq int }
	var ops []porcupine.Operation
	open := map[opk]*porcupine.Operation{}
	var maxT int64
	for _, e := range ev {
		if e.T > maxT {
			maxT = e.T
		}
	}
	idx := map[opk]int{}
	for _, e := range ev {
		k := opk{e.G, e.Seq}
		if e.Kind == "call" && (isExecOp(e.Op) || isCloseOp(e.Op)) {
			ops = append(ops, porcupine.Operation{ClientId: e.G, Input: latchIn{Close: isCloseOp(e.Op)}, Call: e.T, Output: "open", Return: maxT + 1})
			idx[k] = len(ops) - 1
			open[k] = &ops[len(ops)-1]
		} else if e.Kind == "ret" {
			if i, ok := idx[k]; ok {
				res := e.Res
				if res == "injected-panic" {
					res = "ok" // it was admitted: the body ran
				}
				if res != "ok" && res != "closed" {
					// panicked / unexpected: keep it open to the end (may have taken effect)
					continue
				}
				ops[i].Output = res
				ops[i].Return = e.T
			}
		}
	}
	// operations left open: a Run that never returned could have been admitted or not; drop exec ops that never returned,
	// keep Close ops (a Close that is in progress may already have closed)
	var fin []porcupine.Operation
	for _, o := range ops {
		if o.Output == "open" {
			if o.Input.(latchIn).Close {
				fin = append(fin, o)
			}
			continue
		}
		fin = append(fin, o)
	}
	if len(fin) == 0 {
		return "ok", 0
	}
	// porcupine requires distinct client ids per concurrent op: ClientId = goroutine index is fine (ops of one goroutine are sequential)
	r := porcupine.CheckOperationsTimeout(latchModel, fin, 5*time.Second)
	switch r {
	case porcupine.Ok:
		return "ok", len(fin)
	case porcupine.Illegal:
		return "illegal", len(fin)
	}
	return "unknown", len(fin)
}

// ---------------------------------------------------------------------------------------------
// controlled execution of one schedule

var coarsePoints = map[string]bool{"start": true, "push.enter": true, "push.leave": true, "body": true, "pop.enter": true, "pop.leave": true,
	"close.enter": true, "close.once": true, "close.closed": true, "close.callbacks": true, "close.done": true, "close.return": true, "op": true}

func runSchedule(sc lifeScenario, prefix []int, fine bool, maxPreempt int) *runResult {
	log := &lifeLog{}
	lifeBodyLog = log
	atomic.StoreInt64(&lifeCallbacks, 0)
	env := newLifeEnv(log)
	s := &scheduler{byGoid: map[int64]*gstate{}, arrive: make(chan arrival, 64), log: log}
	if !fine {
		s.points = coarsePoints
	}
	res := &runResult{}
	lifeSched = s
	stdlib.VerifYield = s.yield
	defer func() {
		stdlib.VerifYield = nil
		lifeSched = nil
	}()
	started := make(chan struct{})
	for i, ops := range sc.Gs {
		g := &gstate{idx: i, resume: make(chan struct{})}
		s.gs = append(s.gs, g)
		go func(g *gstate, ops []string) {
			g.goid = curGoid()
			s.mu.Lock()
			s.byGoid[g.goid] = g
			s.mu.Unlock()
			started <- struct{}{}
			s.yield("start")
			for seq, op := range ops {
				if seq > 0 {
					s.yield("op")
				}
				env.perform(g.idx, seq, op, &g.doneWait)
			}
			s.arrive <- arrival{g: g, fin: true}
		}(g, ops)
	}
	for range sc.Gs {
		<-started
	}
	last := -1
	step := 0
	for {
		if !s.settle(5 * time.Second) {
			res.Inconcl = "scheduler watchdog: a goroutine neither reached a yield point nor was confirmed blocked"
			break
		}
		var enabled []*gstate
		allDone := true
		for _, g := range s.gs {
			if g.parked {
				enabled = append(enabled, g)
			}
			if !g.done {
				allDone = false
			}
		}
		if allDone {
			break
		}
		if len(enabled) == 0 {
			res.Deadlock = true
			var who []string
			for _, g := range s.gs {
				if !g.done {
					who = append(who, fmt.Sprintf("g%d blocked", g.idx))
				}
			}
			res.Violations = append(res.Violations, "deadlock: no goroutine can make progress ("+strings.Join(who, ", ")+")")
			break
		}
		// order choices: continuing the last goroutine first (costs no preemption)
		sort.Slice(enabled, func(a, b int) bool {
			ca, cb := enabled[a].idx == last, enabled[b].idx == last
			if ca != cb {
				return ca
			}
			return enabled[a].idx < enabled[b].idx
		})
		lastEnabled := len(enabled) > 0 && enabled[0].idx == last
		nchoices := len(enabled)
		if maxPreempt >= 0 && lastEnabled && res.Preemptions >= maxPreempt {
			nchoices = 1 // budget exhausted: must continue the same goroutine
		}
		choice := 0
		if step < len(prefix) {
			choice = prefix[step]
			if choice >= nchoices {
				res.Inconcl = fmt.Sprintf("replay divergence at step %d: choice %d of %d", step, choice, nchoices)
				break
			}
		}
		g := enabled[choice]
		if lastEnabled && g.idx != last {
			res.Preemptions++
		}
		res.Choices = append(res.Choices, choice)
		res.Branching = append(res.Branching, nchoices)
		res.Trace = append(res.Trace, fmt.Sprintf("g%d@%s", g.idx, g.at))
		last = g.idx
		g.parked = false
		g.resume <- struct{}{}
		step++
		if step > 4000 {
			res.Inconcl = "step limit"
			break
		}
	}
	// final observations
	doneAtEnd := false
	select {
	case <-env.ctx.Done():
		doneAtEnd = true
	default:
	}
	log.mu.Lock()
	res.Events = append([]lifeEvent(nil), log.events...)
	log.mu.Unlock()
	anyCloseRet := false
	for _, e := range res.Events {
		if e.Kind == "ret" && isCloseOp(e.Op) {
			anyCloseRet = true
		}
	}
	if res.Inconcl == "" {
		res.Violations = append(res.Violations, checkTrace(res.Events, doneAtEnd, anyCloseRet)...)
		if r, _ := checkLatch(res.Events); r == "illegal" {
			res.Violations = append(res.Violations, "admission history is not linearizable against the latch model (spurious rejection or late admission)")
		} else if r == "unknown" {
			res.Inconcl = "porcupine timeout"
		}
	}
	if !res.Deadlock && res.Inconcl == "" && !doneAtEnd {
		// make sure the context does not linger
		env.ctx.Close()
	}
	return res
}

// ---------------------------------------------------------------------------------------------
// free-running stress

var freeRng struct {
	mu sync.Mutex
	r  *rand.Rand
}
var freeGids sync.Map // goid -> idx

func freeGIndex() int {
	if v, ok := freeGids.Load(curGoid()); ok {
		return v.(int)
	}
	return -1
}

func freeYield(point string) {
	if atomic.LoadInt32(&lifeFree) == 0 {
		return
	}
	freeRng.mu.Lock()
	k := freeRng.r.Intn(10)
	us := freeRng.r.Intn(150)
	freeRng.mu.Unlock()
	switch {
	case k < 4:
		runtime.Gosched()
	case k < 6:
		time.Sleep(time.Duration(us) * time.Microsecond)
	}
}

func runFree(sc lifeScenario) *runResult {
	log := &lifeLog{}
	lifeBodyLog = log
	lifeSched = nil
	atomic.StoreInt64(&lifeCallbacks, 0)
	env := newLifeEnv(log)
	res := &runResult{}
	atomic.StoreInt32(&lifeFree, 1)
	stdlib.VerifYield = freeYield
	var wg sync.WaitGroup
	start := make(chan struct{})
	for i, ops := range sc.Gs {
		wg.Add(1)
		go func(i int, ops []string) {
			defer wg.Done()
			id := curGoid()
			freeGids.Store(id, i)
			defer freeGids.Delete(id)
			<-start
			for seq, op := range ops {
				env.perform(i, seq, op, nil)
			}
		}(i, ops)
	}
	close(start)
	fin := make(chan struct{})
	go func() { wg.Wait(); close(fin) }()
	select {
	case <-fin:
	case <-time.After(20 * time.Second):
		// decide deadlock by goroutine-state inspection: all workload goroutines parked in sync waits
		res.Deadlock = true
		res.Violations = append(res.Violations, "free-running: workload goroutines did not finish within the watchdog (all parked) - deadlock")
	}
	atomic.StoreInt32(&lifeFree, 0)
	stdlib.VerifYield = nil
	doneAtEnd := false
	select {
	case <-env.ctx.Done():
		doneAtEnd = true
	default:
	}
	log.mu.Lock()
	res.Events = append([]lifeEvent(nil), log.events...)
	log.mu.Unlock()
	anyCloseRet := false
	for _, e := range res.Events {
		if e.Kind == "ret" && isCloseOp(e.Op) {
			anyCloseRet = true
		}
	}
	if !res.Deadlock {
		res.Violations = append(res.Violations, checkTrace(res.Events, doneAtEnd, anyCloseRet)...)
		if r, _ := checkLatch(res.Events); r == "illegal" {
			res.Violations = append(res.Violations, "admission history is not linearizable against the latch model (spurious rejection or late admission)")
		} else if r == "unknown" {
			res.Inconcl = "porcupine timeout"
		}
	}
	return res
}

// ---------------------------------------------------------------------------------------------
// driver

type lifeJob struct {
	Scenario   lifeScenario `json:"scenario"`
	Fine       bool         `json:"fine"`
	MaxPreempt int          `json:"max_preempt"` // -1 = unbounded
	Limit      int          `json:"limit"`       // max schedules (0 = unlimited)
	Part       int          `json:"part"`        // seed offset for random schedules
	Prefix     []int        `json:"prefix"`      // explore only schedules extending this choice prefix
	ProbeDepth int          `json:"probe_depth"` // >0: only enumerate the distinct choice prefixes of this depth
	Replay     []int        `json:"replay"` // run exactly this schedule
	Free       int          `json:"free"`   // number of free-running rounds instead of DFS
	Random     int          `json:"random"` // number of seeded random schedules instead of DFS
}

type lifeOut struct {
	Scenario     string         `json:"scenario"`
	Schedules    int            `json:"schedules"`
	Steps        int            `json:"steps"`
	Exhaustive   bool           `json:"exhaustive"`
	DistinctTr   int            `json:"distinct_traces"`
	Inconclusive int            `json:"inconclusive"`
	InconclWhy   []string       `json:"inconclusive_why,omitempty"`
	Violations   []lifeWitness  `json:"violations"`
	Deadlocks    int            `json:"deadlocks"`
	Outcomes     map[string]int `json:"outcomes"` // multiset of result vectors seen
	PorcupineOps int            `json:"porcupine_ops"`
	SampleTrace  []string       `json:"sample_trace"`
	SampleEvents []lifeEvent    `json:"sample_events"`
	MaxPreempt   int            `json:"max_preempt_seen"`
	Prefixes     [][]int        `json:"prefixes,omitempty"`
}

type lifeWitness struct {
	What     []string    `json:"what"`
	Schedule []int       `json:"schedule"`
	Trace    []string    `json:"trace"`
	Events   []lifeEvent `json:"events"`
	Fine     bool        `json:"fine"`
	Scenario lifeScenario `json:"scenario"`
	Mode     string      `json:"mode"`
}

func outcomeKey(ev []lifeEvent) string {
	var parts []string
	for _, e := range ev {
		if e.Kind == "ret" {
			r := e.Res
			if strings.HasPrefix(r, "panic:") {
				r = "panic"
			}
			parts = append(parts, fmt.Sprintf("g%d.%d:%s=%s", e.G, e.Seq, e.Op, r))
		}
	}
	sort.Strings(parts)
	return strings.Join(parts, " ")
}

func lifeMain() int {
	var jobs []lifeJob
	data, err := os.ReadFile(*flagIn)
	if err != nil {
		fmt.Fprintln(os.Stderr, err)
		return 64
	}
	for _, line := range strings.Split(string(data), "\n") {
		line = strings.TrimSpace(line)
		if line == "" {
			continue
		}
		var j lifeJob
		if err := json.Unmarshal([]byte(line), &j); err != nil {
			fmt.Fprintln(os.Stderr, "bad job:", err)
			return 64
		}
		jobs = append(jobs, j)
	}
	lifeScratch, err = os.MkdirTemp(".", "vrun-life-")
	if err == nil {
		lifeScratch, err = filepath.Abs(lifeScratch)
	}
	if err != nil {
		return 64
	}
	defer os.RemoveAll(lifeScratch)
	os.WriteFile(filepath.Join(lifeScratch, "lifesrc.py"), []byte("x = 1\n"), 0644)
	py.RegisterModule(lifeModImpl)
	lifeCodeBody, err = py.Compile("body()\n", "<life>", py.ExecMode, 0, true)
	if err != nil {
		fmt.Fprintln(os.Stderr, err)
		return 64
	}
	freeRng.r = rand.New(rand.NewSource(*flagSeed))
	outf, err := os.OpenFile(*flagOut, os.O_WRONLY|os.O_CREATE|os.O_APPEND, 0644)
	if err != nil {
		return 64
	}
	defer outf.Close()
	for _, j := range jobs {
		out := runLifeJob(j)
		b, _ := json.Marshal(out)
		outf.Write(append(b, '\n'))
	}
	return 0
}

func runLifeJob(j lifeJob) *lifeOut {
	out := &lifeOut{Scenario: j.Scenario.Name, Outcomes: map[string]int{}}
	traces := map[string]bool{}
	record := func(r *runResult, sched []int, mode string) {
		out.Schedules++
		out.Steps += len(r.Trace)
		traces[strings.Join(r.Trace, ">")] = true
		out.Outcomes[outcomeKey(r.Events)]++
		if r.Preemptions > out.MaxPreempt {
			out.MaxPreempt = r.Preemptions
		}
		if r.Inconcl != "" {
			out.Inconclusive++
			if len(out.InconclWhy) < 3 {
				out.InconclWhy = append(out.InconclWhy, r.Inconcl)
			}
			return
		}
		if r.Deadlock {
			out.Deadlocks++
		}
		if len(r.Violations) > 0 && len(out.Violations) < 12 {
			out.Violations = append(out.Violations, lifeWitness{What: r.Violations, Schedule: sched, Trace: r.Trace, Events: r.Events, Fine: j.Fine, Scenario: j.Scenario, Mode: mode})
		} else if len(r.Violations) > 0 {
			out.Violations = append(out.Violations, lifeWitness{What: r.Violations[:1], Schedule: sched, Fine: j.Fine, Scenario: j.Scenario, Mode: mode})
		}
		if out.SampleTrace == nil && len(r.Trace) > 4 {
			out.SampleTrace = r.Trace
			out.SampleEvents = r.Events
		}
		_, n := checkLatch(r.Events)
		out.PorcupineOps += n
	}
	if j.Free > 0 {
		for i := 0; i < j.Free; i++ {
			r := runFree(j.Scenario)
			record(r, nil, "free")
		}
		out.DistinctTr = len(out.Outcomes)
		return out
	}
	if j.Replay != nil {
		r := runSchedule(j.Scenario, j.Replay, j.Fine, -1)
		record(r, j.Replay, "replay")
		out.DistinctTr = len(traces)
		return out
	}
	if j.Random > 0 {
		rr := rand.New(rand.NewSource(*flagSeed*1000003 + int64(j.Part)))
		for i := 0; i < j.Random; i++ {
			// random schedule: choose uniformly at each step by supplying a long random prefix modulo branching
			r := runRandom(j.Scenario, j.Fine, rr)
			record(r, r.Choices, "random")
		}
		out.DistinctTr = len(traces)
		return out
	}
	// stateless DFS (optionally below a fixed prefix, optionally only probing prefixes)
	prefix := append([]int(nil), j.Prefix...)
	base := len(j.Prefix)
	out.Exhaustive = true
	for {
		r := runSchedule(j.Scenario, prefix, j.Fine, j.MaxPreempt)
		ch := r.Choices
		br := r.Branching
		if j.ProbeDepth > 0 {
			d := j.ProbeDepth
			if d > len(ch) {
				d = len(ch)
			}
			out.Prefixes = append(out.Prefixes, append([]int(nil), ch[:d]...))
			out.Schedules++
			k := d - 1
			for k >= 0 && ch[k]+1 >= br[k] {
				k--
			}
			if k < 0 {
				break
			}
			prefix = append(append([]int(nil), ch[:k]...), ch[k]+1)
			continue
		}
		record(r, append([]int(nil), r.Choices...), "dfs")
		if r.Inconcl != "" {
			// cannot continue the enumeration reliably below an inconclusive run
			out.Exhaustive = false
			if len(ch) <= base {
				break
			}
		}
		k := len(ch) - 1
		for k >= base && ch[k]+1 >= br[k] {
			k--
		}
		if k < base {
			break
		}
		prefix = append(append([]int(nil), ch[:k]...), ch[k]+1)
		if j.Limit > 0 && out.Schedules >= j.Limit {
			out.Exhaustive = false
			break
		}
	}
	out.DistinctTr = len(traces)
	return out
}

func runRandom(sc lifeScenario, fine bool, rr *rand.Rand) *runResult {
	// run with an empty prefix but randomised choice: implemented by a prefix generated lazily - simplest is to
	// try random prefixes step by step: run once with choice 0 to learn branching is wasteful, so instead
	// generate a long random vector and reduce modulo branching inside runSchedule via negative encoding.
	vec := make([]int, 400)
	for i := range vec {
		vec[i] = -1 - rr.Intn(1<<20)
	}
	return runScheduleRandom(sc, vec, fine)
}

// runScheduleRandom: like runSchedule but negative prefix entries mean "(-entry-1) mod branching"
func runScheduleRandom(sc lifeScenario, vec []int, fine bool) *runResult {
	randomVec = vec
	defer func() { randomVec = nil }()
	return runScheduleR(sc, fine)
}

var randomVec []int

func runScheduleR(sc lifeScenario, fine bool) *runResult {
	// duplicate of runSchedule's loop with random choice; kept separate to keep the DFS path simple
	log := &lifeLog{}
	lifeBodyLog = log
	atomic.StoreInt64(&lifeCallbacks, 0)
	env := newLifeEnv(log)
	s := &scheduler{byGoid: map[int64]*gstate{}, arrive: make(chan arrival, 64), log: log}
	if !fine {
		s.points = coarsePoints
	}
	res := &runResult{}
	lifeSched = s
	stdlib.VerifYield = s.yield
	defer func() {
		stdlib.VerifYield = nil
		lifeSched = nil
	}()
	started := make(chan struct{})
	for i, ops := range sc.Gs {
		g := &gstate{idx: i, resume: make(chan struct{})}
		s.gs = append(s.gs, g)
		go func(g *gstate, ops []string) {
			g.goid = curGoid()
			s.mu.Lock()
			s.byGoid[g.goid] = g
			s.mu.Unlock()
			started <- struct{}{}
			s.yield("start")
			for seq, op := range ops {
				if seq > 0 {
					s.yield("op")
				}
				env.perform(g.idx, seq, op, &g.doneWait)
			}
			s.arrive <- arrival{g: g, fin: true}
		}(g, ops)
	}
	for range sc.Gs {
		<-started
	}
	step := 0
	for {
		if !s.settle(5 * time.Second) {
			res.Inconcl = "scheduler watchdog"
			break
		}
		var enabled []*gstate
		allDone := true
		for _, g := range s.gs {
			if g.parked {
				enabled = append(enabled, g)
			}
			if !g.done {
				allDone = false
			}
		}
		if allDone {
			break
		}
		if len(enabled) == 0 {
			res.Deadlock = true
			res.Violations = append(res.Violations, "deadlock: no goroutine can make progress")
			break
		}
		choice := 0
		if step < len(randomVec) {
			choice = (-randomVec[step] - 1) % len(enabled)
		}
		g := enabled[choice]
		res.Choices = append(res.Choices, choice)
		res.Branching = append(res.Branching, len(enabled))
		res.Trace = append(res.Trace, fmt.Sprintf("g%d@%s", g.idx, g.at))
		g.parked = false
		g.resume <- struct{}{}
		step++
		if step > 4000 {
			res.Inconcl = "step limit"
			break
		}
	}
	doneAtEnd := false
	select {
	case <-env.ctx.Done():
		doneAtEnd = true
	default:
	}
	log.mu.Lock()
	res.Events = append([]lifeEvent(nil), log.events...)
	log.mu.Unlock()
	anyCloseRet := false
	for _, e := range res.Events {
		if e.Kind == "ret" && isCloseOp(e.Op) {
			anyCloseRet = true
		}
	}
	if res.Inconcl == "" {
		res.Violations = append(res.Violations, checkTrace(res.Events, doneAtEnd, anyCloseRet)...)
		if r, _ := checkLatch(res.Events); r == "illegal" {
			res.Violations = append(res.Violations, "admission history is not linearizable against the latch model (spurious rejection or late admission)")
		}
	}
	if !res.Deadlock && res.Inconcl == "" && !doneAtEnd {
		env.ctx.Close()
	}
	return res
}
