"""C10 - no Python-level action can panic or abort the embedding process.
Monitor: recover() around every call in worker processes + worker exit status (abort attribution through the progress log).
A case is never judged by what it returns - only by whether it panics / aborts the process."""
import os
import json, os, re, subprocess, itertools, resource
import common, progen
from common import rng

PID = 'C10'
FINISH_KW = {'max_inconclusive_frac': 0.01}

KEEP_EXC = {'Exception', 'BaseException', 'KeyError', 'OSError', 'StopIteration', 'SyntaxError', 'UnicodeDecodeError', 'SystemExit', 'ImportError', 'AttributeError'}
KWFORMS = {
    'print': [['sep'], ['end'], ['file'], ['flush'], ['sep', 'end']],
    'sorted': [['key'], ['reverse'], ['key', 'reverse']],
    'max': [['key'], ['default'], ['key', 'default']], 'min': [['key'], ['default'], ['key', 'default']],
    'int': [['base']], 'enumerate': [['start']], 'dict': [['a'], ['x', 'y']], 'sum': [['start']], 'round': [['ndigits']], 'compile': [['mode']],
    'str': [['encoding']], 'bytes': [['encoding']], 'open': [['mode']], 'range': [['step']], 'zip': [['strict']], 'complex': [['imag']], 'type': [['dict']],
}


def normmsg(m):
    m = re.sub(r'0x[0-9a-f]+', 'ADDR', m)
    m = re.sub(r'-?\d+', 'N', m)
    return m[:110]


def listing():
    binary = common.build()
    d = common.scratch_dir('c10-list-')
    out = os.path.join(d, 'list.json')
    subprocess.run([binary, '-mode', 'listcall', '-out', out], check=True, env=common.go_env(), cwd=d, stdout=subprocess.DEVNULL, stderr=subprocess.DEVNULL)
    L = json.load(open(out))
    import shutil
    shutil.rmtree(d, ignore_errors=True)
    return L


def build_cases(tier, L, r):
    U = [u for u in L['universe'] if u != 'selflist']   # the self-containing list gets its own small case set (below)
    HUGE = set(L['huge'])
    small = [u for u in U if u not in HUGE]
    pool3 = ['None', '0', '-1', "'abc'", '[1,2,3]', '(1,2)', "{'a':1}", 'fn', '1.5', "b'ab\\xff'", 'slice(None)', 'instance', 'type int', 'generator']
    pool3h = pool3 + ['2**63-1', '-2**63', '2**64', 'range(2**62)']
    C = []

    def add(kind, name, **kw):
        c = {'id': 'c%d' % len(C), 'kind': kind, 'name': name}
        c.update(kw)
        C.append(c)

    def product_cases(kind, name, base):
        """arity 0..3 products for one callable"""
        add(kind, name, tuples=[[]], **base)
        add(kind, name, arity=1, pool=U, **base)
        # arity 2: partition by the first argument so that batches stay small; huge values only in thorough
        p2 = U if tier == 'thorough' else small
        for f in p2:
            add(kind, name, arity=2, pool=p2, first=f, **base)
        if tier == 'quick':
            # a sample of pairs involving huge values
            pairs = [[a, b] for a in U for b in U if (a in HUGE) != (b in HUGE)]
            r.shuffle(pairs)
            add(kind, name, tuples=pairs[:60], **base)
        p3 = pool3h if tier == 'thorough' else pool3
        for f in p3:
            add(kind, name, arity=3, pool=p3, first=f, **base)

    for b in L['builtins']:
        if b[0].isupper() and b not in KEEP_EXC:
            continue
        product_cases('builtin', b, {})
        for kws in KWFORMS.get(b, []):
            n = len(kws)
            add('builtin', b, arity=n, pool=U if n == 1 else pool3, kw=kws)
            add('builtin', b, arity=n + 1, pool=small if n == 1 else pool3, kw=kws)
    for t, names in L['types'].items():
        recvs = L['receivers'][t]
        for nme in names:
            if nme.startswith('__') and nme in ('__dict__', '__doc__', '__module__', '__qualname__', '__name__'):
                continue
            for rc in recvs:
                base = {'type': t, 'recv': rc}
                add('method', nme, tuples=[[]], **base)
                add('method', nme, arity=1, pool=U, **base)
                add('method', nme, arity=2, pool=small if tier == 'quick' else U, **base)
                add('method', nme, arity=3, pool=pool3[:8] if tier == 'quick' else pool3, **base)
                add('unbound', nme, tuples=[[]], **base)
                add('unbound', nme, arity=1, pool=U, **base)
                add('unbound', nme, arity=2, pool=small[::2] if tier == 'quick' else U, **base)
    for op in L['ops2']:
        nargs = 1 if op in ('neg', 'pos', 'abs', 'invert', 'bool', 'not', 'str', 'repr', 'len', 'iterlist', 'makefloat', 'makeint', 'iternext') else 2
        if nargs == 1:
            add('op', op, arity=1, pool=U)
        else:
            p2 = U if tier == 'thorough' else small
            for f in p2:
                add('op', op, arity=2, pool=p2, first=f)
            if tier == 'quick':
                pairs = [[a, b] for a in U for b in U if (a in HUGE) != (b in HUGE)]
                r.shuffle(pairs)
                add('op', op, tuples=pairs[:80])
    for op in L['ops3']:
        p3 = pool3h if tier == 'thorough' else pool3
        for f in p3:
            add('op', op, arity=3, pool=p3, first=f)
    # self-containing container: repr/str/print/comparison/hash must not recurse forever (one case per call: an abort is attributed exactly)
    for op in ('repr', 'str', 'bool', 'len', 'iterlist'):
        add('op', op, tuples=[['selflist']], feature='recursive')
    for op in ('eq', 'ne', 'lt', 'contains', 'add', 'hashkey', 'getitem'):
        add('op', op, tuples=[['selflist', 'selflist']], feature='recursive')
        add('op', op, tuples=[['selflist', '1']], feature='recursive')
    for b in ('print', 'str', 'repr', 'sorted', 'max', 'list', 'tuple', 'len', 'sum', 'any', 'all'):
        add('builtin', b, tuples=[['selflist']], feature='recursive')
    for s in L['snippets']:
        if not s:
            continue
        vars_ = [v for v in 'abc' if re.search(r'\b%s\b' % v, s)]
        n = len(vars_)
        # the snippet binds a, b, c positionally: arity = highest variable used
        n = max(['abc'.index(v) + 1 for v in vars_] or [0])
        if n == 0:
            add('snippet', s, tuples=[[]])
        elif n == 1:
            add('snippet', s, arity=1, pool=U)
        elif n == 2:
            p2 = U if tier == 'thorough' else small
            for f in p2:
                add('snippet', s, arity=2, pool=p2, first=f)
        else:
            p3 = pool3h if tier == 'thorough' else pool3
            for f in p3:
                add('snippet', s, arity=3, pool=p3, first=f)
    return C


# ------------------------------------------------------------------------------------------------
# re-entrant callbacks: a container operation calls back into Python (key function, rich comparison, __hash__, __index__, __iter__/__next__,
# __repr__, a generator feeding the operation) and the callback mutates the very container being operated on.  Whatever the result, the
# Go process must survive.
RE_PRELUDE = """N = [-1000000]
def hook():
    global L, L2, I, D, D2, S, S2
    N[0] += 1
    if %(cond)s:
        %(action)s
class K:
    def __init__(self, v):
        self.v = v
    def __lt__(self, o):
        hook()
        return self.v < o.v
    def __le__(self, o):
        hook()
        return self.v <= o.v
    def __gt__(self, o):
        hook()
        return self.v > o.v
    def __ge__(self, o):
        hook()
        return self.v >= o.v
    def __eq__(self, o):
        hook()
        return isinstance(o, K) and self.v == o.v
    def __ne__(self, o):
        hook()
        return not (isinstance(o, K) and self.v == o.v)
    def __hash__(self):
        hook()
        return self.v
    def __index__(self):
        hook()
        return self.v
    def __len__(self):
        hook()
        return self.v
    def __bool__(self):
        hook()
        return True
    def __repr__(self):
        hook()
        return "K" + str(self.v)
    def __str__(self):
        hook()
        return "k" + str(self.v)
    def __iter__(self):
        hook()
        return iter([K(1), K(2)])
    def __add__(self, o):
        hook()
        return K(self.v + (o.v if isinstance(o, K) else o))
    def __radd__(self, o):
        hook()
        return K(self.v + o)
def f(x):
    hook()
    return x.v if isinstance(x, K) else x
def gen():
    i = 0
    while i < 4:
        hook()
        yield K(i + 10)
        i += 1
def genpairs():
    i = 0
    while i < 4:
        hook()
        yield ("g" + str(i), i)
        i += 1
def genints():
    i = 0
    while i < 4:
        hook()
        yield i + 65
        i += 1
def genstrs():
    i = 0
    while i < 4:
        hook()
        yield "s"
        i += 1
L = [K(3), K(1), K(4), K(1), K(5), K(9), K(2), K(6)]
L2 = [K(3), K(1), K(4), K(1), K(5), K(9), K(2), K(6)]
I = [3, 1, 4, 1, 5, 9, 2, 6]
D = {}
D2 = {}
S = set()
S2 = set()
for i_ in range(8):
    D["k" + str(i_)] = K(i_)
    D2["k" + str(i_)] = K(i_)
    S.add(K(i_))
    S2.add(K(i_ + 4))
N[0] = 0
try:
    %(op)s
    print("done")
except Exception:
    print("exc")
"""
RE_ACTIONS = ['L.clear()', 'del L[:]', 'L.pop()', 'del L[0]', 'del L[-1]', 'del L[1:]', 'del L[-3:]', 'L.append(K(7))', 'L.extend([K(8)] * 40)', 'del L[::2]', 'L[:] = [K(0)]', 'L[2:] = []', 'L.reverse()', 'L.sort()', 'L *= 3', 'L *= 0',
              'I.clear()', 'del I[1:]', 'I.extend([7] * 50)',
              'D.clear()', 'D["z"] = 1', 'D.pop("k1", None)', 'del D["k2"]', 'D.update(D2)', 'for k_ in list(D): del D[k_]', 'for k_ in range(50): D[str(k_)] = k_', 'S -= S', 'S |= S2', 'S ^= S2', 'S.clear()', 'S.add(K(99))', 'S.discard(K(1))', 'S.pop()', 'S.update(S2)', 'S2.clear()', 'D2.clear()', 'L2.clear()']
RE_OPS = ['L.sort(key=f)', 'L.sort()', 'L.sort(key=f, reverse=True)', 'I.sort(key=f)', 'sorted(L, key=f)', 'sorted(L)', 'min(L)', 'max(L)', 'sum(L, K(0))', 'L.index(K(2))', 'L.count(K(2))', 'L.remove(K(2))',
          'K(2) in L', 'K(77) in L', 'L == L2', 'L != L2', 'L < L2', 'L[1:3] = gen()', 'L[::2] = gen()', 'L[::-1] = gen()', 'L.extend(gen())', 'L += gen()', 'L[:] = gen()', 'L[5:] = gen()', 'L * K(2)', 'L[K(1)]',
          'L[K(0):K(2)]', 'L[K(0):K(6):K(2)]', 'del L[K(0):K(3)]', 'del L[K(1)]', 'L[K(1)] = 5', 'L[K(0):K(2)] = [1, 2, 3]', 'L.pop(K(0))', 'list(L)', 'tuple(L)', 'repr(L)', 'str(L)', 'print(L)',
          'for x in L: hook()', '[hook() for x in L]', 'for x in I: hook()', 'any(L)', 'all(L)', 'list(map(f, L))', 'list(filter(f, L))', 'list(zip(L, gen()))', 'dict(zip(L, L))', 'set(L)', 'list(enumerate(L))',
          'list(reversed(L))', 'L.copy()', 'L + L2', 'L.extend(L)', 'L += L', 'L.extend(K(0))', 'a, b, *c = gen()', 'f(*gen())', 'I[1:3] = genints()', 'I.extend(genints())',
          'D[K(1)]', 'K(1) in D', 'D.get(K(1))', 'D.pop(K(1))', 'D["k1"]', '"k1" in D', 'D.get("k1")', 'D.pop("k1")', 'D.update(genpairs())', 'D == D2', 'D != D2', 'for k in D: hook()', 'for k in D: D.pop(k, None)', 'for k, v in D.items(): hook()', 'for v in D.values(): hook()',
          'repr(D)', 'str(D)', 'print(D)', 'D.setdefault("k5", 0)', 'dict(D)', 'list(D.items())', 'list(D.values())', 'D["n"] = 1', 'del D["k2"]', 'sorted(D, key=f)', 'sorted(D.values())', 'max(D.values())', 'K(3) in D.values()', 'dict(D, **D2)', 'f(**D)', '"%(k1)s" % D',
          'dict(genpairs())', 'list(D.keys())', 'sorted(D)', '{k: 1 for k in D}', 'D.update(D2)', 'D.copy()',
          'K(1) in S', 'S.add(K(9))', 'S.remove(K(2))', 'S.discard(K(2))', 'S | S2', 'S & S2', 'S - S2', 'S ^ S2', 'S == S2', 'S <= S2', 'S < S2', 'repr(S)', 'for x in S: hook()', 'S.update(gen())', 'set(gen())', 'frozenset(gen())',
          'S |= S2', 'S &= S2', 'S -= S2', 'S ^= S2', 'sorted(S)', 'S.copy()', '{x for x in S}',
          '"%s %r" % (K(1), K(2))', 'str(K(1))', '"{} {}".format(K(1), K(2))', '"-".join(genstrs())', '"-".join(I)', 'bytes(genints())', 'bytes(L)', 'bytes(I)', 'range(K(0), K(5), K(1))', 'list(range(K(3)))', 'len(K(3))',
          'tuple(gen())', 'list(gen())', 'sorted(gen())', 'min(gen())', 'max(gen(), default=0)', 'sum(genints())', 'any(gen())', 'all(gen())', 'list(K(0))', 'K(1) + K(2) + 3', 'sum([K(1), K(2)], K(0))',
          'bool(K(0))', 'not K(0)', 'K(1) if K(0) else K(2)', 'hash(K(1))', '{K(1): 2}[K(1)]', 'isinstance(K(1), K)', 'divmod(K(1), K(2))', 'I * K(3)', '"ab" * K(2)', '"abcdef"[K(1):K(4)]', '(1, 2, 3)[K(1)]', 'b"abc"[K(1)]']


def reentrant_programs(tier, r):
    out = []
    combos = []
    for op in RE_OPS:
        for act in RE_ACTIONS:
            for trig in (1, 2, 3, 5):
                for burst in (False, True):
                    combos.append((op, act, trig, burst))
    if tier == 'quick':
        # every operation with every action at least once; the trigger position and the burst mode are sampled
        sel = []
        for op in RE_OPS:
            for act in RE_ACTIONS:
                sel.append((op, act, r.choice((1, 2, 3, 5)), r.random() < 0.5))
        combos = sel
    for i, (op, act, trig, burst) in enumerate(combos):
        cond = ('%d <= N[0] < %d' % (trig, trig + 3)) if burst else ('N[0] == %d' % trig)
        out.append({'id': 'q%d' % i, 'src': RE_PRELUDE % {'cond': cond, 'action': act, 'op': op}, 'reop': op, 'react': act, 'trig': trig, 'burst': burst})
    return out


# ---- directed programs: (a) interpreter-visible hooks rebound to values of the wrong kind, then the action that consults them;
# (b) unbounded / very deep recursion of every kind the VM and the object model can be driven into.
HOSTILE_VALUES = ['5', 'None', '"s"', '[5]', '[None]', '(1,)', '{}', 'lambda *a, **k: 5', 'lambda *a, **k: None', 'lambda *a, **k: "s"', 'lambda *a, **k: [5]', 'object()', 'int', '3.5']
HOSTILE_SLOTS = ['sys.path = %s', 'sys.path.append(%s)', 'sys.path[0:0] = [%s]', 'builtins.__import__ = %s', 'sys.modules = %s', 'sys.modules["nosuch"] = %s', 'sys.modules["math"] = %s',
                 'builtins.__build_class__ = %s', 'sys.stdout = %s', 'sys.stderr = %s', 'sys.argv = %s', 'builtins.print = %s', 'builtins.len = %s', 'builtins.iter = %s', 'builtins.next = %s',
                 'builtins.isinstance = %s', 'builtins.repr = %s', 'builtins.str = %s', 'builtins.StopIteration = %s', 'builtins.ImportError = %s', 'builtins.__name__ = %s', 'sys.displayhook = %s',
                 'globals()["__name__"] = %s', 'globals()["__builtins__"] = %s', 'math.pi = %s', 'sys.modules["sys"] = %s', 'builtins.__dict__ = %s']
HOSTILE_DELS = ['del sys.path', 'del sys.modules', 'del sys.stdout', 'del builtins.__import__', 'del builtins.__build_class__', 'del builtins.print', 'del builtins.len', 'del builtins.StopIteration',
                'del builtins.ImportError', 'globals().clear()', 'del globals()["__name__"]', 'sys.modules.clear()', 'builtins.__dict__.clear()' ]
HOSTILE_ACTIONS = ['import nosuch', 'import math', 'import os', 'from math import pi', 'from math import nosuch', 'from nosuch import x', 'from math import *', 'from nosuch import *', 'import a.b.c',
                   'class C:\n        pass', 'class C(int):\n        x = 1', 'print(1)', 'print(1, 2, sep="-", end="!")', 'print(1, file=None)', 'len([1])', 'for i in [1, 2]:\n        pass',
                   'list(x for x in [1])', 'repr([1])', 'str(1)', '[1][5]', '1 // 0', 'isinstance(1, int)', 'sorted([2, 1])', 'def g():\n        yield 1\n    list(g())', 'next(iter([1]))',
                   'with open("nosuch_file") as f:\n        pass', 'eval("1 + 1")', 'exec("import nosuch2")', 'compile("x", "f", "exec")', 'globals()', 'locals()', 'dir()', 'vars()']
HOSTILE_TMPL = """import sys
import builtins
import math
try:
    %(slot)s
except Exception:
    print("slot-exc")
try:
    %(action)s
    print("done")
except BaseException:
    print("exc")
"""

RECURSION_PROGRAMS = {
    'function': 'def f(n):\n    return f(n + 1)\nf(0)\n',
    'function-caught': 'def f(n):\n    return f(n + 1)\ntry:\n    f(0)\nexcept Exception:\n    print("exc")\nprint("alive")\n',
    'mutual': 'def f(n):\n    return g(n + 1)\ndef g(n):\n    return f(n)\nf(0)\n',
    'method': 'class A:\n    def m(self):\n        return self.m()\nA().m()\n',
    'lambda': 'f = lambda: f()\nf()\n',
    'generator': 'def g():\n    yield from g()\nfor x in g():\n    pass\n',
    'genexp-chain': 'it = iter([1])\nfor i in range(200000):\n    it = (x for x in it)\nlist(it)\n',
    'via-map': 'def f(n):\n    return list(map(f, [n + 1]))\nf(0)\n',
    'via-sorted-key': 'def f(n):\n    return sorted([n], key=f)\nf(0)\n',
    'repr-method': 'class A:\n    def __repr__(self):\n        return repr(self)\nrepr(A())\n',
    'str-method': 'class A:\n    def __str__(self):\n        return str(self)\nstr(A())\n',
    'getattr': 'class A:\n    def __getattr__(self, n):\n        return self.zzz\nA().x\n',
    'call-class': 'class A:\n    def __init__(self):\n        A()\nA()\n',
    'self-list-repr': 'L = [0]\nL[0] = L\nrepr(L)\n',
    'self-dict-repr': 'D = {}\nD["k"] = D\nrepr(D)\n',
    'self-list-str': 'L = [0]\nL.append(L)\nstr(L)\n',
    'self-list-print': 'L = [0]\nL[0] = L\nprint(L)\n',
    'self-list-eq': 'L = [0]\nL[0] = L\nM = [0]\nM[0] = M\nL == M\n',
    'self-tuple-in-list-repr': 'L = []\nt = (L,)\nL.append(t)\nrepr(t)\n',
    'deep-list-repr': 'L = []\nfor i in range(300000):\n    L = [L]\nrepr(L)\n',
    'deep-tuple-eq': 'a = ()\nb = ()\nfor i in range(300000):\n    a = (a,)\n    b = (b,)\na == b\n',
    'deep-list-eq': 'a = []\nb = []\nfor i in range(300000):\n    a = [a]\n    b = [b]\na == b\n',
    'deep-tuple-hash': 'a = ()\nfor i in range(300000):\n    a = (a,)\nhash(a)\n',
    'deep-expression-eval': 'eval("(" * 100000 + "1" + ")" * 100000)\n',
    'deep-unary-eval': 'eval("-" * 200000 + "1")\n',
    'deep-list-literal-eval': 'eval("[" * 100000 + "]" * 100000)\n',
    'exec-recursion': 's = "exec(s)"\nexec(s)\n',
    'import-recursion': 'def f():\n    __import__("nosuch_module_zz")\n    f()\ntry:\n    f()\nexcept ImportError:\n    print("exc")\n',
    'deep-but-legal-900': 'def f(n):\n    if n == 0:\n        return 0\n    return 1 + f(n - 1)\nprint(f(900))\n',
}


NEST_KINDS = {
    'for': ('for i%(d)d in [1]:', None), 'while': ('while c%(d)d:', 'c%(d)d = 0'), 'with': ('with CM():', None), 'try-finally': ('try:', ('finally:', 'n[0] += 1')),
    'try-except': ('try:', ('except KeyError:', 'n[0] += 100')), 'if': ('if n:', None),
}


def nesting_programs(tier):
    """blocks nested to depth d and actually executed: statically nested blocks, handlers entered inside handlers (`except E as e` keeps a hidden
    finally block open), try/except/finally in try bodies - the VM's block stack has to hold them all."""
    out = []
    pre = 'n = [0]\nclass CM:\n    def __enter__(self):\n        return self\n    def __exit__(self, a, b, c):\n        n[0] += 1\n        return False\n'
    depths = (5, 10, 11, 12, 19, 20, 21, 25, 40) if tier == 'quick' else (5, 10, 11, 12, 15, 19, 20, 21, 22, 25, 30, 40, 60, 100)
    for d in depths:
        for kind, (hdr, extra) in NEST_KINDS.items():
            lines = []
            for k in range(d):
                ind = '    ' * k
                if kind == 'while':
                    lines.append(ind + 'c%d = 1' % k)
                lines.append(ind + hdr % {'d': k})
                if kind == 'while':
                    lines.append(ind + '    c%d = 0' % k)
            lines.append('    ' * d + 'n[0] += 1000')
            if isinstance(extra, tuple):
                for k in range(d - 1, -1, -1):
                    lines.append('    ' * k + extra[0])
                    lines.append('    ' * k + '    ' + extra[1])
            out.append({'id': 'nest-%s-%d' % (kind, d), 'src': pre + 'def f():\n' + ''.join('    ' + l + '\n' for l in lines) + '    print(n[0])\nf()\n', 'family': 'nesting', 'label': '%s depth %d' % (kind, d)})
        # handlers entered inside handlers
        for kind, asn in (('handler-in-handler', ''), ('named-handler-in-handler', ' as e%d')):
            lines = []
            for k in range(d):
                ind = '    ' * (2 * k)
                lines += [ind + 'try:', ind + '    raise KeyError(%d)' % k, ind + 'except KeyError%s:' % (asn % k if asn else '')]
                lines.append(ind + '    n[0] += 1')
            out.append({'id': 'nest-%s-%d' % (kind, d), 'src': pre + 'def f():\n' + ''.join('    ' + l + '\n' for l in lines) + '    print(n[0])\nf()\n', 'family': 'nesting', 'label': '%s depth %d' % (kind, d)})
        # try/except/finally nested in try bodies, the innermost raises and every level handles + re-raises
        lines = []
        for k in range(d):
            lines.append('    ' * k + 'try:')
        lines.append('    ' * d + 'raise KeyError(0)')
        for k in range(d - 1, -1, -1):
            ind = '    ' * k
            lines += [ind + 'except KeyError as e:', ind + '    n[0] += 1', ind + ('    raise' if k else '    pass'), ind + 'finally:', ind + '    n[0] += 10']
        out.append({'id': 'nest-try-except-finally-%d' % d, 'src': pre + 'def f():\n' + ''.join('    ' + l + '\n' for l in lines) + '    print(n[0])\nf()\n', 'family': 'nesting', 'label': 'try-except-finally depth %d' % d})
    return out


def directed_programs(tier, r):
    out = nesting_programs(tier)
    combos = [(sl % v, a) for sl in HOSTILE_SLOTS for v in HOSTILE_VALUES for a in HOSTILE_ACTIONS] + [(d, a) for d in HOSTILE_DELS for a in HOSTILE_ACTIONS]
    if tier == 'quick':
        # every (slot, value) and every (slot, action) pair at least once
        sel = set()
        for sl in HOSTILE_SLOTS:
            for v in HOSTILE_VALUES:
                sel.add((sl % v, r.choice(HOSTILE_ACTIONS)))
            for a in HOSTILE_ACTIONS:
                sel.add((sl % r.choice(HOSTILE_VALUES), a))
        for d in HOSTILE_DELS:
            for a in HOSTILE_ACTIONS:
                sel.add((d, a))
        # the pairs in which the slot is what the action consults: all values
        for sl, acts in (('sys.path', HOSTILE_ACTIONS[:9]), ('__import__', HOSTILE_ACTIONS[:9]), ('sys.modules', HOSTILE_ACTIONS[:9]), ('__build_class__', HOSTILE_ACTIONS[9:11]),
                         ('sys.stdout', HOSTILE_ACTIONS[11:14]), ('builtins.print', HOSTILE_ACTIONS[11:14])):
            for s_ in HOSTILE_SLOTS:
                if sl in s_:
                    for v in HOSTILE_VALUES:
                        for a in acts:
                            sel.add((s_ % v, a))
        combos = sorted(sel)
    for i, (slot, act) in enumerate(combos):
        out.append({'id': 'h%d' % i, 'src': HOSTILE_TMPL % {'slot': slot, 'action': act}, 'family': 'hostile-hook', 'label': '%s / %s' % (slot, act.split('\n')[0])})
    # the attributes of function objects: read, written with every kind of value, deleted, indexed into - then the function is used
    fdefs = {'plain': 'def f(a, b=1):\n    return a', 'kwonly-annotated': 'def f(a: int, *, k: str = 2) -> None:\n    return a', 'lambda': 'f = lambda a, b=1: a',
             'closure': 'def mk():\n    c = 1\n    def f(a):\n        return a + c\n    return f\nf = mk()', 'method': 'class C:\n    def m(self, a=1):\n        return a\nf = C().m', 'generator': 'def f(a=1):\n    yield a'}
    fattrs = ['__annotations__', '__kwdefaults__', '__defaults__', '__dict__', '__name__', '__qualname__', '__doc__', '__module__', '__code__', '__globals__', '__closure__', '__func__', '__self__']
    facts = ['f.%s', 'f.%s["a"] = 1', 'f.%s[0]', 'del f.%s', 'f.%s.clear()', 'len(f.%s)'] + ['f.%s = ' + v for v in HOSTILE_VALUES]
    fcombos = [(dn, a, act) for dn in fdefs for a in fattrs for act in facts]
    if tier == 'quick':
        fcombos = [c for i, c in enumerate(fcombos) if c[0] in ('plain', 'kwonly-annotated') or c[2] in facts[:6] or (i + len(c[1])) % 5 == 0]
    for i, (dn, a, act) in enumerate(fcombos):
        src = fdefs[dn] + '\ntry:\n    ' + (act % a) + '\n    print("acted")\nexcept BaseException:\n    print("exc")\ntry:\n    r = f(1)\n    r = f(a=2)\n    list(r) if r is not None and not isinstance(r, int) else None\n    print("called")\nexcept BaseException:\n    print("call-exc")\n'
        out.append({'id': 'fa%d' % i, 'src': src, 'family': 'function-attributes', 'label': '%s / %s' % (act % a, dn)})
    for k, src in RECURSION_PROGRAMS.items():
        if tier == 'quick' and k.startswith('self-') and k not in ('self-list-repr', 'self-list-eq'):
            continue          # each of these aborts after growing a 1 GB stack (known finding): two of them in quick, all in thorough
        out.append({'id': 'rec-' + k, 'src': src, 'family': 'recursion', 'label': k})
    return out


def limit_mem():
    try:
        resource.setrlimit(resource.RLIMIT_AS, (6 << 30, 6 << 30))
    except Exception:
        pass


def expand(c):
    """explicit tuples of a batch case (for pinpointing after a crash/timeout)"""
    if c.get('tuples') is not None:
        return c['tuples']
    pool = c['pool']
    if c.get('first'):
        return [[c['first']] + list(t) for t in itertools.product(pool, repeat=c['arity'] - 1)]
    return [list(t) for t in itertools.product(pool, repeat=c['arity'])]


def sig_target(c):
    if c['kind'] in ('method', 'unbound'):
        return '%s:%s.%s' % (c['kind'], c.get('type'), c['name'])
    return '%s:%s' % (c['kind'], c['name'])


def run(tier, rep):
    r = rng(PID, 'cases')
    L = listing()
    C = build_cases(tier, L, r)
    r.shuffle(C)
    env = {'GOMEMLIMIT': '3GiB'}
    for c in C:
        c.pop('feature', None)
    res, _ = common.run_vrun('call', C, timeout_case=25, envx=env)
    ncalls = 0
    outcomes = {}
    nontriv = set()
    redo = []
    for c in C:
        g = res.get(c['id'])
        if g is None:
            rep.inconc('no result for batch %s' % sig_target(c))
            continue
        if g.get('timeout') or g.get('wall_timeout') or g.get('crash'):
            redo.append(c)
            continue
        if g.get('harness_panic'):
            rep.violation('C10|%s|panic-outside-call:%s' % (sig_target(c), normmsg(str(g['harness_panic']))), {'case': c, 'vrun_mode': 'call', 'got': g})
            continue
        ncalls += g.get('ncalls', 0)
        for k, v in (g.get('outcomes') or {}).items():
            outcomes[k] = outcomes.get(k, 0) + v
            nontriv.add((sig_target(c), k))
        for p in g.get('panics') or []:
            rep.violation('C10|%s|panic:%s' % (sig_target(c), normmsg(p['msg'])), {'case': dict(c, tuples=[p['args']], arity=None, pool=None, first=None), 'vrun_mode': 'call', 'args': p['args'], 'panic': p['msg'], 'stack': p['stack']})
    # pinpoint crashes / timeouts tuple by tuple (bounded)
    single = []
    for c in redo[:60]:
        tups = expand(c)
        if len(tups) > 400:
            r2 = rng(PID, 'redo' + c['id'])
            # keep all tuples with huge members first, then a sample
            tups = tups[:400]
        for t in tups:
            single.append(dict(c, id='r%d' % len(single), tuples=[t], arity=None, pool=None, first=None))
    if len(redo) > 60:
        rep.inconc('%d batches crashed or timed out; only 60 were pinpointed' % len(redo))
    if single:
        res2, _ = common.run_vrun('call', single, timeout_case=8, envx=env)
        for c in single:
            g = res2.get(c['id'])
            if g is None:
                continue
            args = c['tuples'][0]
            huge = any(a in L['huge'] for a in args)
            if g.get('timeout') or g.get('wall_timeout'):
                # pure CPU time is inconclusive, exactly as it would be in CPython
                rep.inconc('timeout %s%s' % (sig_target(c), args))
                continue
            if g.get('crash'):
                tail = g.get('log_tail', '')
                m = re.search(r'fatal error: ([^\n]*)', tail) or re.search(r'(panic: [^\n]*)', tail) or re.search(r'(runtime: [^\n]*)', tail)
                what = normmsg(m.group(1)) if m else 'unknown'
                selfc = any(isinstance(a, str) and a.startswith('self') for a in args)          # a container that contains itself (known finding: unbounded recursion in the object model)
                rep.violation('C10|%s|%sprocess-abort:%s' % (sig_target(c), 'huge-size|' if huge else ('self-containing|' if selfc else ''), what), {'case': c, 'vrun_mode': 'call', 'args': args, 'log_tail': tail[-1500:]})
                ncalls += 1
                continue
            ncalls += g.get('ncalls', 0)
            for k, v in (g.get('outcomes') or {}).items():
                outcomes[k] = outcomes.get(k, 0) + v
            for p in g.get('panics') or []:
                rep.violation('C10|%s|panic:%s' % (sig_target(c), normmsg(p['msg'])), {'case': c, 'vrun_mode': 'call', 'args': p['args'], 'panic': p['msg'], 'stack': p['stack']})
    rep.evaluations += ncalls
    # programs composed of such steps: generated programs must never panic the VM
    progs = []
    n = 400 if tier == 'quick' else 6000
    for i in range(n):
        progs.append({'id': 'p%d' % i, 'src': progen.raw_program(r, maxdepth=r.choice([2, 3, 4]), nstmts=r.randrange(2, 6))})
    import g6corpus
    progs += [{'id': c['id'], 'src': c['src']} for c in g6corpus.programs(r, 600 if tier == 'quick' else 10000, prefix='g6p')]
    reprogs = reentrant_programs(tier, r)
    remeta = {p['id']: p for p in reprogs}
    progs += [{'id': p['id'], 'src': p['src']} for p in reprogs]
    dprogs = directed_programs(tier, r)
    dmeta = {p['id']: p for p in dprogs}
    progs += [{'id': p['id'], 'src': p['src']} for p in dprogs if p['family'] != 'recursion']
    pres, _ = common.run_vrun('exec', progs, timeout_case=30)
    # recursion programs: one fresh process per program (an abort must not take other cases with it), generous watchdog: growing a 1 GB stack takes a while
    rprogs = [{'id': p['id'], 'src': p['src']} for p in dprogs if p['family'] == 'recursion']
    rres, _ = common.run_vrun('exec', rprogs, timeout_case=240, extra=['-percase'], workers=6)
    pres.update(rres)
    progs += rprogs
    d_out = {}
    re_out = {}
    for p in progs:
        g = pres.get(p['id'])
        rm = remeta.get(p['id'])
        if g is None or g.get('timeout'):
            rep.inconc('program %s: no result%s' % (p['id'], ' (%s with %s)' % (rm['reop'], rm['react']) if rm else ''))
            continue
        rep.evaluations += 1
        if rm:
            k = 'panic' if g.get('panic') or g.get('crash') else (g.get('out') or '').strip().split('\n')[-1][:40] or ('uncaught ' + str(g.get('exc')))
            re_out[k] = re_out.get(k, 0) + 1
            nontriv.add(('reentrant', rm['reop'], rm['react'].split('.')[0].split('[')[0].split(' ')[-1], k))
        dm = dmeta.get(p['id'])
        if dm:
            k = 'panic' if g.get('panic') or g.get('crash') else ((g.get('out') or '').strip().split('\n')[-1][:20] or ('uncaught ' + str(g.get('exc'))))
            d_out[dm['family'] + ':' + k] = d_out.get(dm['family'] + ':' + k, 0) + 1
            nontriv.add(('directed', dm['family'], dm['label'].split(' = ')[0].split('(')[0], k))
        if g.get('panic') or g.get('crash') or g.get('harness_panic'):
            msg = str(g.get('panic') or g.get('harness_panic') or (re.search(r'fatal error: ([^\n]*)', g.get('log_tail', '')) or [None, 'abort'])[1])
            if dm:
                rep.violation('C10|directed|%s|%s|panic:%s' % (dm['family'], dm['label'] if dm['family'] in ('recursion', 'nesting') else (dm['label'].split(' / ')[0].split(' = ')[0] if dm['family'] == 'function-attributes' else dm['label'].split(' = ')[0].split('(')[0]), normmsg(msg)),
                              {'case': {'id': p['id'], 'src': p['src']}, 'family': dm['family'], 'label': dm['label'], 'got': {k: common.short(v, 1500) for k, v in g.items()}})
            elif rm:
                rep.violation('C10|reentrant|op=%s|panic:%s' % (rm['reop'], normmsg(msg)), {'case': p, 'operation': rm['reop'], 'callback_action': rm['react'], 'trigger_call': rm['trig'], 'burst': rm['burst'],
                                                                                      'got': {k: common.short(v, 1500) for k, v in g.items()}})
            else:
                rep.violation('C10|program|panic:%s' % normmsg(msg), {'case': p, 'got': {k: common.short(v, 800) for k, v in g.items()}})
    # ---- the same kind of steps from many goroutines at once (one context each): an abort that needs real parallelism - a table shared by all
    # contexts that is read and written without a lock ends the process with 'fatal error: concurrent map ...', which no recover() sees
    import c08, json as _json, subprocess as _sp, shutil as _sh
    cprogs = {'gomod.calls': c08.gomod_calls_program(),
              'builtin.calls': 'n = 0\nfor f in (abs, all, any, ascii, bin, bool, bytes, chr, complex, dict, divmod, enumerate, float, hash, hex, id, int, iter, len, list, max, min, oct, ord, pow, range, repr, round, set, sorted, str, sum, tuple, type, zip):\n    for k in range(6):\n        n += 1\n        a = [(), ("fresh-" + str(n),), (n,), ("a", "b"), (1.5,), ([n, "x" + str(n)],)][k]\n        try:\n            f(*a)\n        except:\n            pass\nprint(n)\n',
              'strings': 's = set()\nd = {}\nfor i in range(400):\n    k = "key-" + str(i)\n    s.add(k)\n    d[k] = i\n    x = k.upper().lower().replace("k", "q").split("-")\nprint(len(s), len(d))\n'}
    cd = common.scratch_dir('c10conc-')
    try:
        inp, outp = os.path.join(cd, 'in.json'), os.path.join(cd, 'out.json')
        with open(inp, 'w') as f:
            _json.dump({'programs': [{'id': 'O:' + k, 'src': v, 'solo': None} for k, v in cprogs.items()], 'shared_src': 'x = 1\n', 'shared_solo': None, 'rounds': 6 if tier == 'quick' else 60, 'goroutines': 16, 'density': 0, 'repl': False, 'nocompare': True}, f)
        cenv = common.go_env()
        cenv['GORACE'] = 'halt_on_error=0 log_path=%s' % os.path.join(cd, 'race')
        try:
            pr = _sp.run([common.build(race=True), '-mode', 'cctx', '-in', inp, '-out', outp, '-seed', str(common.seed())], env=cenv, stdout=_sp.PIPE, stderr=_sp.STDOUT, timeout=900, cwd=cd)
            clog = pr.stdout.decode('utf-8', 'replace')
            if os.path.exists(outp):
                co = _json.load(open(outp))
                rep.evaluations += co.get('runs', 0)
                nontriv.add(('concurrent', co.get('runs', 0) > 0))
                for m_ in co.get('panics') or []:
                    rep.violation('C10|concurrent|panic:%s' % normmsg(m_)[:80], {'what': m_})
                conc_runs = co.get('runs', 0)
            else:
                m_ = re.search(r'fatal error: ([^\n]*)', clog)
                rep.violation('C10|concurrent|process-abort:%s' % (normmsg(m_.group(1)) if m_ else 'unknown'), {'rc': pr.returncode, 'log_tail': clog[-3000:]})
                conc_runs = 0
        except _sp.TimeoutExpired:
            rep.inconc('concurrent builtin stress hit the wall-clock cap')
            conc_runs = 0
    finally:
        _sh.rmtree(cd, ignore_errors=True)
    rep.nontrivial = nontriv
    rep.samples = [{'kind': c['kind'], 'callable': sig_target(c), 'receiver': c.get('recv'), 'args': (expand(c) or [[]])[min(3, len(expand(c)) - 1)], 'kw': c.get('kw')} for c in C[:6]]
    rep.rule = ('every callable in builtins (%d) and in the attribute table of the type of every universe value (bound to a receiver and unbound), every unary/binary/ternary operator entry point of the py package and %d source snippets compiled and run by the VM, '
                'x all argument tuples of arity 0-2 over a universe of %d values (huge values only sampled in quick) and arity 3 over a %d-value sub-universe, plus keyword forms; plus generated programs (program generator; full-grammar modules of the C06 generator over a universal object); plus re-entrant callback programs: %d container operations x %d mutations of the container performed by the callback (key function, rich comparison, __hash__, __index__, __iter__, __repr__, feeding generator) x trigger position; plus directed programs: interpreter-visible hooks (sys.path, sys.modules, sys.stdout, builtins.__import__, __build_class__, print, len, ...) rebound to values of the wrong kind or deleted x the actions that consult them, blocks of every kind nested to depth 5..40 (100 in thorough) and executed (incl. handlers entered inside handlers), and unbounded / very deep recursion through every route (function, method, generator, map, sort key, __repr__, __getattr__, self-containing and deeply nested containers, deeply nested source text), one process each; '
                'non-trivial = distinct (callable, outcome class) pairs observed' % (len(L['builtins']), len([s for s in L['snippets'] if s]), len(L['universe']), 14, len(RE_OPS), len(RE_ACTIONS)))
    rep.extra = {'calls': ncalls, 'batches': len(C), 'batches_redone': len(redo), 'outcome_classes': dict(sorted(outcomes.items(), key=lambda kv: -kv[1])[:25]), 'programs': len(progs), 'reentrant_programs': len(reprogs), 'reentrant_outcomes': re_out, 'directed_programs': len(dprogs), 'directed_outcomes': d_out, 'concurrent_program_runs_16_goroutines': conc_runs, 'universe': L['universe']}
    rep.assumptions = ['pure CPU time (e.g. sum(range(2**62))) is inconclusive; process aborts and Go panics are violations', 'workers run with GOMEMLIMIT=3GiB; cwd is a scratch directory']
