"""Full-grammar programs for the checks that only need *some* execution of every syntactic form (C10: never a panic; C12: every code
object well-formed, the VM's stack/block depths as predicted): modules from the C06 generator (every statement and expression form of the
3.4 grammar, all target forms, decorators, annotations, defaults, comprehensions ...) run against a prelude that binds every name the
generator uses to a universal object, so that execution gets as far as possible before the first exception."""
import re
import c06

PRELUDE = '''class U:
    def __init__(self, n=0):
        self.n = n
    def __call__(self, *a, **k):
        return self
    def __getattr__(self, name):
        return self
    def __getitem__(self, i):
        return self
    def __setitem__(self, i, v):
        pass
    def __delitem__(self, i):
        pass
    def __iter__(self):
        return iter([U(1), U(2)])
    def __enter__(self):
        return self
    def __exit__(self, t, v, tb):
        return False
    def __bool__(self):
        self.n = self.n + 1
        return self.n %% 3 != 0
    def __len__(self):
        return 2
    def __index__(self):
        return 1
    def __hash__(self):
        return 7
    def __repr__(self):
        return "U"
    def __neg__(self):
        return self
    def __pos__(self):
        return self
    def __invert__(self):
        return self
    def __contains__(self, x):
        return True
    def __eq__(self, o):
        return True
    def __ne__(self, o):
        return False
    def __lt__(self, o):
        return True
    def __le__(self, o):
        return True
    def __gt__(self, o):
        return False
    def __ge__(self, o):
        return True
def _b(self, o):
    return self
for _n in ["add", "sub", "mul", "truediv", "floordiv", "mod", "pow", "lshift", "rshift", "and", "or", "xor"]:
    setattr(U, "__" + _n + "__", _b)
    setattr(U, "__r" + _n + "__", _b)
    setattr(U, "__i" + _n + "__", _b)
%s
''' % ''.join('%s = U()\n' % n for n in c06.NAMES + ['k', 'key', 'end', 'os', 'm', 'pkg', 'al', 'n1', 'u', 'w', 't', 'q', 's', 'k1', 'k2', 'r', 'v', 'z', 'R', 'dec', 'wrap', 'mod', 'sub'])


def programs(r, n, prefix='g6'):
    out = []
    for i in range(n):
        g = c06.G(r)
        while True:
            text, _ = g.module(2, r.choice([1, 2, 2, 3]), r.randrange(1, 5))
            # a `while` on a literal condition never ends (U.__bool__ turns false every third time, a literal does not)
            if not re.search(r'\bwhile\b[ \t(]*(\d|\.\.\.|True|[rbuRBU]*[\'"]|\[|\{|not\b|lambda|-)', text):
                break
            g = c06.G(r)
        # `import`/`from` statements of the generator name modules that do not exist: they end the program, which is fine;
        # a bare `while <truthy literal>` would never end: U.__bool__ turns false every third time, literals are left to the watchdog
        out.append({'id': '%s:%d' % (prefix, i), 'src': PRELUDE + text,
                    'features': sorted(g.features)})
    return out
