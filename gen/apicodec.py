"""JSON value codec for `vrun api` cases, shared by the C13/C14/C15 generators.

enc(v)  : Python value -> vrun api argument (jval)
dec(j)  : vrun api result -> canonical, hashable, *deep bit-exact* Python-side form:
            ('int', n) ('bool', b) ('none',) ('float', bits-hex | 'nan') ('complex', re, im) ('str', (cps...)) ('bytes', hex)
            ('list', (...)) ('tuple', (...)) ('range', start, stop, step, len) ...
canon(v): Python value -> the same canonical form (so that canon(expected) == dec(got) is the comparison)
Neither side relies on ==/repr of the interpreter under test.
"""
import struct, json


class Big:
    """An int that must be passed in the arbitrary-precision (*py.BigInt) representation."""
    __slots__ = ('v',)

    def __init__(self, v):
        self.v = v

    def __repr__(self):
        return 'Big(%d)' % self.v


class Sl:
    """slice(start, stop, step) whose members may be Big/bool/float/..."""
    __slots__ = ('a',)

    def __init__(self, *a):
        self.a = a

    def __repr__(self):
        return 'Sl%r' % (self.a,)


def fbits(x):
    return '%016x' % struct.unpack('<Q', struct.pack('<d', x))[0]


def from_bits(h):
    return struct.unpack('<d', struct.pack('<Q', int(h, 16)))[0]


def enc(v):
    if isinstance(v, Big):
        return {'t': 'int', 'v': str(v.v), 'big': True}
    if isinstance(v, Sl):
        return {'t': 'slice', 'items': [enc(x) for x in v.a]}
    if v is None:
        return {'t': 'none'}
    if isinstance(v, bool):
        return {'t': 'bool', 'b': v}
    if isinstance(v, int):
        return {'t': 'int', 'v': str(v)}
    if isinstance(v, float):
        return {'t': 'float', 'bits': fbits(v)}
    if isinstance(v, complex):
        return {'t': 'complex', 're': fbits(v.real), 'im': fbits(v.imag)}
    if isinstance(v, str):
        return {'t': 'str', 'cps': [ord(c) for c in v]}
    if isinstance(v, bytes):
        return {'t': 'bytes', 'hex': v.hex()}
    if isinstance(v, list):
        return {'t': 'list', 'items': [enc(x) for x in v]}
    if isinstance(v, tuple):
        return {'t': 'tuple', 'items': [enc(x) for x in v]}
    if isinstance(v, range):
        return {'t': 'range', 'items': [enc(v.start), enc(v.stop), enc(v.step)]}
    if isinstance(v, slice):
        return {'t': 'slice', 'items': [enc(v.start), enc(v.stop), enc(v.step)]}
    raise TypeError('cannot encode %r' % (v,))


def _fl(bits):
    x = from_bits(bits)
    if x != x:
        return 'nan'
    return bits


def dec(j):
    t = j.get('t')
    if t == 'int':
        return ('int', int(j['v']))
    if t == 'bool':
        return ('bool', bool(j.get('b', False)))
    if t == 'none':
        return ('none',)
    if t == 'float':
        return ('float', _fl(j['bits']))
    if t == 'complex':
        return ('complex', _fl(j['re']), _fl(j['im']))
    if t == 'str':
        return ('str', tuple(j.get('cps') or ()))
    if t == 'bytes':
        return ('bytes', j.get('hex', ''))
    if t in ('list', 'tuple'):
        return (t, tuple(dec(x) for x in (j.get('items') or ())))
    if t == 'range':
        return ('range', j['start'], j['stop'], j['step'], j['len'])
    if t == 'slice':
        return ('slice', tuple(dec(x) for x in j['items']))
    return ('other', json.dumps(j, sort_keys=True))


def canon(v):
    if isinstance(v, Big):
        return ('int', v.v)
    if v is None:
        return ('none',)
    if isinstance(v, bool):
        return ('bool', v)
    if isinstance(v, int):
        return ('int', v)
    if isinstance(v, float):
        return ('float', 'nan' if v != v else fbits(v))
    if isinstance(v, complex):
        return ('complex', 'nan' if v.real != v.real else fbits(v.real), 'nan' if v.imag != v.imag else fbits(v.imag))
    if isinstance(v, str):
        return ('str', tuple(ord(c) for c in v))
    if isinstance(v, bytes):
        return ('bytes', v.hex())
    if isinstance(v, list):
        return ('list', tuple(canon(x) for x in v))
    if isinstance(v, tuple):
        return ('tuple', tuple(canon(x) for x in v))
    if isinstance(v, range):
        return ('range', v.start, v.stop, v.step, len(v))
    if isinstance(v, Sl):
        return ('slice', tuple(canon(x) for x in v.a))
    if isinstance(v, slice):
        return ('slice', (canon(v.start), canon(v.stop), canon(v.step)))
    raise TypeError('cannot canon %r' % (v,))


def show(c):
    """Human-readable rendering of a canonical form (for witnesses)."""
    t = c[0]
    if t == 'int':
        return str(c[1])
    if t == 'bool':
        return str(c[1])
    if t == 'none':
        return 'None'
    if t == 'float':
        return 'nan' if c[1] == 'nan' else '%r[%s]' % (from_bits(c[1]), c[1])
    if t == 'complex':
        return 'complex(%s,%s)' % (show(('float', c[1])), show(('float', c[2])))
    if t == 'str':
        try:
            return ascii(''.join(chr(x) for x in c[1]))
        except Exception:
            return 'str%r' % (c[1],)
    if t == 'bytes':
        return 'bytes.fromhex(%r)' % c[1]
    if t in ('list', 'tuple'):
        inner = ', '.join(show(x) for x in c[1])
        return '[%s]' % inner if t == 'list' else '(%s%s)' % (inner, ',' if len(c[1]) == 1 else '')
    if t == 'range':
        return 'range(%s,%s,%s)#len=%s' % c[1:]
    return repr(c)


ABNORMAL = ('panic', 'crash', 'harness_panic')


def outcome(g):
    """Classify a vrun api result: ('val', canon) | ('exc', name) | ('panic', text) | ('timeout',) | ('none',)"""
    if g is None:
        return ('none',)
    if g.get('timeout') or g.get('wall_timeout'):
        return ('timeout',)
    for k in ABNORMAL:
        if g.get(k):
            return ('panic', str(g.get(k))[:200])
    if 'exc' in g:
        return ('exc', g['exc'])
    if 'val' in g:
        return ('val', dec(g['val']))
    return ('none',)
