"""Seeded generator of structurally rich, terminating Python-3.4 programs (for C12, C18, C08, C10, C11 corpora).
The programs are not compared with CPython here; they only need to compile and to drive many control-flow paths."""

EXCS = ['ValueError', 'KeyError', 'ZeroDivisionError', 'IndexError', 'TypeError', 'E1', 'E2']

PRELUDE = '''class E1(Exception):
    pass
class E2(E1):
    pass
class CM:
    def __init__(self, tag, swallow=False, boom=0):
        self.tag = tag
        self.swallow = swallow
        self.boom = boom
    def __enter__(self):
        print("enter", self.tag)
        if self.boom == 1:
            raise E1("enter")
        return self.tag
    def __exit__(self, t, v, tb):
        print("exit", self.tag, t is None)
        if self.boom == 2:
            raise E2("exit")
        return self.swallow
def boom(k):
    if k == 0:
        raise ValueError("boom")
    if k == 1:
        raise KeyError("boom")
    if k == 2:
        return 1 // 0
    if k == 3:
        raise E2("boom")
    return k
'''


class Gen:
    def __init__(self, r, maxdepth=4, maxstmts=3):
        self.r = r
        self.maxdepth = maxdepth
        self.maxstmts = maxstmts
        self.n = 0
        self.fn = 0

    def uid(self, p='v'):
        self.n += 1
        return '%s%d' % (p, self.n)

    # ---- expressions ----
    def atom(self, names):
        r = self.r
        k = r.randrange(10)
        if k < 4 and names:
            return r.choice(names)
        if k < 7:
            return str(r.choice([0, 1, 2, 3, 7, -1, 10, 255]))
        if k == 7:
            return r.choice(['"s"', '"ab"', 'None', 'True', 'False'])
        if k == 8:
            return '[%s]' % ', '.join(self.atom(names) for _ in range(r.randrange(3)))
        return '(%s, %s)' % (self.atom(names), self.atom(names))

    def iexpr(self, names, d=0):
        """int-valued-ish expression (may raise)"""
        r = self.r
        if d > 2 or r.random() < 0.35:
            if names and r.random() < 0.6:
                return r.choice(names)
            return str(r.choice([0, 1, 2, 3, 5, 7]))
        k = r.randrange(12)
        a, b = self.iexpr(names, d + 1), self.iexpr(names, d + 1)
        if k < 5:
            op = r.choice(['+', '-', '*', '//', '%', '&', '|', '^', '<<', '>>'])
            if op in ('<<', '>>'):
                b = '(%s %% 5)' % b   # keep shift counts (and memory) small
            if op == '*':
                b = '(%s %% 7)' % b
            return '(%s %s %s)' % (a, op, b)
        if k == 5:
            return '(%s if %s else %s)' % (a, self.cond(names, d + 1), b)
        if k == 6:
            return '(-%s)' % a
        if k == 7:
            return 'boom(%s)' % a
        if k == 8:
            return 'len([%s for %s in range(%s %% 4)])' % (a, self.uid('c'), b)
        if k == 9:
            return '(lambda q=%s: q + %s)()' % (a, b)
        if k == 10:
            return 'sum(%s for %s in range(3))' % (a, self.uid('c'))
        return '[%s, %s][%s %% 2]' % (a, b, self.iexpr(names, d + 1))

    def cond(self, names, d=0):
        r = self.r
        a, b = self.iexpr(names, d + 1), self.iexpr(names, d + 1)
        k = r.randrange(6)
        if k == 0:
            return '%s < %s' % (a, b)
        if k == 1:
            return '%s == %s' % (a, b)
        if k == 2:
            return '%s < %s <= %s' % (a, b, self.iexpr(names, d + 1))
        if k == 3:
            return '(%s and %s)' % (a, b)
        if k == 4:
            return 'not %s' % a
        return '(%s or %s) > 1' % (a, b)

    # ---- statements ----
    def block(self, names, depth, ctx, ind):
        """ctx: dict(loop=bool, func=bool, gen=bool, fin=bool)"""
        r = self.r
        n = r.randrange(1, self.maxstmts + 1)
        out = []
        names = list(names)
        for _ in range(n):
            out += self.stmt(names, depth, ctx, ind)
        if not out:
            out = [ind + 'pass']
        return out

    def stmt(self, names, depth, ctx, ind):
        r = self.r
        simple = depth >= self.maxdepth or r.random() < 0.3
        if simple:
            return self.simple(names, ctx, ind)
        k = r.randrange(13)
        sub = ind + '    '
        if k == 0:
            out = [ind + 'if %s:' % self.cond(names)] + self.block(names, depth + 1, ctx, sub)
            if r.random() < 0.5:
                out += [ind + 'elif %s:' % self.cond(names)] + self.block(names, depth + 1, ctx, sub)
            if r.random() < 0.6:
                out += [ind + 'else:'] + self.block(names, depth + 1, ctx, sub)
            return out
        if k == 1:
            v = self.uid('i')
            c2 = dict(ctx, loop=True, fin=False)
            out = [ind + 'for %s in range(%d):' % (v, r.randrange(1, 4))] + self.block(names + [v], depth + 1, c2, sub)
            if r.random() < 0.4:
                out += [ind + 'else:'] + self.block(names, depth + 1, ctx, sub)
            return out
        if k == 2:
            w = self.uid('w')
            c2 = dict(ctx, loop=True, fin=False)
            out = [ind + '%s = 0' % w, ind + 'while %s < %d:' % (w, r.randrange(1, 4)), sub + '%s += 1' % w] + self.block(names + [w], depth + 1, c2, sub)
            if r.random() < 0.4:
                out += [ind + 'else:'] + self.block(names, depth + 1, ctx, sub)
            names.append(w)
            return out
        if k in (3, 4, 5):
            out = [ind + 'try:'] + self.block(names, depth + 1, ctx, sub)
            form = r.randrange(4)
            if form in (0, 1, 3):
                for _ in range(r.randrange(1, 3)):
                    e = r.choice(EXCS)
                    if r.random() < 0.4:
                        ev = self.uid('e')
                        out += [ind + 'except %s as %s:' % (e, ev)] + self.block(names, depth + 1, ctx, sub)
                    else:
                        out += [ind + 'except %s:' % e] + self.block(names, depth + 1, ctx, sub)
                if r.random() < 0.3:
                    out += [ind + 'except:'] + self.block(names, depth + 1, ctx, sub)
                if r.random() < 0.4:
                    out += [ind + 'else:'] + self.block(names, depth + 1, ctx, sub)
            if form in (2, 3):
                # 'continue' is not allowed inside a finally clause in 3.4
                out += [ind + 'finally:'] + self.block(names, depth + 1, dict(ctx, fin=True), sub)
            return out
        if k == 6:
            t = self.uid('t')
            hdr = 'with CM("%s", %s, %d)' % (t, r.choice(['True', 'False']), r.choice([0, 0, 0, 1, 2]))
            if r.random() < 0.5:
                v = self.uid('m')
                hdr += ' as %s' % v
            if r.random() < 0.25:
                hdr += ', CM("%s2")' % t
            return [ind + hdr + ':'] + self.block(names, depth + 1, ctx, sub)
        if k == 7:
            return self.funcdef(names, depth, ind, gen=False)
        if k == 8:
            return self.funcdef(names, depth, ind, gen=True)
        if k == 9:
            c = self.uid('K')
            m = self.uid('m')
            out = [ind + 'class %s:' % c, sub + 'attr = %s' % self.atom(names), sub + 'def %s(self, p=%s):' % (m, self.atom([]))]
            out += self.block(['p'], depth + 2, dict(loop=False, func=True, gen=False, fin=False), sub + '    ')
            out += [sub + '    return p']
            out += [ind + 'try:', sub + 'print(%s().%s(%s))' % (c, m, self.iexpr(names)), ind + 'except Exception:', sub + 'print("exc")']
            return out
        if k == 10:
            v = self.uid('c')
            kind = r.randrange(4)
            body = self.iexpr(names + [v])
            flt = ' if %s' % self.cond(names + [v]) if r.random() < 0.5 else ''
            if kind == 0:
                e = '[%s for %s in range(3)%s]' % (body, v, flt)
            elif kind == 1:
                e = '{%s for %s in range(3)%s}' % (body, v, flt)
            elif kind == 2:
                e = '{%s: %s for %s in range(3)%s}' % (v, body, v, flt)
            else:
                e = 'list(%s for %s in range(3)%s)' % (body, v, flt)
            x = self.uid('x')
            names.append(x)
            return [ind + 'try:', sub + '%s = len(%s)' % (x, e), ind + 'except Exception:', sub + '%s = -1' % x]
        if k == 11:
            a, b, c = self.uid('u'), self.uid('u'), self.uid('u')
            names.extend([a, b])
            return [ind + '%s, *%s, %s = [%s, %s, %s, %s]' % (a, c, b, self.iexpr(names[:-2]), 1, 2, 3)]
        return self.simple(names, ctx, ind)

    def funcdef(self, names, depth, ind, gen):
        r = self.r
        self.fn += 1
        f = 'f%d' % self.fn
        sub = ind + '    '
        params = ['a', 'b=%d' % r.randrange(3)]
        if r.random() < 0.3:
            params.append('*rest')
        if r.random() < 0.3:
            params.append('k=%d' % r.randrange(3) if '*rest' in params else '*, k=1')
        inner = ['a', 'b']
        out = [ind + 'def %s(%s):' % (f, ', '.join(params))]
        if names and r.random() < 0.3 and depth > 0:
            # closure over an enclosing variable
            out += [sub + 'z = %s' % r.choice(names)]
            inner.append('z')
        body = self.block(inner, depth + 1, dict(loop=False, func=True, gen=gen, fin=False), sub)
        out += body
        if gen:
            out += [sub + 'yield a']
        else:
            out += [sub + 'return a']
        # drive it down several paths
        for args in ((0, 0), (1, 2), (2, 1), (3, 3)):
            if gen:
                call = 'for _g in %s(%d, %d): print("y", _g)' % (f, args[0], args[1])
                out += [ind + 'try:', sub + call, ind + 'except Exception:', sub + 'print("exc %s")' % f]
            else:
                out += [ind + 'try:', sub + 'print(%s(%d, %d))' % (f, args[0], args[1]), ind + 'except Exception:', sub + 'print("exc %s")' % f]
        return out

    def simple(self, names, ctx, ind):
        r = self.r
        k = r.randrange(16)
        if k < 3:
            v = self.uid('v')
            names.append(v)
            return [ind + '%s = %s' % (v, self.iexpr(names[:-1]))]
        if k < 5:
            return [ind + 'print(%s)' % self.iexpr(names)]
        if k == 5:
            vs = [n for n in names if n[0] in 'vx' and n[1:].isdigit()]
            if vs:
                return [ind + '%s += %s' % (r.choice(vs), self.iexpr(names))]
            return [ind + 'pass']
        if k == 6 and ctx.get('loop') and not ctx.get('fin'):
            return [ind + 'if %s:' % self.cond(names), ind + '    continue']
        if k == 7 and ctx.get('loop'):
            return [ind + 'if %s:' % self.cond(names), ind + '    break']
        if k == 8 and ctx.get('func'):
            return [ind + 'if %s:' % self.cond(names), ind + '    return %s' % self.iexpr(names)]
        if k == 9:
            return [ind + 'if %s:' % self.cond(names), ind + '    raise %s("r")' % r.choice(EXCS)]
        if k == 10 and ctx.get('gen'):
            v = self.uid('s')
            names.append(v)
            return [ind + '%s = yield %s' % (v, self.iexpr(names[:-1]))]
        if k == 11 and ctx.get('gen'):
            return [ind + 'yield from range(%s %% 3)' % self.iexpr(names)]
        if k == 12:
            d = self.uid('d')
            names.append(d)
            return [ind + '%s = {"k": %s}' % (d, self.iexpr(names[:-1])), ind + '%s["j"] = %s["k"]' % (d, d), ind + 'del %s["k"]' % d, ind + '%s = len(%s)' % (d, d)]
        if k == 13:
            return [ind + 'assert %s, "a"' % self.cond(names)]
        if k == 14:
            v = self.uid('l')
            names.append(v)
            return [ind + '%s = [1, 2, 3, 4][%s:%s]' % (v, self.iexpr(names[:-1]), self.iexpr(names[:-1])), ind + '%s = len(%s)' % (v, v)]
        return [ind + 'boom(%s)' % self.iexpr(names)]


def program(r, maxdepth=4, nstmts=4, maxstmts=3):
    g = Gen(r, maxdepth, maxstmts)
    lines = []
    names = []
    for _ in range(nstmts):
        st = g.stmt(names, 0, dict(loop=False, func=False, gen=False, fin=False), '')
        # each top-level statement is protected so the program keeps going down later paths
        lines += ['try:'] + ['    ' + l for l in st] + ['except Exception:', '    print("top-exc")']
    return PRELUDE + '\n'.join(lines) + '\n'


def raw_program(r, maxdepth=4, nstmts=4, maxstmts=3):
    """Same but without the protecting try at the top level (lets exceptions escape the module)."""
    g = Gen(r, maxdepth, maxstmts)
    lines = []
    names = []
    for _ in range(nstmts):
        lines += g.stmt(names, 0, dict(loop=False, func=False, gen=False, fin=False), '')
    return PRELUDE + '\n'.join(lines) + '\n'
