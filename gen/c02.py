"""C02 - control flow and exceptions take exactly Python's paths; none lost.
Monitor: vrun exec (stdout path trace, escaping exception type, traceback (function,line) list); oracle: CPython.

Programs are nests of for/while(+else), if/elif/else, try/except/else/finally (13 handler layouts), with (1 and 2
items, swallowing or not).  Every block starts with a *point* and has a point after every nested statement.  A point
prints its number and asks the action vector `a` (an argument list) what to do on this visit: nothing, raise directly,
raise implicitly (1 // 0), return, break, continue, bare re-raise / `raise e` (in handlers), call a function that raises
1..3 frames deep, take the else branch of a following `if`, flip the __exit__ result.  Iterators of for loops and
__enter__/__exit__ of context managers are points as well (they can only raise).  The same code object is driven
through several vectors in one program; the last invocation is not wrapped, so an escaping exception reaches the
embedder with its traceback."""
import itertools
import common
from common import rng, run_vrun, oracle_exec, short

PID = 'C02'
FINISH_KW = {'max_inconclusive_frac': 0.01}

VIS = 4          # visits of one point that can be addressed
EXC6 = ['ValueError', 'KeyError', 'ZeroDivisionError', 'LookupError', 'Exception', 'IndexError']
FAMILIES = ['ValueError', 'KeyError', 'IndexError', 'LookupError', 'ZeroDivisionError', 'ArithmeticError', 'TypeError', 'NameError', 'AttributeError', 'RuntimeError', 'Exception']

# try layouts: (handlers [(types, asname)], has_else, has_finally); types None = bare except
TRY = {
    'T1': ([(('ValueError',), False)], False, False),
    'T2': ([(('KeyError',), False), (('LookupError',), False)], False, False),
    'T3': ([(('LookupError',), False), (('KeyError',), False)], False, False),
    'T4': ([(('KeyError', 'ZeroDivisionError'), True)], False, False),
    'T5': ([(('Exception',), True)], False, False),
    'T6': ([(None, False)], False, False),
    'T7': ([], False, True),
    'T8': ([(('ValueError',), False)], True, False),
    'T9': ([(('ValueError',), False)], False, True),
    'T10': ([(('ValueError',), True)], True, True),
    'T11': ([(('KeyError',), True), (('ArithmeticError',), False), (None, False)], True, True),
    'TU1': ([(('E1',), False)], False, True),                                   # user-defined exception class
    'TU2': ([(('KeyError', 'E1'), True), (('Exception',), False)], False, False),
}


def nblocks(kind):
    if kind in TRY:
        h, e, f = TRY[kind]
        return 1 + len(h) + int(e) + int(f)
    return {'for': 1, 'forelse': 2, 'while': 1, 'whileelse': 2, 'if': 1, 'ifelse': 2, 'ifelif': 3, 'with': 1, 'withsw': 1, 'withtruthy': 1, 'with2': 1}[kind]


KINDS = ['for', 'forelse', 'while', 'whileelse', 'if', 'ifelse', 'ifelif', 'with', 'withsw', 'withtruthy', 'with2'] + list(TRY)


def coarse(kind):
    if kind in TRY:
        return 'try'
    if kind.startswith('for') or kind.startswith('while'):
        return 'loop'
    if kind.startswith('if'):
        return 'if'
    return 'with'


ACTNAME = {1: 'raise', 2: 'return', 3: 'break', 4: 'continue', 5: 'reraise', 6: 'raise-e', 7: 'implicit', 8: 'exitflip', 9: 'ifelse', 10: 'ifelse', 18: 'reraise-callee'}


def actname(code, pkind):
    if code >= 11 and code != 18:
        if pkind == 'iter':
            return 'iter-raise'
        if pkind == 'enter':
            return 'enter-raise'
        if pkind == 'exit':
            return 'exit-raise'
        return 'call-raise' if code < 20 else 'deep-raise'
    return ACTNAME[code]


PRELUDE = '''Z = [0] * 7
def mk(ps):
    a = [0] * %(size)d
    for p in ps:
        a[p[0]] = p[1]
    return a
def t(a, k):
    n = a[k]
    a[k] = n + 1
    print(k)
    if n > 3:
        return 0
    return a[%(np)d + k * 4 + n]
def r(x):
    if x == 11:
        raise ValueError
    if x == 12:
        raise KeyError(1)
    if x == 13:
        raise ZeroDivisionError
    if x == 14:
        raise LookupError("m")
    if x == 15:
        raise Exception("m")
    if x == 16:
        [][1]
%(user)s    if x > 20:
        r(x - 10)
def rr():
    raise
class CM:
    def __init__(self, a, k, sw):
        self.a = a
        self.k = k
        self.sw = sw
    def __enter__(self):
        x = t(self.a, self.k)
        r(x)
        return self
    def __exit__(self, et, ev, tb):
        if et is None:
            print("x0")
        else:
            print("x1")
        x = t(self.a, self.k + 1)
        r(x)
        if x == 8:
            return not self.sw
        return self.sw
class It:
    def __init__(self, a, k):
        self.a = a
        self.k = k
        self.i = 0
    def __iter__(self):
        return self
    def __next__(self):
        x = t(self.a, self.k)
        r(x)
        if self.i >= 2:
            raise StopIteration
        self.i = self.i + 1
        return self.i
def gen(a, k):
    i = 0
    while i < 2:
        x = t(a, k)
        r(x)
        i = i + 1
        yield i
'''
USER_R = '''    if x == 17:
        raise E1
'''
USER_CLS = '''class E1(ValueError):
    pass
'''


class Prog:
    """Renders one nest; records the points and the with-statement line tolerance."""

    def __init__(self, tree, lvl, rnd, static=None):
        self.tree = tree
        self.lvl = lvl                       # 'func' | 'module'
        self.rnd = rnd
        self.static = static or {}
        self.body = []                       # lines of the nest (without prelude)
        self.points = []                     # dicts: k, menu, pkind, chain, mult
        self.nk = 0
        self.nvar = 0
        self.userexc = self._has_user(tree)
        self.withlines = []                  # (header index in body, last body line index)
        self.truthy = False
        self.tries = []                      # per try statement: first point of the body, per handler (types, asname, own points, first point in each child)
        self.kinds = set()
        ind = 0
        if lvl == 'func':
            self.body.append('def f(a):')
            ind = 1
        ctx = {'func': lvl == 'func', 'loop': False, 'cont': False, 'mult': 1}
        self.block(ind, [tree], ctx, [], None)
        if lvl == 'func':
            self.body.append('    return 0')

    def _has_user(self, n):
        if n['kind'] in ('TU1', 'TU2'):
            return True
        return any(self._has_user(c) for b in n['blocks'] for c in b)

    def emit(self, ind, s):
        self.body.append('    ' * ind + s)

    def newk(self, n=1):
        k = self.nk
        self.nk += n
        return k

    def rkinds(self):
        m = [11, 12, 13, 14, 15, 16]
        if self.userexc:
            m.append(17)
        top = 17 if self.userexc else 16
        m.append(20 + self.rnd.randint(1, top - 10))
        m.append(30 + self.rnd.randint(1, top - 10))
        return m

    def point(self, ind, ctx, chain, handler, nxt):
        k = self.newk()
        menu = []
        st = self.static.get(k)
        self.emit(ind, 'x = t(a, %d)' % k)
        exc = self.rnd.choice(EXC6 + (['E1'] if self.userexc else []))
        form = self.rnd.choice(['%s', '%s(1)', '%s("m")'])
        stmts = {1: 'raise ' + form % exc, 2: 'return %d' % (100 + k), 3: 'break', 4: 'continue', 5: 'raise', 6: 'raise e', 18: 'rr()'}
        legal = [1]
        if ctx['func']:
            legal.append(2)
        if ctx['loop']:
            legal.append(3)
        if ctx['loop'] and ctx['cont']:
            legal.append(4)
        if handler is not None:
            legal.append(5)
            legal.append(18)          # a bare raise in a function called from the handler re-raises the exception being handled
            if handler:
                legal.append(6)
        rk = self.rkinds()
        if st is not None:
            # unconditional action at this point
            if st in stmts and st in legal:
                self.emit(ind, stmts[st])
            elif st == 7:
                self.emit(ind, 'q = 1 // (x - x)')
            else:
                self.emit(ind, 'r(%d)' % st)
            self.points.append({'k': k, 'menu': [], 'pkind': 'plain', 'chain': list(chain), 'mult': ctx['mult'], 'exc': exc, 'legal': legal, 'rk': rk, 'static': st, 'store': False})
            return k
        self.emit(ind, 'r(x)')
        menu += rk
        ifnext = nxt in ('if', 'ifelse', 'ifelif')
        store = (not ifnext) and self.rnd.random() < 0.5
        if store:
            self.emit(ind, 'Z[x] = 0')          # IndexError iff x == 7; STORE_SUBSCR is the last instruction of its line
        else:
            self.emit(ind, 'q = 1 // (x - 7)')
        menu.append(7)
        for code in legal:
            self.emit(ind, 'if x == %d:' % code)
            self.emit(ind + 1, stmts[code])
            menu.append(code)
        if nxt in ('if', 'ifelse'):
            menu.append(9)
        elif nxt == 'ifelif':
            menu += [9, 10]
        self.points.append({'k': k, 'menu': menu, 'pkind': 'plain', 'chain': list(chain), 'mult': ctx['mult'], 'exc': exc, 'legal': legal, 'rk': rk, 'store': store})
        return k

    def spoint(self, pkind, chain, ctx, n=1, extra=()):
        k = self.newk(n)
        for j in range(n):
            pk = pkind if n == 1 else ('enter', 'exit')[j]
            menu = self.rkinds() + (list(extra) if pk == 'exit' else [])
            mult = ctx['mult'] * (3 if pk == 'iter' else 1)
            self.points.append({'k': k + j, 'menu': menu, 'pkind': pk, 'chain': list(chain), 'mult': mult})
        return k

    def block(self, ind, children, ctx, chain, handler):
        """returns (own point ids, first plain point inside each child)"""
        pts = [self.point(ind, ctx, chain, handler, children[0]['kind'] if children else None)]
        firsts = []
        for i, ch in enumerate(children):
            start = len(self.points)
            self.node(ind, ch, ctx, chain)
            inner = [pt['k'] for pt in self.points[start:] if pt['pkind'] == 'plain']
            firsts.append(inner[0] if inner else None)
            pts.append(self.point(ind, ctx, chain, handler, children[i + 1]['kind'] if i + 1 < len(children) else None))
        return pts, firsts

    def node(self, ind, n, ctx, chain):
        kind = n['kind']
        self.kinds.add(kind)
        bl = n['blocks']
        ck = coarse(kind)

        def ch(b):
            return (chain + ['%s.%s' % (ck, b)])[-3:]
        if kind in ('for', 'forelse', 'while', 'whileelse'):
            inner = dict(ctx, loop=True, cont=True, mult=ctx['mult'] * 2)
            self.nvar += 1
            if kind.startswith('for'):
                itk = n.get('it', 0)
                if itk == 0:
                    it = 'range(2)'
                elif itk == 1:
                    it = '[5, 6]'
                elif itk == 2:
                    it = 'It(a, %d)' % self.spoint('iter', ch('iter'), ctx)
                else:
                    it = 'gen(a, %d)' % self.spoint('iter', ch('iter'), ctx)
                self.emit(ind, 'for i%d in %s:' % (self.nvar, it))
            else:
                w = 'w%d' % self.nvar
                self.emit(ind, '%s = 0' % w)
                self.emit(ind, 'while %s < 2:' % w)
                self.emit(ind + 1, '%s = %s + 1' % (w, w))
            self.block(ind + 1, bl[0], inner, ch('body'), None)
            if kind.endswith('else'):
                self.emit(ind, 'else:')
                self.block(ind + 1, bl[1], ctx, ch('else'), None)
        elif kind in ('if', 'ifelse', 'ifelif'):
            self.emit(ind, 'if x == 0:')
            self.block(ind + 1, bl[0], ctx, ch('body'), None)
            if kind == 'ifelif':
                self.emit(ind, 'elif x == 9:')
                self.block(ind + 1, bl[1], ctx, ch('elif'), None)
            if kind != 'if':
                self.emit(ind, 'else:')
                self.block(ind + 1, bl[-1], ctx, ch('else'), None)
        elif kind in TRY:
            hs, he, hf = TRY[kind]
            self.emit(ind, 'try:')
            bpts, _ = self.block(ind + 1, bl[0], ctx, ch('body'), None)
            trec = {'body': bpts[0], 'handlers': []}
            self.tries.append(trec)
            bi = 1
            for types, asn in hs:
                if types is None:
                    self.emit(ind, 'except:')
                else:
                    tx = types[0] if len(types) == 1 else '(' + ', '.join(types) + ')'
                    self.emit(ind, 'except %s%s:' % (tx, ' as e' if asn else ''))
                hpts, hfirsts = self.block(ind + 1, bl[bi], ctx, ch('except'), asn)
                trec['handlers'].append((types, asn, hpts, hfirsts))
                bi += 1
            if he:
                self.emit(ind, 'else:')
                self.block(ind + 1, bl[bi], ctx, ch('else'), None)
                bi += 1
            if hf:
                self.emit(ind, 'finally:')
                # 'continue' is illegal inside finally in 3.4 (until a new loop starts)
                self.block(ind + 1, bl[bi], dict(ctx, cont=False), ch('finally'), None)
        else:
            if kind == 'with2':
                k1 = self.spoint('cm', ch('cm'), ctx, 2, extra=(8,))
                k2 = self.spoint('cm', ch('cm'), ctx, 2, extra=(8,))
                self.emit(ind, 'with CM(a, %d, False) as c, CM(a, %d, False) as d:' % (k1, k2))
            else:
                k1 = self.spoint('cm', ch('cm'), ctx, 2, extra=(8,))
                if kind == 'withsw':
                    self.emit(ind, 'with CM(a, %d, True) as c:' % k1)
                elif kind == 'withtruthy':
                    self.truthy = True
                    self.emit(ind, 'with CM(a, %d, 1) as c:' % k1)   # __exit__ returns 1: true but not True
                else:
                    self.emit(ind, 'with CM(a, %d, False):' % k1)
            hdr = len(self.body) - 1
            self.block(ind + 1, bl[0], ctx, ch('body'), None)
            self.withlines.append((hdr, len(self.body) - 1))

    # ---- program text ------------------------------------------------------
    def prelude(self):
        np_ = self.nk
        return (USER_CLS if self.userexc else '') + PRELUDE % {'size': np_ * (1 + VIS), 'np': np_, 'user': USER_R if self.userexc else ''}

    def vec_literal(self, vec):
        np_ = self.nk
        return '[' + ', '.join('[%d, %d]' % (np_ + k * 4 + n, code) for (k, n, code) in vec) + ']'

    def source(self, vecs):
        """vecs: list of vectors; all but the last are wrapped. Returns (src, line offset of the nest, alt line map)."""
        pre = self.prelude()
        lines = pre.split('\n')[:-1]
        if self.lvl == 'func':
            off = len(lines)
            lines += self.body
            if len(vecs) > 1:
                lines.append('def drive(a):')
                lines.append('    print("--")')
                lines.append('    try:')
                lines.append('        print(f(a))')
                for fam in FAMILIES:
                    lines.append('    except %s:' % fam)
                    lines.append('        print("%s")' % fam)
                lines.append('    except:')
                lines.append('        print("other")')
            for i, v in enumerate(vecs):
                if i < len(vecs) - 1:
                    lines.append('drive(mk(%s))' % self.vec_literal(v))
                else:
                    lines.append('a = mk(%s)' % self.vec_literal(v))
                    lines.append('print("--")')
                    lines.append('print(f(a))')
        else:
            assert len(vecs) == 1
            lines.append('a = mk(%s)' % self.vec_literal(vecs[0]))
            lines.append('print("--")')
            off = len(lines)
            lines += self.body
        alt = {}
        for h, l in self.withlines:
            alt[off + h + 1] = off + l + 1      # 1-based line numbers
        return '\n'.join(lines) + '\n', alt


# ---- shapes ----------------------------------------------------------------

def mknode(kind, rnd):
    n = {'kind': kind, 'blocks': [[] for _ in range(nblocks(kind))]}
    if kind.startswith('for'):
        n['it'] = rnd.randrange(4)
    return n


def chains(depth):
    """All chains kind_1 > block > kind_2 > ... of exactly `depth` statements, as (kind, block index) tuples."""
    def rec(d):
        if d == 1:
            for k in KINDS:
                yield [(k, None)]
            return
        for k in KINDS:
            for b in range(nblocks(k)):
                for rest in rec(d - 1):
                    yield [(k, b)] + rest
    return rec(depth)


def chain_tree(chain, rnd):
    root = None
    cur = None
    for kind, b in chain:
        n = mknode(kind, rnd)
        if root is None:
            root = n
        else:
            cur[0]['blocks'][cur[1]].append(n)
        cur = (n, b)
    return root


def random_tree(depth, rnd, budget):
    """A random nest of exactly the given depth along one spine, with extra siblings while the budget lasts."""
    kind = rnd.choice(KINDS)
    n = mknode(kind, rnd)
    if depth > 1:
        spine = rnd.randrange(len(n['blocks']))
        for b in range(len(n['blocks'])):
            if b == spine:
                n['blocks'][b].append(random_tree(depth - 1, rnd, budget))
                if budget[0] > 0 and rnd.random() < 0.3:
                    budget[0] -= 1
                    n['blocks'][b].insert(rnd.randrange(2), random_tree(rnd.randint(1, max(1, depth - 2)), rnd, budget))
            elif budget[0] > 0 and rnd.random() < 0.25:
                budget[0] -= 1
                n['blocks'][b].append(random_tree(rnd.randint(1, max(1, depth - 2)), rnd, budget))
    return n


def shape_key(n):
    return n['kind'] + str(n.get('it', '')) + '(' + '|'.join(','.join(shape_key(c) for c in b) for b in n['blocks']) + ')'


# ---- vectors ---------------------------------------------------------------

def singles(p, visits=(0,)):
    out = []
    for pt in p.points:
        for code in pt['menu']:
            for n in visits:
                if n == 0 or pt['mult'] > n:
                    out.append((pt['k'], n, code))
    return out


def vectors(p, rnd, nsingle, npair, all_first_visit):
    s0 = singles(p, (0,))
    s1 = singles(p, (1, 2, 3))
    vecs = [()]
    if all_first_visit or len(s0) <= nsingle:
        vecs += [(s,) for s in s0]
    else:
        vecs += [(s,) for s in rnd.sample(s0, nsingle)]
    if s1:
        vecs += [(s,) for s in rnd.sample(s1, min(len(s1), max(2, nsingle // 4)))]
    allS = s0 + s1
    for _ in range(npair):
        a, b = rnd.choice(allS), rnd.choice(allS)
        if (a[0], a[1]) == (b[0], b[1]):
            continue
        v = [a, b]
        if rnd.random() < 0.25:
            c = rnd.choice(allS)
            if all((c[0], c[1]) != (y[0], y[1]) for y in v):
                v.append(c)
        vecs.append(tuple(v))
    return vecs


class _E1(ValueError):
    pass


CODE_EXC = {11: ValueError, 12: KeyError, 13: ZeroDivisionError, 14: LookupError, 15: Exception, 16: IndexError, 17: _E1}
NAME_EXC = {'ValueError': ValueError, 'KeyError': KeyError, 'ZeroDivisionError': ZeroDivisionError, 'LookupError': LookupError, 'Exception': Exception,
            'ArithmeticError': ArithmeticError, 'E1': _E1}


def guided(p):
    """Vectors aimed at handler blocks: raise in the try body something that this handler (and no earlier one) catches, optionally raise
    again inside a statement nested in the handler, then re-raise (bare raise / raise e) at each point of the handler block."""
    out = []
    for t in p.tries:
        bmenu = p.points[t['body']]['menu']
        for hi, (types, asn, pts, firsts) in enumerate(t['handlers']):
            c1 = None
            for code in sorted(CODE_EXC):
                if code not in bmenu:
                    continue
                first = None
                for hj, (ty, _, _, _) in enumerate(t['handlers']):
                    if ty is None or issubclass(CODE_EXC[code], tuple(NAME_EXC[x] for x in ty)):
                        first = hj
                        break
                if first == hi:
                    c1 = code
                    break
            if c1 is None:
                continue
            for i, pk in enumerate(pts):
                for act in [5, 18] + ([6] if asn else []):
                    if act not in p.points[pk]['menu']:
                        continue
                    out.append(((t['body'], 0, c1), (pk, 0, act)))
                    if i >= 1 and firsts[i - 1] is not None:
                        for c2 in (11, 12):
                            if c2 in p.points[firsts[i - 1]]['menu']:
                                out.append(((t['body'], 0, c1), (firsts[i - 1], 0, c2), (pk, 0, act)))
    return out


def vec_tags(p, vec):
    tags = []
    for k, n, code in vec:
        pt = p.points[k]
        tags.append('%s@%s' % (actname(code, pt['pkind']), '>'.join(pt['chain'][-2:]) or 'top'))
    return sorted(set(tags))


def vec_taint(p, vec):
    t = set()
    if p.userexc:
        t.add('userexc')
    if p.truthy:
        t.add('truthy-exit')
    for k, n, code in vec:
        pt = p.points[k]
        if pt['pkind'] == 'iter' and code >= 11:
            t.add('iterraise')
        if code == 6:
            t.add('raise-e')
        if code == 18:
            t.add('reraise-callee')
        if code == 7 and pt.get('store'):
            t.add('eol-raise')
    for code in p.static.values():
        if code == 6:
            t.add('raise-e')
        if code == 18:
            t.add('reraise-callee')
        if code in (1, 5, 6):
            t.add('eol-raise')
    return t


# ---- the check -------------------------------------------------------------

CANARY = [
    ('print(1)\nprint("a")\n', None),
    ('def f(a):\n    print(a[0])\n    return 3\nprint(f([7]))\n', None),
    ('for i in range(2):\n    print(i)\nelse:\n    print(9)\n', None),
    ('try:\n    raise ValueError\nexcept ValueError:\n    print(1)\nfinally:\n    print(2)\n', None),
    ('def f():\n    raise KeyError(1)\ndef g():\n    f()\ng()\n', None),
    ('w = 0\nwhile w < 2:\n    w = w + 1\n    if w == 1:\n        continue\n    print(w)\n', None),
]


def split_inv(out):
    parts = out.split('--\n')
    return parts[0], parts[1:]


def run(tier, rep):
    rnd = rng(PID, 'shapes')
    quick = tier == 'quick'
    G = 8                                       # invocations per function-level case
    progs = []                                  # (Prog, vectors, class tag)

    # ---- canary (same vocabulary: prelude + one trivial nest) --------------
    can = []
    for i, (src, _) in enumerate(CANARY):
        can.append({'id': 'can%d' % i, 'src': src})
    cp = Prog(chain_tree([('T10', None)], rnd), 'func', rng(PID, 'canary'))
    src, _ = cp.source([(), ((0, 0, 11),), ((0, 0, 12),)])
    can.append({'id': 'canP', 'src': src})
    ce = oracle_exec(can)
    cg, _ = run_vrun('exec', can, timeout_case=20)
    for c in can:
        e, g = ce.get(c['id'], {}), cg.get(c['id'], {})
        if e.get('oracle_failed') or any(e.get(k) != g.get(k) for k in ('out', 'exc')) or g.get('panic') or g.get('cerr') or e.get('cerr'):   # tracebacks are the property, not the vocabulary
            rep.broke('canary %s disagrees: expected %s got %s' % (c['id'], short(e), short(g)))
    if rep.broken:
        return

    # ---- enumerate programs --------------------------------------------------
    def add_prog(tree, lvl, cls, nsingle, npair, allfirst, nstatic=0):
        prnd = rng(PID, 'p%d' % len(progs))
        p = Prog(tree, lvl, prnd)
        if p.userexc and not allfirst:
            nsingle, npair = max(4, nsingle // 3), max(3, npair // 3)   # user-defined exception classes do not work at all (known finding)
        vs = vectors(p, prnd, nsingle, npair, allfirst)
        if lvl == 'module' and len(vs) > 1 + nsingle:
            vs = [vs[0]] + prnd.sample(vs[1:], nsingle)
        gv = guided(p)
        if lvl == 'module' and len(gv) > 6:
            gv = prnd.sample(gv, 6)
        vs += [v for v in gv if v not in vs]
        progs.append((p, vs, cls))
        for _ in range(nstatic):
            # unconditional variant of one (point, action)
            cands = [pt for pt in p.points if pt['pkind'] == 'plain']
            pt = prnd.choice(cands)
            code = prnd.choice(pt['legal'] + [7] + pt['rk'][:3])
            sp = Prog(tree, lvl, rng(PID, 'p%d' % (len(progs) - 1)), static={pt['k']: code})
            svs = [()] + [(s,) for s in prnd.sample(singles(sp), min(5, len(singles(sp))))]
            if lvl == 'module':
                svs = svs[:3]
            progs.append((sp, svs, cls + '-static'))

    exh = 2 if quick else 3
    for d in range(1, exh + 1):
        for ci, ch in enumerate(chains(d)):
            tree = chain_tree(ch, rnd)
            if d == 1:
                for itk in range(4) if ch[0][0].startswith('for') else [0]:
                    if 'it' in tree:
                        tree = dict(tree, it=itk)
                    add_prog(tree, 'func', 'd1', 10 ** 6, 200, True, nstatic=4)
                    add_prog(tree, 'module', 'd1', 40, 20, False, nstatic=2)
            elif d == 2:
                if quick:
                    add_prog(tree, 'func', 'd2', 24, 18, False, nstatic=1)
                    if ci % 3 == 0:
                        add_prog(tree, 'module', 'd2', 8, 6, False)
                else:
                    add_prog(tree, 'func', 'd2', 10 ** 6, 80, True, nstatic=2)
                    add_prog(tree, 'module', 'd2', 24, 12, False, nstatic=1)
            else:
                add_prog(tree, 'func' if ci % 4 else 'module', 'd3', 8, 6, False)
    # sampled deeper / wider nests
    nsamp = 900 if quick else 6000
    for i in range(nsamp):
        d = exh + 1
        tree = random_tree(d, rnd, [3])
        add_prog(tree, 'func' if i % 5 else 'module', 'd%ds' % d, 20, 19, False, nstatic=1 if i % 4 == 0 else 0)

    # ---- run in batches ------------------------------------------------------
    nontriv = set()
    stats = {'programs': len(progs), 'cases': 0, 'invocations': 0, 'escaping_exceptions_compared': 0, 'tb_frames_compared': 0,
             'with_exit_line_tolerance_used': 0, 'verify_cases': 0, 'verify_static_errors': 0, 'verify_dynamic_errors': 0,
             'clean_invocations': 0, 'tainted_invocations': 0, 'by_class': {}}
    tags_seen = set()
    clean_tags = set()
    kinds_seen = set()
    verify_samples = []
    samples = []
    caseno = [0]
    srcbytes = [0]
    bases = {}

    import time as _time
    phase = {'oracle_s': 0.0, 'vrun_s': 0.0}

    def flush(batch):
        if not batch:
            return
        cases = [b['case'] for b in batch]
        t0 = _time.time()
        exp = oracle_exec(cases)
        t1 = _time.time()
        got, _ = run_vrun('exec', cases, timeout_case=30, envx={'GOMAXPROCS': '2'})
        phase['oracle_s'] += t1 - t0
        phase['vrun_s'] += _time.time() - t1
        for b in batch:
            judge(b, exp.get(b['case']['id']), got.get(b['case']['id']))

    def judge(b, e, g):
        p, vecs, case, alt = b['p'], b['vecs'], b['case'], b['alt']
        stats['cases'] += 1
        if e is None or e.get('oracle_failed') or g is None:
            rep.inconc('no oracle/gpython result for %s: %s' % (case['id'], short(e if g is not None else g)))
            return
        if e.get('exc') == 'TimeoutError':
            rep.inconc('oracle watchdog fired inside %s' % case['id'])     # the SIGALRM handler of the oracle pool raises TimeoutError into the program
            return
        if e.get('cerr'):
            rep.broke('generator produced a program CPython rejects: %s' % short(e))
            return
        if g.get('timeout') or g.get('wall_timeout') or g.get('shard_failed'):
            rep.inconc('timeout %s' % case['id'])
            return
        rep.evaluations += len(vecs)
        stats['invocations'] += len(vecs)
        kinds_seen.update(p.kinds)
        if case.get('verify'):
            stats['verify_cases'] += 1
            stats['verify_static_errors'] += len(g.get('verrs') or [])
            stats['verify_dynamic_errors'] += len(g.get('dynerrs') or [])
            if (g.get('verrs') or g.get('dynerrs')) and len(verify_samples) < 5:
                verify_samples.append({'case': case['id'], 'verrs': short(g.get('verrs')), 'dynerrs': short(g.get('dynerrs')), 'src': case['src']})
        lvl = p.lvl
        _, einv = split_inv(e.get('out', ''))
        _, ginv = split_inv(g.get('out', ''))
        # measured non-triviality: the invocation's trace differs from the all-nothing trace of the same program
        if b['first'] and einv:
            bases[b['pkey']] = einv[0]
        base = bases.get(b['pkey'])
        for i, v in enumerate(vecs):
            tr = einv[i] if i < len(einv) else None
            isl = i == len(vecs) - 1
            key = (b['pkey'], v)
            if v and (base is None or tr != base or (isl and e.get('exc'))):
                nontriv.add(key)
            tg = [x.split('>')[-1] if '@' not in x.split('>')[-1] else x for x in vec_tags(p, v)]
            tg = [x.split('@')[0] + '@' + x.split('@')[1].split('>')[-1] for x in vec_tags(p, v)]
            tags_seen.update(tg)
            if vec_taint(p, v):
                stats['tainted_invocations'] += 1
            else:
                stats['clean_invocations'] += 1
                clean_tags.update(tg)
        witness = {'case': case, 'vectors': [list(map(list, v)) for v in vecs], 'expected': {k: e.get(k) for k in ('out', 'exc', 'tb')},
                   'got': {k: short(g.get(k), 3000) for k in ('out', 'exc', 'excmsg', 'tb', 'cerr', 'panic', 'stack', 'crash', 'log_tail') if g.get(k)}}

        def sig(dev, j):
            v = vecs[j] if j is not None and j < len(vecs) else ()
            tt = vec_taint(p, v)
            # primary taint: the one known defect class (if any) that can explain this kind of deviation
            if 'reraise-callee' in tt and ('exc-wrong:RuntimeError' in dev or dev.startswith('path')):
                ta = 'reraise-callee'
            elif 'userexc' in tt:
                ta = 'userexc'
            elif 'iterraise' in tt:
                ta = 'iterraise'
            elif 'truthy-exit' in tt and dev.startswith('path'):
                ta = 'truthy-exit'
            elif 'raise-e' in tt and dev == 'tb-shorter':
                ta = 'raise-e'
            elif 'eol-raise' in tt and dev == 'tb-line':
                ta = 'eol-raise'
            else:
                ta = 'clean'
            tl = vec_tags(p, v)
            if dev.startswith('tb-'):
                tl = sorted({x.split('@')[0] for x in tl})      # traceback deviations: the kind of raising action, not its site
            tg = '+'.join(tl) or 'nothing'
            if p.static:
                tg += '+static'
            return 'C02|taint=%s|%s|%s|%s' % (ta, dev, lvl, tg)
        if g.get('panic') or g.get('crash') or g.get('harness_panic'):
            rep.violation(sig('panic', len(ginv) - 1 if ginv else 0), witness)
            return
        if g.get('cerr'):
            rep.violation(sig('cerr:%s' % g.get('cerr'), None), witness)
            return
        devs = []
        j = None
        if e.get('out') != g.get('out'):
            for i in range(max(len(einv), len(ginv))):
                if i >= len(einv) or i >= len(ginv) or einv[i] != ginv[i]:
                    j = i
                    break
            if j is None:
                j = 0
            devs.append('path')
        last = len(vecs) - 1
        if j is None or j == last:
            ee, ge = e.get('exc'), g.get('exc')
            if ee == 'UnboundLocalError':
                ee = 'NameError'            # one family
            if ge == 'UnboundLocalError':
                ge = 'NameError'
            if ee != ge:
                if ee and not ge:
                    devs.append('exc-lost')
                elif ge and not ee:
                    devs.append('exc-spurious:%s' % ge)
                else:
                    devs.append('exc-wrong:%s' % ge)
                j = last
            elif ee:
                stats['escaping_exceptions_compared'] += 1
                etb = [tuple(x) for x in e.get('tb') or []]
                gtb = [tuple(x) for x in g.get('tb') or []]
                stats['tb_frames_compared'] += len(etb)
                if len(gtb) < len(etb) and 'raise-e' in vec_taint(p, vecs[last] if last < len(vecs) else ()) and gtb == etb[:len(gtb)] and gtb:
                    # 'raise e' of a previously caught instance: CPython appends the entries of the instance's EARLIER traceback
                    # (the original raise site) after the frame of the re-raising statement. The property demands the line of the
                    # raising statement and of every active call - exactly the prefix gpython reports - so this is not a deviation.
                    stats['raise_e_prefix_tolerance_used'] = stats.get('raise_e_prefix_tolerance_used', 0) + 1
                elif len(gtb) < len(etb):
                    devs.append('tb-shorter')
                elif len(gtb) > len(etb):
                    devs.append('tb-longer')
                else:
                    for fi, (a_, b_) in enumerate(zip(etb, gtb)):
                        if a_[0] != b_[0]:
                            devs.append('tb-func')
                            break
                        if a_[1] != b_[1]:
                            # 3.4 attributes the __exit__ call to the textually last line of the with body, 3.11 to the with line
                            if a_[1] in alt and b_[1] == alt[a_[1]] and fi + 1 < len(etb) and etb[fi + 1][0] == '__exit__':
                                stats['with_exit_line_tolerance_used'] += 1
                                continue
                            devs.append('tb-line')
                            break
                if devs:
                    j = last
        if devs:
            rep.violation(sig('+'.join(devs), j), witness)

    batch = []
    BATCH = 6000
    for pi, (p, vs, cls) in enumerate(progs):
        stats['by_class'][cls] = stats['by_class'].get(cls, 0) + 1
        pkey = (shape_key(p.tree), p.lvl, tuple(sorted(p.static.items())))
        # order: put vectors with a raising action last in each group so that escaping exceptions are observed with tb
        groups = []
        if p.lvl == 'module':
            groups = [[v] for v in vs]
        else:
            rest = list(vs[1:])
            prnd = rng(PID, 'g%d' % pi)
            prnd.shuffle(rest)
            rest = [vs[0]] + rest
            for i in range(0, len(rest), G):
                grp = rest[i:i + G]
                # last element: prefer one with a raise-like code
                for x in range(len(grp) - 1, -1, -1):
                    if any(code in (1, 5, 6, 7) or code >= 11 for (_, _, code) in grp[x]):
                        grp.append(grp.pop(x))
                        break
                groups.append(grp)
        base = None
        for grp in groups:
            src, alt = p.source(grp)
            cid = 'c%d' % caseno[0]
            caseno[0] += 1
            case = {'id': cid, 'src': src}
            srcbytes[0] += len(src)
            if caseno[0] % 4 == 0:
                case['verify'] = True
            batch.append({'p': p, 'vecs': grp, 'case': case, 'alt': alt, 'pkey': pkey, 'base': None, 'first': grp[0] == ()})
            if len(samples) < 3 and cls in ('d2', 'd3s', 'd3') and pi % 97 == 5 and grp is groups[-1]:
                samples.append({'class': cls, 'level': p.lvl, 'vectors(point,visit,action)': [list(map(list, v)) for v in grp], 'nest': '\n'.join(p.body)})
        if len(batch) >= BATCH:
            flush(batch)
            batch = []
    flush(batch)

    # ---- directed family: a way out is pending while a finally body / with-exit runs loops with exits of their own or suspends a generator;
    # every way out of every clause of every try layout directly inside a loop (gen/pendexit.py)
    import pendexit
    pe = pendexit.programs() + pendexit.handler_clause_programs()
    pcases = [{'id': q['id'], 'src': q['src'], 'verify': True} for q in pe]
    pexp = oracle_exec(pcases)
    pgot, _ = run_vrun('exec', pcases, timeout_case=30)
    stats['pending_exit_programs'] = 0
    for q in pe:
        e, g = pexp.get(q['id']) or {}, pgot.get(q['id'])
        if g is None or e.get('oracle_failed') or e.get('cerr') or g.get('timeout'):
            rep.inconc('pending-exit program %s: no result / oracle failed' % q['id'])
            continue
        rep.evaluations += 1
        stats['pending_exit_programs'] += 1
        nontriv.add(('pendexit', q['id']))
        if g.get('panic') or g.get('crash') or g.get('cerr') or g.get('out') != e.get('out') or (g.get('exc') or None) != (e.get('exc') or None) or g.get('verrs') or g.get('dynerrs'):
            dev = 'panic' if g.get('panic') or g.get('crash') else ('cerr' if g.get('cerr') else ('path' if g.get('out') != e.get('out') else ('exc' if (g.get('exc') or None) != (e.get('exc') or None) else 'bytecode')))
            rep.violation('C02|%s|outer=%s|inner=%s|%s' % (q['family'], q['outer'], q['inner'].split(':')[0] if q['family'] not in ('exit-from-clause', 'handler-clause-validation', 'raise-of-non-exception') else q['inner'], dev),
                          {'case': {'id': q['id'], 'src': q['src']}, 'expected': {k: e.get(k) for k in ('out', 'exc')},
                           'got': {k: short(g.get(k), 2500) for k in ('out', 'exc', 'excmsg', 'tb', 'cerr', 'panic', 'stack', 'verrs', 'dynerrs') if g.get(k)}})
    rep.nontrivial = nontriv
    rep.samples = samples
    rep.rule = ('programs = every chain of compound statements (24 kinds: for/while with and without else over range/list/user-iterator/generator, if/else/elif, '
                '13 try layouts, with/with-swallow(True)/with-swallow(1)/2-item with; each block of the parent is a position) to depth %d exhaustively, depth %d sampled with extra siblings, '
                'inside a function and at module level; inputs = action vectors (point, visit, action) - all single first-visit actions (sampled beyond depth 1 in quick), '
                'sampled later visits, sampled pairs/triples, plus unconditional-action variants. distinct non-trivial = distinct (program shape, level, vector) whose CPython '
                'trace differs from the all-nothing run of the same program (the action fired and changed the path)' % (exh, exh + 1))
    stats['distinct_action_site_tags'] = len(tags_seen)
    stats['action_site_tags_with_clean_cases'] = len(clean_tags)
    stats['statement_kinds_seen'] = sorted(kinds_seen)
    stats['verify_samples'] = verify_samples
    stats['phase_seconds'] = {k: round(v, 1) for k, v in phase.items()}
    stats['source_bytes'] = srcbytes[0]
    rep.extra = stats
    untested = sorted(t for t in tags_seen - clean_tags if not t.startswith(('iter-raise', 'raise-e', 'reraise-callee')))
    if untested:
        rep.extra['tags_without_clean_cases'] = untested[:20]
    rep.assumptions = ['CPython 3.11 is the reference; only exception types are compared, never messages',
                       'traceback = (function, line) of the frames of the case file; one statement per physical line',
                       'an exception raised by __exit__: the frame containing the with statement may report the textually last line of the with body (3.4) or the with line (3.11)',
                       "'continue' is never generated inside a finally clause (illegal in 3.4)",
                       'NameError and UnboundLocalError are one family (not generated on purpose)']
