"""C09 - Context Close/Done are safe under every interleaving with execution.
Monitor: vrun -mode life (controlled scheduler at the H1 yield points + trace checker + porcupine latch model +
deadlock detection by goroutine-state inspection), and a free-running stress under the race detector."""
import json, os, re, subprocess, shutil, itertools, concurrent.futures
import common
from common import rng

PID = 'C09'
FINISH_KW = {'max_inconclusive_frac': 0.02}

EXEC = ['run', 'modinit', 'resolve']


def scenarios(tier):
    """(name, goroutine op lists, mode) ; mode: 'fine' exhaustive, 'coarse' exhaustive, 'pb<k>' = fine with preemption bound k,
    'cpb<k>' = coarse with preemption bound k"""
    S = []
    # single goroutine sequences (post-Close requests must fail with an ordinary error; double Close)
    for e in EXEC:
        S.append(('seq:close,%s' % e, [['close', e]], 'fine'))
        S.append(('seq:%s,close,%s' % (e, e), [[e, 'close', e]], 'fine'))
    S.append(('seq:close,close,run', [['close', 'close', 'run']], 'fine'))
    S.append(('seq:closedone,run', [['closedone', 'run']], 'fine'))
    # fault injection: an admitted execution ends in a Go panic of a native callable (recovered by the embedder);
    # the context must still close (no leaked admission) and later requests must still be refused
    S.append(('seq:runpanic,close,run', [['runpanic', 'close', 'run']], 'fine'))
    S.append(('seq:runpanic,run,closedone', [['runpanic', 'run', 'closedone']], 'fine'))
    S.append(('runpanic|close', [['runpanic'], ['close']], 'coarse'))
    S.append(('runpanic|closedone', [['runpanic'], ['closedone']], 'coarse'))
    # two goroutines
    S.append(('run|close', [['run'], ['close']], 'fine'))
    S.append(('resolve|close', [['resolve'], ['close']], 'fine'))
    S.append(('run|closedone', [['run'], ['closedone']], 'fine'))
    S.append(('close|close', [['close'], ['close']], 'fine'))
    S.append(('close|closedone', [['close'], ['closedone']], 'fine'))
    S.append(('donewait|close', [['donewait'], ['close']], 'fine'))
    S.append(('modinit|close', [['modinit'], ['close']], 'coarse'))
    S.append(('modinit|close/pb', [['modinit'], ['close']], 'pb2' if tier == 'quick' else 'pb3'))
    S.append(('close,run|run', [['close', 'run'], ['run']], 'coarse' if tier == 'quick' else 'fine'))
    S.append(('run,run|close', [['run', 'run'], ['close']], 'coarse' if tier == 'quick' else 'fine'))
    S.append(('run|close,run', [['run'], ['close', 'run']], 'coarse' if tier == 'quick' else 'fine'))
    # three goroutines
    three = [
        ('run|close|close', [['run'], ['close'], ['close']]),
        ('run|run|close', [['run'], ['run'], ['close']]),
        ('run|close|donewait', [['run'], ['close'], ['donewait']]),
        ('run|closedone|close', [['run'], ['closedone'], ['close']]),
        ('resolve|run|close', [['resolve'], ['run'], ['close']]),
        ('modinit|close|close', [['modinit'], ['close'], ['close']]),
        ('close,run|run|close', [['close', 'run'], ['run'], ['close']]),
    ]
    for n, g in three:
        if tier == 'quick':
            S.append((n + '/cpb2', g, 'cpb2'))
        else:
            S.append((n + '/cpb3', g, 'cpb3'))
            S.append((n + '/pb2', g, 'pb2'))
    if tier == 'thorough':
        S.append(('run|close|close/coarse', [['run'], ['close'], ['close']], 'coarse'))
        S.append(('run|run|close/coarse', [['run'], ['run'], ['close']], 'coarse'))
    return S


def job_of(name, gs, mode):
    j = {'scenario': {'name': name, 'gs': gs}, 'fine': True, 'max_preempt': -1}
    if mode == 'coarse':
        j['fine'] = False
    elif mode.startswith('cpb'):
        j['fine'] = False
        j['max_preempt'] = int(mode[3:])
    elif mode.startswith('pb'):
        j['max_preempt'] = int(mode[2:])
    return j


def run_jobs(binary, jobfiles, env, wall):
    """jobfiles: list of lists of jobs; one process per list. Returns list of (outputs, rc, log)."""
    d = common.scratch_dir('life-')

    def one(i):
        inp = os.path.join(d, 'in%d.jsonl' % i)
        outp = os.path.join(d, 'out%d.jsonl' % i)
        with open(inp, 'w') as f:
            for j in jobfiles[i]:
                f.write(json.dumps(j) + '\n')
        logp = os.path.join(d, 'log%d' % i)
        with open(logp, 'wb') as lf:
            try:
                p = subprocess.run([binary, '-mode', 'life', '-in', inp, '-out', outp, '-seed', str(common.seed())], stdout=lf, stderr=lf, env=env, timeout=wall, cwd=d)
                rc = p.returncode
            except subprocess.TimeoutExpired:
                rc = -999
        outs = []
        if os.path.exists(outp):
            for line in open(outp):
                line = line.strip()
                if line:
                    try:
                        outs.append(json.loads(line))
                    except Exception:
                        pass
        tail = open(logp, errors='replace').read()[-3000:]
        return outs, rc, tail, len(jobfiles[i])
    with concurrent.futures.ThreadPoolExecutor(max_workers=max(1, len(jobfiles))) as ex:
        res = list(ex.map(one, range(len(jobfiles))))
    return res, d


def norm(s):
    return re.sub(r'\d+', 'N', s)[:160]


def run(tier, rep):
    binary = common.build()
    env = common.go_env()
    S = scenarios(tier)
    W = common.NCPU
    # phase 1: probe prefixes for every scenario so the DFS can be partitioned over processes
    probe_jobs = []
    for name, gs, mode in S:
        j = job_of(name, gs, mode)
        j['probe_depth'] = 7
        probe_jobs.append(j)
    files = [probe_jobs[i::W] for i in range(W)]
    files = [f for f in files if f]
    res, d = run_jobs(binary, files, env, 600)
    shutil.rmtree(d, ignore_errors=True)
    prefixes = {}
    for outs, rc, tail, n in res:
        if rc != 0 or len(outs) != n:
            rep.broke('prefix probe process failed rc=%s: %s' % (rc, tail[-400:]))
        for o in outs:
            prefixes[o['scenario']] = o.get('prefixes') or [[]]
    # phase 2: exhaustive / bounded DFS below each prefix
    jobs = []
    for name, gs, mode in S:
        for pf in prefixes.get(name, [[]]):
            j = job_of(name, gs, mode)
            j['prefix'] = pf
            if tier == 'thorough':
                j['limit'] = 2500     # per prefix job: keeps the thorough tier bounded; a cut job is reported as not exhaustive
            jobs.append(j)
    r = rng(PID, 'shuffle')
    r.shuffle(jobs)
    # phase 2b: seeded random schedules (fine granularity) on the 3-goroutine scenarios
    nrand = 150 if tier == 'quick' else 1500
    for name, gs, mode in S:
        if len(gs) == 3:
            for part in range(2 if tier == 'quick' else 8):
                jobs.append({'scenario': {'name': name.split('/')[0] + '/random', 'gs': gs}, 'fine': True, 'max_preempt': -1, 'random': nrand, 'part': part})
    files = [jobs[i::W] for i in range(W)]
    files = [f for f in files if f]
    res, d = run_jobs(binary, files, env, 1500 if tier == 'quick' else 5400)
    shutil.rmtree(d, ignore_errors=True)
    agg = {}
    total_sched = 0
    total_steps = 0
    total_porc = 0
    traces = 0
    samples = []
    for outs, rc, tail, n in res:
        if rc == -999:
            rep.inconc('a scheduler process hit the wall-clock cap')
        elif rc != 0:
            rep.violation('C09|process-abort', {'rc': rc, 'log_tail': tail})
        elif len(outs) != n:
            rep.inconc('a scheduler process returned %d of %d jobs' % (len(outs), n))
        for o in outs:
            a = agg.setdefault(o['scenario'], {'schedules': 0, 'steps': 0, 'distinct_traces': 0, 'exhaustive': True, 'outcomes': {}, 'deadlocks': 0, 'inconclusive': 0, 'max_preempt': 0})
            a['schedules'] += o['schedules']
            a['steps'] += o['steps']
            a['distinct_traces'] += o['distinct_traces']
            a['exhaustive'] = a['exhaustive'] and o['exhaustive']
            a['deadlocks'] += o['deadlocks']
            a['inconclusive'] += o['inconclusive']
            a['max_preempt'] = max(a['max_preempt'], o.get('max_preempt_seen', 0))
            for k, v in (o.get('outcomes') or {}).items():
                a['outcomes'][k] = a['outcomes'].get(k, 0) + v
            total_sched += o['schedules']
            total_steps += o['steps']
            total_porc += o.get('porcupine_ops', 0)
            traces += o['distinct_traces']
            for w in (o.get('inconclusive_why') or []):
                pass
            for _ in range(o['inconclusive']):
                rep.inconc('%s: %s' % (o['scenario'], (o.get('inconclusive_why') or ['?'])[0]))
            for v in (o.get('violations') or []):
                sig = 'C09|%s|%s' % (o['scenario'].split('/')[0], norm(v['what'][0]))
                rep.violation(sig, {'what': v['what'], 'schedule': v.get('schedule'), 'trace': v.get('trace'), 'events': v.get('events'), 'scenario': v.get('scenario'), 'fine': v.get('fine'), 'mode': v.get('mode')})
            if o.get('sample_trace') and len(samples) < 4 and len(o['scenario'].split('|')) >= 2:
                samples.append({'scenario': o['scenario'], 'schedule_trace': o['sample_trace'], 'events': [(e['t'], 'g%d' % e['g'], e['k'], e.get('op', ''), e.get('res', '')) for e in (o.get('sample_events') or [])][:40]})
    rep.evaluations += total_sched
    nontriv = set()
    for name, a in agg.items():
        for k in a['outcomes']:
            nontriv.add((name, k))
    # ---- phase 3: free-running stress under the race detector ----
    rbin = common.build(race=True)
    renv = common.go_env()
    rd = common.scratch_dir('life-race-')
    renv['GORACE'] = 'halt_on_error=0 log_path=%s' % os.path.join(rd, 'race')
    rounds = 96 if tier == 'quick' else 900
    free_scen = [
        ('free:run,run,run|close|close|donewait', [['run', 'run', 'run'], ['close'], ['close'], ['donewait']]),
        ('free:run,resolve,modinit|closedone|close', [['run', 'resolve', 'modinit'], ['closedone'], ['close']]),
        ('free:modinit,run|close,run|donewait|closedone', [['modinit', 'run'], ['close', 'run'], ['donewait'], ['closedone']]),
        ('free:run,run|close|close|close|close', [['run', 'run'], ['close'], ['close'], ['close'], ['close']]),
        ('free:run,run,run|run,run,run|close|donewait', [['run', 'run', 'run'], ['run', 'run', 'run'], ['close'], ['donewait']]),
        ('free:runpanic,run|close|closedone', [['runpanic', 'run'], ['close'], ['closedone']]),
    ]
    fjobs = []
    for name, gs in free_scen:
        for k in range(4):
            fjobs.append({'scenario': {'name': name, 'gs': gs}, 'free': rounds // 4, 'fine': True, 'max_preempt': -1})
    files = [fjobs[i::W] for i in range(W)]
    files = [f for f in files if f]
    res, d = run_jobs(rbin, files, renv, 1200 if tier == 'quick' else 3600)
    shutil.rmtree(d, ignore_errors=True)
    free_rounds = 0
    free_outcomes = set()
    for outs, rc, tail, n in res:
        if rc == -999:
            rep.inconc('free-running process hit the wall-clock cap')
        elif rc != 0 and rc != 66:
            rep.violation('C09|free|process-abort', {'rc': rc, 'log_tail': tail})
        for o in outs:
            free_rounds += o['schedules']
            for k in (o.get('outcomes') or {}):
                free_outcomes.add((o['scenario'], k))
            for _ in range(o['inconclusive']):
                rep.inconc('%s: %s' % (o['scenario'], (o.get('inconclusive_why') or ['?'])[0]))
            for v in (o.get('violations') or []):
                sig = 'C09|free|%s' % norm(v['what'][0])
                rep.violation(sig, {'what': v['what'], 'events': v.get('events'), 'scenario': v.get('scenario'), 'mode': 'free'})
    races = common.collect_race_reports(rd)
    shutil.rmtree(rd, ignore_errors=True)
    life_races = [b for b in races if 'stdlib.(*context)' in b]
    for b in life_races:
        fr = [l.strip() for l in b.split('\n') if 'stdlib.(*context)' in l]
        rep.violation('C09|race|%s' % norm('|'.join(sorted(set(re.sub(r'\(.*', '', f) for f in fr)))[:120]), {'race_report': b[:3000]})
    rep.evaluations += free_rounds
    nontriv |= free_outcomes
    # "Close may be called at any time": Close called again from inside a module's close callback, on the same goroutine (direct mode
    # lifereenter; the verdict is structural - the closing goroutine waits inside Close for something an outer Close of its own holds)
    rd = common.scratch_dir('vrun-reenter-')
    try:
        outp = os.path.join(rd, 'out.json')
        try:
            subprocess.run([binary, '-mode', 'lifereenter', '-out', outp], stdout=subprocess.DEVNULL, stderr=subprocess.DEVNULL, env=env, timeout=120, cwd=rd)
            ro = json.load(open(outp))
        except Exception as e:
            ro = {'verdict': 'inconclusive', 'error': repr(e)}
    finally:
        shutil.rmtree(rd, ignore_errors=True)
    rep.evaluations += 1
    if ro.get('verdict') == 'deadlock':
        rep.violation('C09|reentrant-close|deadlock: Close called from a module close callback never returns', {'mode': 'lifereenter', 'observation': ro})
    elif ro.get('verdict') == 'returned':
        nontriv.add(('reentrant-close', 'returned', ro.get('callbacks'), ro.get('done')))
        if ro.get('callbacks') != 1:
            rep.violation('C09|reentrant-close|close callbacks ran %s times' % ro.get('callbacks'), {'mode': 'lifereenter', 'observation': ro})
    else:
        rep.inconc('re-entrant Close probe: %s' % common.short(ro, 300))
    # "module close callbacks have run exactly once" over module histories (direct mode lifemods): failing then successful imports of a
    # registered module with a close callback, repeated imports, a second module; a counter per module object
    rd = common.scratch_dir('vrun-lifemods-')
    try:
        outp = os.path.join(rd, 'out.json')
        try:
            subprocess.run([binary, '-mode', 'lifemods', '-out', outp], stdout=subprocess.DEVNULL, stderr=subprocess.DEVNULL, env=env, timeout=300, cwd=rd)
            mo = json.load(open(outp))
        except Exception as e:
            mo = {'error': repr(e)}
    finally:
        shutil.rmtree(rd, ignore_errors=True)
    if 'sequences' not in mo or not mo.get('bodies_run'):
        rep.inconc('module-history probe: %s' % common.short(mo, 300))
    else:
        rep.evaluations += mo['sequences']
        for k in mo.get('outcomes') or {}:
            nontriv.add(('module-history', k))
        seenw = set()
        for v in mo.get('violations') or []:
            what = re.sub(r'\d+ times', 'N times', v['what'])
            rep.violation('C09|module-history|%s' % what[:90], {'mode': 'lifemods', 'sequence (F = import whose body fails, S = succeeds, 2 = second module)': v['seq'], 'what': v['what']})
    rep.nontrivial = nontriv
    rep.samples = samples or [{'scenarios': [s[0] for s in S]}]
    rep.rule = ('controlled scheduler at the H1 lifecycle yield points: stateless DFS over all interleavings per scenario (fine = every yield point incl. inside the lock; coarse = lock-external points; '
                'pbK/cpbK = preemption-bounded), plus seeded random fine-grained schedules for 3-goroutine scenarios and free-running stress under -race; '
                'distinct_nontrivial = distinct (scenario, vector of per-operation results) observed; evaluations = schedules executed + free-running rounds')
    rep.extra = {
        'schedules': total_sched, 'scheduler_steps': total_steps, 'distinct_schedule_traces': traces, 'porcupine_ops_checked': total_porc,
        'free_rounds': free_rounds, 'race_reports_total': len(races), 'race_reports_lifecycle': len(life_races),
        'per_scenario': {k: {kk: vv for kk, vv in v.items() if kk != 'outcomes'} | {'distinct_outcomes': len(v['outcomes'])} for k, v in sorted(agg.items())},
        'exhaustive_scenarios': sorted(k for k, v in agg.items() if v['exhaustive'] and '/random' not in k),
    }
    rep.assumptions = ['interleavings are explored at the granularity of the H1 yield points; code between two yield points runs atomically under the scheduler',
                       'blocked = three consecutive goroutine-state samples in a sync wait with a lifecycle frame; a scheduler watchdog expiry is inconclusive',
                       'race reports outside stdlib.(*context) lifecycle frames are not attributed to C09 (concurrent executions on ONE context are outside the API contract)']


def replay(w):
    binary = common.build()
    for wit in w.get('witnesses', []):
        print('what:', wit.get('what'))
        if wit.get('schedule') is None or not wit.get('scenario'):
            print(json.dumps(wit, indent=1)[:3000])
            continue
        job = {'scenario': wit['scenario'], 'fine': bool(wit.get('fine')), 'max_preempt': -1, 'replay': wit['schedule']}
        res, d = run_jobs(binary, [[job]], common.go_env(), 120)
        shutil.rmtree(d, ignore_errors=True)
        for outs, rc, tail, n in res:
            for o in outs:
                print('replayed schedule:', o.get('sample_trace'))
                for v in o.get('violations') or []:
                    print('VIOLATION reproduced:', v['what'])
                if not o.get('violations'):
                    print('no violation on replay (inconclusive=%s)' % o.get('inconclusive'))
    return 0
