"""C08 - interpreter contexts are isolated and safe to run concurrently.
Monitors: (a) sequential isolation: polluter P runs to completion in context A, then observer O runs in a fresh context B of
the SAME process; O's observation must equal O's solo observation from a FRESH process (self-reference). (b) concurrent: N
contexts on N goroutines (race build) run polluters, observers, one shared pre-compiled code object, a Go module with a
source body and REPL sessions, with yields injected at instruction boundaries (hook H2); outputs vs solo outputs, plus the
race detector's reports. (c) concurrent compilation (shared with C18's cconc)."""
import json, os, re, subprocess, shutil
import common, progen
from common import rng

PID = 'C08'

# ---- programs that mutate every piece of per-context state they can reach -------------------------------------------
MODLOOP = '''for name in ["sys", "os", "math", "time", "string", "builtins", "binascii", "marshal", "glob", "tempfile", "array", "ctxmod"]:
    try:
        m = __import__(name)
    except ImportError:
        continue
    for k in sorted(dir(m)):
        try:
            v = getattr(m, k)
        except Exception:
            continue
'''
EXCPROBE = '''import math
def probe(f):
    try:
        f()
    except Exception as e:
        return e
    return None
FS = [lambda: 1 // 0, lambda: 1.0 / 0, lambda: 1 % 0, lambda: 1 << -1, lambda: [][0], lambda: {}["k"], lambda: int("x"), lambda: None.x, lambda: undefined_name,
      lambda: math.sqrt(-1), lambda: math.exp(100000), lambda: 1 + "a", lambda: next(iter([])), lambda: float("x"), lambda: (1j) / 0, lambda: divmod(1.5, 0), lambda: 2 ** 100000 * 1.0]
'''
POLLUTERS = {
    'globals': 'x = 1\nleak_marker = "P"\ndef f(): return 1\n',
    'sys.path': 'import sys\nsys.path.append("/polluted")\nsys.path[0:0] = ["/p0"]\n',
    'sys.argv': 'import sys\nsys.argv.append("polluted")\nsys.argv = ["replaced"]\n',
    'sys.stdout': 'import sys\nclass W:\n    def write(self, s):\n        return 0\n    def flush(self):\n        pass\nsys.stdout = W()\nprint("lost")\n',
    'builtins.len': 'import builtins\nbuiltins.len = lambda x: 42\nbuiltins.extra_name = 7\n',
    'builtins.del': 'import builtins\ntry:\n    del builtins.abs\nexcept Exception:\n    pass\n',
    'math.pi': 'import math\nmath.pi = 3\nmath.extra = 5\n',
    'sys.attr': 'import sys\nsys.polluted = 1\n',
    'int.attr': 'try:\n    int.foo = 1\nexcept Exception:\n    pass\n',
    'list.append': 'try:\n    list.append = 3\nexcept Exception:\n    pass\n',
    'str.upper': 'try:\n    str.upper = lambda s: "X"\nexcept Exception:\n    pass\n',
    'dict.attr': 'try:\n    dict.polluted = 1\nexcept Exception:\n    pass\n',
    'object.attr': 'try:\n    object.polluted = 1\nexcept Exception:\n    pass\n',
    'func.attr': 'try:\n    len.polluted = 1\nexcept Exception:\n    pass\n',
    'exc.class.attr': 'try:\n    KeyError.polluted = 1\nexcept Exception:\n    pass\ntry:\n    Exception.args_marker = 2\nexcept Exception:\n    pass\n',
    'type.attr': 'try:\n    type.polluted = 1\nexcept Exception:\n    pass\n',
    'time.attr': 'import time\ntime.polluted = 1\n',
    'string.mod': 'import string\ntry:\n    string.digits = "zz"\nexcept Exception:\n    pass\n',
    'ctxmod': 'import ctxmod\nctxmod.bump()\nctxmod.bump()\nctxmod.BASE = -1\nctxmod.NAME = "polluted"\n',
    'print.rebind': 'import builtins\n_p = builtins.print\ndef noisy(*a, **k):\n    _p("NOISY", *a)\nbuiltins.print = noisy\n',
    'import.hook': 'import builtins\ntry:\n    builtins.__import__ = None\nexcept Exception:\n    pass\n',
    'none.quiet': 'pass\n',
    # classes derived from every built-in type that can be derived from, with attributes and methods of their own
    'subclass.builtins': 'made = []\nfor B in (object, int, str, list, dict, tuple, Exception, ValueError, KeyError, BaseException, LookupError, float, set, bytes):\n    try:\n        class Leak(B):\n            secret = "P"\n            def reveal(self):\n                return leak_marker\n        made.append(Leak)\n    except Exception:\n        pass\nleak_marker = "P"\n',
    'os.environ': 'import os\nos.environ["VERIF_POLLUTED"] = "1"\n',
    # every dict / list found among the globals of every importable Go module gets an extra entry
    'mod.containers': MODLOOP + '''        if isinstance(v, dict):
            try:
                v["__polluted__"] = "1"
            except Exception:
                pass
        elif isinstance(v, list):
            v.append("__polluted__")
''',
    # exceptions raised by the runtime itself (not by a raise statement) get a __cause__ attached by a handler
    'exc.cause': EXCPROBE + '''for f in FS:
    e = probe(f)
    if e is not None:
        try:
            raise e from KeyError("POLLUTED")
        except Exception:
            pass
''',
}

OBSERVERS = {
    'os.environ': 'import os\nprint("VERIF_POLLUTED" in os.environ)\n',
    'mod.containers': 'n = 0\n' + MODLOOP + '''        if isinstance(v, dict) and "__polluted__" in v:
            n += 1
            print(name, k)
        elif isinstance(v, list) and "__polluted__" in v:
            n += 1
            print(name, k)
print("polluted containers", n)
''',
    'exc.fresh': EXCPROBE + '''for i, f in enumerate(FS):
    e = probe(f)
    if e is not None and e.__cause__ is not None:
        print(i, "carries a cause")
print("checked", len(FS))
''',
    'globals': 'try:\n    print(leak_marker)\nexcept NameError:\n    print("clean")\ntry:\n    print(x)\nexcept NameError:\n    print("clean")\n',
    'sys.path': 'import sys\nprint(len(sys.path))\nfor p in sys.path:\n    print(p)\n',
    'sys.argv': 'import sys\nprint(len(sys.argv))\nfor p in sys.argv:\n    print(p)\n',
    'stdout': 'print("visible")\n',
    'len': 'print(len([1, 2, 3]))\nprint(abs(-3))\ntry:\n    print(extra_name)\nexcept NameError:\n    print("clean")\n',
    'math': 'import math\nprint(math.pi > 3.1)\ntry:\n    print(math.extra)\nexcept AttributeError:\n    print("clean")\n',
    'sys.attr': 'import sys\ntry:\n    print(sys.polluted)\nexcept AttributeError:\n    print("clean")\n',
    'int.attr': 'try:\n    print(int.foo)\nexcept AttributeError:\n    print("clean")\ntry:\n    print((5).foo)\nexcept AttributeError:\n    print("clean")\n',
    'list.append': 'l = []\ntry:\n    l.append(1)\n    print(len(l))\nexcept Exception:\n    print("broken append")\n',
    'str.upper': 'print("ab".upper())\n',
    'dict.attr': 'try:\n    print(dict.polluted)\nexcept AttributeError:\n    print("clean")\ntry:\n    print(object.polluted)\nexcept AttributeError:\n    print("clean")\n',
    'func.attr': 'try:\n    print(len.polluted)\nexcept AttributeError:\n    print("clean")\n',
    'exc.attr': 'try:\n    print(KeyError.polluted)\nexcept AttributeError:\n    print("clean")\ntry:\n    print(Exception.args_marker)\nexcept AttributeError:\n    print("clean")\ntry:\n    print(type.polluted)\nexcept AttributeError:\n    print("clean")\n',
    'time.attr': 'import time\ntry:\n    print(time.polluted)\nexcept AttributeError:\n    print("clean")\n',
    'string.mod': 'import string\nprint(string.digits)\n',
    'ctxmod': 'import ctxmod\nprint(ctxmod.BASE, ctxmod.NAME, ctxmod.VALUE)\nprint(ctxmod.bump())\nprint(ctxmod.ident())\n',
    'import': 'import math\nimport sys\nprint(math.floor(2.5))\n',
    # whatever a built-in type lets a program see about itself must not depend on what other contexts derived from it or hung on it
    'type.introspection': '''NAMES = ["__subclasses__", "__dict__", "__bases__", "__base__", "__mro__", "mro", "__name__", "__qualname__", "__module__", "__doc__", "__subclasshook__", "__flags__", "__abstractmethods__",
         "__weakref__", "__itemsize__", "__basicsize__", "__text_signature__", "__instancecheck__", "__subclasscheck__", "__class__", "__init_subclass__", "__sizeof__", "__reduce__", "__dir__"]
def show(v):
    if isinstance(v, (list, tuple, set)):
        return "seq" + str(len(v))
    if isinstance(v, dict):
        return "map" + str(len(v))
    if isinstance(v, (str, int, bool)):
        return str(v)[:40]
    if v is None:
        return "None"
    return "obj"
for T in (object, int, str, list, dict, tuple, Exception, ValueError, KeyError, BaseException, LookupError, float, set, bytes, type, bool):
    row = []
    for n in NAMES:
        try:
            v = getattr(T, n)
        except AttributeError:
            row.append("-")
            continue
        except Exception:
            row.append("!")
            continue
        r = show(v)
        if r == "obj":
            try:
                r = "call:" + show(v())
            except Exception:
                r = "obj"
        row.append(r)
    print(" ".join(row))
''',
    # how deep a context can recurse is its own business: other contexts recursing at the same time must not use up its allowance
    'deep.recursion': 'def d(n):\n    if n == 0:\n        t = 0\n        for i in range(400):\n            t += i\n        return t\n    return d(n - 1) + 1\nfor k in range(6):\n    print(d(700))\n',
    'recursion.limit': 'def probe(n):\n    try:\n        return probe(n + 1)\n    except RuntimeError:\n        return n\nprint(probe(0) == probe(0))\nprint(probe(0) > 800)\ndef d(n):\n    return 0 if n == 0 else d(n - 1)\nprint(d(600))\n',
    'compute': 'def fib(n):\n    a, b = 0, 1\n    for i in range(n):\n        a, b = b, a + b\n    return a\nprint(fib(30))\nprint(sum(i * i for i in range(100)))\nprint(sorted([3, 1, 2]))\nprint("-".join(["a", "b"]))\n',
    'classes': 'class A:\n    v = 1\n    def m(self):\n        return self.v\nclass B(A):\n    v = 2\nprint(A().m(), B().m())\ntry:\n    raise KeyError("k")\nexcept LookupError:\n    print("caught")\n',
    'gen': 'def g(n):\n    for i in range(n):\n        yield i * 2\nprint(list(g(5)))\nd = {}\nfor k in "abc":\n    d[k] = 1\nprint(len(d))\n',
}

SHARED = '''total = 0
for i in range(200):
    total += i * i % 7
l = [j for j in range(50) if j % 3]
print(total, len(l))
def f(a, b=2):
    return a * b
print(f(3), f(3, 4))
def boom(k):
    if k % 3 == 0:
        raise ValueError(k)
    return k
caught = 0
for k in range(30):
    try:
        boom(k)
    except ValueError:
        caught += 1
print(caught)
def deep(n):
    if n == 0:
        return boom(0)
    return deep(n - 1)
deep(3)
'''


def gomod_calls_program():
    """calls every function that the Go modules sys, math, string, binascii and marshal of the CURRENT tree export (names read from their sources), with a few
    argument shapes incl. strings that were never seen before; prints how many calls returned / raised per module.  Whatever a module keeps between calls
    (caches, tables, counters) is exercised from every context at once in the concurrent rounds."""
    import glob
    mods = {}
    for m in ('sys', 'math', 'string', 'binascii', 'marshal'):
        names = set()
        for f in glob.glob(os.path.join(common.REPO, 'stdlib', m, '*.go')):
            if f.endswith('_test.go'):
                continue
            names.update(re.findall(r'MustNewMethod\("([A-Za-z_][A-Za-z_0-9]*)"', open(f, errors='replace').read()))
        mods[m] = sorted(n for n in names if n not in ('exit', '_exit', 'setrecursionlimit', 'settrace', 'setprofile', 'breakpointhook', 'displayhook', 'excepthook'))
    src = 'MODS = %r\n' % mods + '''n = 0
for mn in sorted(MODS):
    try:
        m = __import__(mn)
    except ImportError:
        print(mn, "missing")
        continue
    ok = 0
    bad = 0
    for fn in MODS[mn]:
        try:
            f = getattr(m, fn)
        except AttributeError:
            continue
        for k in range(6):
            n += 1
            shapes = [(), ("fresh-" + mn + "-" + fn + "-" + str(n),), (n,), ("a", "b"), (1.5,), ("fresh2-" + str(n) + str(k), n)]
            try:
                f(*shapes[k])
                ok += 1
            except:
                bad += 1
        # many values no call has seen before: whatever the function remembers (a table, a cache) grows while other contexts do the same
        takes_str = False
        for j in range(400):
            try:
                f("fresh3-" + fn + "-" + str(n) + "-" + str(j))
                takes_str = True
            except:
                pass
        # a function that accepts strings is then called many thousand times with new and recurring ones, back to back
        if takes_str:
            for j in range(20000):
                try:
                    f("hot-" + fn + str(n) + "-" + str(j))
                    f("common" + str(j % 64))
                except:
                    pass
    print(mn, ok, bad)
'''
    return src


def obs_of(g, pfx=''):
    if g is None:
        return None
    o = g.get(pfx + 'out', '')
    if g.get(pfx + 'exc'):
        # same rendering as observe() in ctx.go: exception type + traceback (function, line) list
        o += '\n!exc=%s tb=[%s]' % (g[pfx + 'exc'], ' '.join('[%s %d]' % (a, b) for a, b in (g.get(pfx + 'tb') or [])))
    if g.get(pfx + 'cerr'):
        o += '\n!cerr=' + g[pfx + 'cerr']
    if g.get(pfx + 'panic'):
        o += '\n!panic=' + str(g[pfx + 'panic']) + ' @ ' + str(g.get(pfx + 'stack'))
    return o


def run(tier, rep):
    r = rng(PID, 'gen')
    # generated observers: structurally rich programs (deterministic output)
    gen_obs = {}
    for i in range(8 if tier == 'quick' else 40):
        gen_obs['gen%d' % i] = progen.program(r, maxdepth=3, nstmts=3)
    observers = dict(OBSERVERS)
    observers['gomod.calls'] = gomod_calls_program()
    observers.update(gen_obs)
    # ---- solo observations: one fresh process per program --------------------------------------------------------
    solo_cases = [{'id': 'solo:' + k, 'src': v} for k, v in observers.items()] + [{'id': 'solo:P:' + k, 'src': v} for k, v in POLLUTERS.items()] + [{'id': 'solo:shared', 'src': SHARED}]
    solo_res, _ = common.run_vrun('exec', solo_cases, workers=len(solo_cases), timeout_case=60)
    solo = {}
    for c in solo_cases:
        g = solo_res.get(c['id'])
        if g is None or g.get('timeout') or g.get('crash'):
            rep.broke('solo run of %s failed' % c['id'])
            return
        solo[c['id'][5:]] = obs_of(g)
    # canary: the observers must produce something
    if solo['stdout'] != 'visible\n' or 'clean' not in solo['int.attr']:
        rep.broke('canary: unexpected solo observation %r / %r' % (solo['stdout'], solo['int.attr']))
        return
    # ---- (a) sequential isolation -------------------------------------------------------------------------------
    seq = []
    for pk, ps in POLLUTERS.items():
        for ok, os_ in observers.items():
            seq.append({'id': 'seq:%s>%s' % (pk, ok), 'src': ps, 'post': os_})
    # polluter chains: several polluters one after another in one process, then all observers
    r.shuffle(seq)
    res, _ = common.run_vrun('exec', seq, timeout_case=60, extra=['-percase'])
    nontriv = set()
    for c in seq:
        g = res.get(c['id'])
        pk, ok = c['id'][4:].split('>')
        if g is None or g.get('timeout'):
            rep.inconc('no result for %s' % c['id'])
            continue
        rep.evaluations += 1
        got = obs_of(g, 'post_')
        want = solo[ok]
        nontriv.add(('seq', pk, ok))
        if '!panic=' in (got or '') or g.get('panic') or g.get('crash'):
            rep.violation('C08|seq|polluter=%s|observer=%s|panic' % (pk, ok), {'case': c, 'got': {k: common.short(v, 500) for k, v in g.items()}})
        elif got != want:
            rep.violation('C08|seq|polluter=%s|observer=%s|observation-differs-from-solo' % (pk, ok if not ok.startswith('gen') else 'gen'), {'case': c, 'expected_solo': want, 'got': got})
    # every (P, O) pair runs in its own fresh process (-percase), so a deviation is attributable to that polluter
    # ---- (b) concurrent contexts under the race detector --------------------------------------------------------
    rbin = common.build(race=True)
    progs = [{'id': 'O:' + k, 'src': v, 'solo': solo[k]} for k, v in observers.items()] + [{'id': 'P:' + k, 'src': v, 'solo': solo['P:' + k]} for k, v in POLLUTERS.items()]
    r.shuffle(progs)
    conc_total = {'runs': 0, 'shared_runs': 0, 'repl_sessions': 0, 'fresh_gomodule_imports': 0, 'yields_injected': 0, 'instructions_observed': 0}
    races_all = []
    configs = [(16, 6, 50), (4, 10, 7), (2, 12, 0)] if tier == 'quick' else [(16, 60, 50), (64, 20, 200), (4, 100, 7), (2, 100, 3), (16, 40, 0)]
    # the last configuration runs only the observers of process-wide resources (Go module functions with fresh values, type introspection, recursion depth),
    # so that every goroutine is inside the same few Go functions at the same time
    hot = [p for p in progs if p['id'] in ('O:gomod.calls', 'O:type.introspection', 'O:deep.recursion', 'O:recursion.limit', 'P:subclass.builtins')]
    configs = configs + [(16, 3 if tier == 'quick' else 30, -1)]
    for ci, (N, rounds, density) in enumerate(configs):
        d = common.scratch_dir('cctx-')
        inp = os.path.join(d, 'in.json')
        progs_here = progs
        if density == -1:
            progs_here, density = hot, 0
        with open(inp, 'w') as f:
            json.dump({'programs': progs_here, 'shared_src': SHARED, 'shared_solo': solo['shared'], 'rounds': rounds, 'goroutines': N, 'density': density, 'repl': True}, f)
        env = common.go_env()
        env['GORACE'] = 'halt_on_error=0 log_path=%s' % os.path.join(d, 'race')
        outp = os.path.join(d, 'out.json')
        try:
            p = subprocess.run([rbin, '-mode', 'cctx', '-in', inp, '-out', outp, '-seed', str(common.seed() + ci)], env=env, stdout=subprocess.PIPE, stderr=subprocess.STDOUT, timeout=900 if tier == 'quick' else 3600, cwd=d)
            rc, log = p.returncode, p.stdout.decode('utf-8', 'replace')[-3000:]
        except subprocess.TimeoutExpired:
            rc, log = -999, ''
        if rc == -999:
            rep.inconc('concurrent-context process hit the wall-clock cap (N=%d)' % N)
        elif not os.path.exists(outp):
            m = re.search(r'fatal error: ([^\n]*)', log)
            rep.violation('C08|concurrent|process-abort:%s' % (m.group(1)[:60] if m else 'unknown'), {'rc': rc, 'log_tail': log, 'config': [N, rounds, density]})
        else:
            o = json.load(open(outp))
            for k in conc_total:
                conc_total[k] += o.get(k, 0)
            rep.evaluations += o.get('runs', 0) + o.get('shared_runs', 0) + o.get('repl_sessions', 0) + o.get('fresh_gomodule_imports', 0)
            nontriv.add(('conc', N, density))
            for pid_, m in zip(o.get('mismatch_ids') or [], o.get('mismatches') or []):
                key = pid_ if not pid_.startswith('O:gen') else 'O:gen'
                rep.violation('C08|concurrent|%s|observation-differs-from-solo' % key, {'what': m, 'config': [N, rounds, density]})
            for m in o.get('panics') or []:
                rep.violation('C08|concurrent|panic:%s' % re.sub(r'\d+', 'N', m)[:80], {'what': m, 'config': [N, rounds, density]})
        races_all += common.collect_race_reports(d)
        shutil.rmtree(d, ignore_errors=True)
    # ---- (c) concurrent compilation ---------------------------------------------------------------------------
    d = common.scratch_dir('cconc8-')
    inp = os.path.join(d, 'in.jsonl')
    with open(inp, 'w') as f:
        for k, v in list(observers.items()) + list(POLLUTERS.items()):
            f.write(json.dumps({'id': k, 'src': v, 'mode': 'exec'}) + '\n')
    env = common.go_env()
    env['GORACE'] = 'halt_on_error=0 log_path=%s' % os.path.join(d, 'race')
    outp = os.path.join(d, 'out.json')
    try:
        subprocess.run([rbin, '-mode', 'cconc', '-in', inp, '-out', outp, '-seed', str(common.seed()), '-opt', '16,%d' % (2 if tier == 'quick' else 10)], env=env, stdout=subprocess.PIPE, stderr=subprocess.STDOUT, timeout=900, cwd=d)
        if os.path.exists(outp):
            o = json.load(open(outp))
            rep.evaluations += o.get('compiles', 0)
            conc_total['concurrent_compiles'] = o.get('compiles', 0)
            for m in (o.get('mismatches') or []) + (o.get('panics') or []) + (o.get('run_output_diffs') or []):
                rep.violation('C08|concurrent-compile|mismatch', {'what': m})
    except subprocess.TimeoutExpired:
        rep.inconc('concurrent compile wall cap')
    races_all += common.collect_race_reports(d)
    shutil.rmtree(d, ignore_errors=True)
    # race reports: deduplicate by the innermost gpython frames of both stacks
    seen = set()
    for b in races_all:
        fr = [l.strip() for l in b.split('\n') if ('gpython/' in l or 'github.com/go-python' in l) and '(' in l and not l.strip().startswith('/')]
        key = re.sub(r'\d+', 'N', '|'.join(sorted(set(re.sub(r'\(.*', '', f) for f in fr[:2]))))[:150]
        if key in seen:
            continue
        seen.add(key)
        rep.violation('C08|race|%s' % key, {'race_report': b[:4000]})
    rep.nontrivial = nontriv
    rep.samples = [{'sequential_case': {'polluter': POLLUTERS['builtins.len'], 'observer': OBSERVERS['len'], 'solo_observation': solo['len']}}, {'concurrent': conc_total}]
    rep.rule = ('sequential: every (polluter, observer) pair from %d polluters (module globals, sys.path/argv/stdout, rebinding/deleting builtins, attributes of imported modules, of builtin types, of builtin functions, of exception classes, '
                'a Go module with a source body) x %d observers (incl. generated programs), observer in a fresh context of the same process vs its solo run in a fresh process; concurrent: configurations (goroutines, rounds, yield density) %s under -race '
                'with a shared code object, REPL sessions and the Go module imported by all; non-trivial = distinct (polluter, observer) pairs and concurrent configurations' % (len(POLLUTERS), len(observers), configs))
    rep.extra = dict(conc_total, race_reports=len(races_all), distinct_race_sites=len(seen), sequential_pairs=len(seq))
    rep.assumptions = ['process-wide resources that are shared by nature (cwd, environment, file descriptors) are not exercised', 'solo observation = first case of a fresh worker process']
