"""C18 - compilation is a deterministic, side-effect-free function of its input.
Monitor: canonical deep dump of *py.Code at the API boundary; oracle: equality with the first dump of the same input -
across repeats in one process (Go randomises map iteration per loop), across interleavings with other compilations,
across 16 worker processes (different hash seeds), across 16 goroutines compiling concurrently under the race detector,
and (thorough) across two Go toolchains (bucket maps vs swiss maps)."""
import os, glob, json, subprocess, shutil, re
import common, progen
from common import rng

PID = 'C18'


def scope_heavy(r):
    """Programs with many names per scope: orders of co_names / varnames / cellvars / freevars come from symbol maps."""
    names = ['n%s' % ''.join(r.choice('abcdefghijklmnopqrstuvwxyz') for _ in range(r.randrange(1, 5))) + str(i) for i in range(r.randrange(6, 28))]
    r.shuffle(names)
    k = len(names)
    cells = names[:k // 3]
    locs = names[k // 3: 2 * k // 3]
    globs = names[2 * k // 3:]
    L = []
    L.append('%s = 0' % ' = '.join(globs))
    L.append('def outer(%s):' % ', '.join(locs[:3]))
    if globs:
        L.append('    global %s' % ', '.join(globs[:2]))
    for n in cells + locs[3:]:
        L.append('    %s = %d' % (n, r.randrange(9)))
    L.append('    def inner(%s):' % ', '.join('p%d' % i for i in range(r.randrange(0, 4))))
    if cells:
        L.append('        nonlocal %s' % ', '.join(cells[:2]))
        L.append('        %s = 1' % cells[0])
    L.append('        return [%s]' % ', '.join(r.sample(cells + globs, min(len(cells + globs), r.randrange(1, 8)))))
    L.append('    class K:')
    for n in r.sample(names, min(4, len(names))):
        L.append('        a_%s = %s' % (n, r.choice(cells + globs)))
    L.append('        def m(self, %s=1):' % locs[0])
    L.append('            return (%s)' % ', '.join(r.sample(cells + globs + [locs[0]], min(len(cells + globs) + 1, r.randrange(1, 6)))))
    L.append('    gen = (%s for %s in range(3) if %s)' % (r.choice(cells + locs), 'q', r.choice(cells + locs)))
    L.append('    lam = lambda %s=%s, *a, **k: (%s)' % ('z', r.choice(locs), ', '.join(r.sample(names, min(len(names), 4)))))
    L.append('    return inner, K, gen, lam, {%s}' % ', '.join('"%s": %s' % (n, n) for n in r.sample(cells + locs, min(len(cells + locs), 5))))
    for n in r.sample(globs, min(len(globs), 3)):
        L.append('%s = outer(1, 2, 3)' % n)
    L.append('import math as %s, sys' % r.choice(names))
    L.append('from math import %s' % ', '.join(r.sample(['pi', 'e', 'sqrt', 'floor', 'ceil'], 3)))
    return '\n'.join(L) + '\n'


def corpus(tier):
    r = rng(PID, 'corpus')
    src = []
    for path in sorted(glob.glob(os.path.join(common.REPO, '**', '*.py'), recursive=True)):
        try:
            src.append(('repo:' + os.path.relpath(path, common.REPO), open(path, encoding='utf-8').read(), 'exec'))
        except Exception:
            pass
    n = 500 if tier == 'quick' else 6000
    for i in range(n):
        src.append(('gen:%d' % i, progen.program(r, maxdepth=r.choice([2, 3, 4]), nstmts=r.randrange(2, 6)), 'exec'))
    for i in range(n):
        src.append(('scope:%d' % i, scope_heavy(r), 'exec'))
    for i in range(n // 5):
        g = progen.Gen(r)
        src.append(('eval:%d' % i, g.iexpr(['len', 'abs']), 'eval'))
        src.append(('single:%d' % i, '%s = %s\n' % (g.uid('s'), g.iexpr([])), 'single'))
    # full-grammar sources from the C06 generator (every expression and statement form of the 3.4 grammar, all target forms) in all three modes:
    # the compiler rewrites parts of the tree while compiling (augmented assignment, starred targets), which must never carry over
    import c06
    for i in range(n):
        g6 = c06.G(r)
        src.append(('g6x:%d' % i, g6.module(2, 2, r.randrange(1, 4))[0], 'exec'))
    for i in range(n):
        g6 = c06.G(r)
        e = g6.comprehension(2) if i % 3 == 0 else g6.expr(3)
        src.append(('g6e:%d' % i, e.t if e.t.startswith(('(', '[', '{')) else '(' + e.t + ')', 'eval'))
    for i in range(n // 4):
        g6 = c06.G(r)
        st = g6.simple(2)
        src.append(('g6s:%d' % i, st[0][0] + '\n', 'single'))
    for i, t in enumerate(['[b for a, *b in xs]', '[a for *a, b in xs]', '{a: b for (a, *b) in xs}', '(c for [a, *b, c] in xs)', '{b for a, (*b, c) in xs}', '[x for x in xs if x for y, *z in x]',
                           'lambda *a, b=1, **k: [c for c, *d in a]', '[[e for e, *f in d] for c, *d in xs]', 'f(*a, **k)', 'x[1:2, ::3]', '(a, *b)', 'not a < b < c', 'a if b else c']):
        src.append(('evalform:%d' % i, t, 'eval'))
        src.append(('execform:%d' % i, 'r = ' + t + '\nfor q, *w in r: q += 1\n', 'exec'))
        src.append(('singleform:%d' % i, t + '\n', 'single'))
    for i, t in enumerate(['a += 1\n', 'a.b += 1\n', 'a[i] += 1\n', 'a[i:j] += x\n', 'a.b.c[d].e **= 2\n', 'a, *b = c\n', '[a, *b], c = d\n', 'for a, *b in c: a += b\n', 'with x as (a, *b): pass\n']):
        src.append(('augform:%d' % i, t, 'exec'))
        src.append(('augsingle:%d' % i, t, 'single'))
    # modules whose first statement is a docstring / that are empty or comment-only (code emitted before the first statement)
    for i in range(n // 10 + 20):
        body = progen.program(r, maxdepth=2, nstmts=2)[len(progen.PRELUDE):]
        lead = r.choice(['', '\n', '\n\n\n', '# comment\n', '# c\n\n# d\n'])
        src.append(('doc:%d' % i, lead + r.choice(['"""module docstring"""\n', "'''doc\nstring'''\n", '"d"\n']) + body, 'exec'))
    for i, t in enumerate(['', '\n', '\n\n\n', '# only a comment\n', '# a\n\n# b\n', '"""only a docstring"""\n', 'pass\n', '\n\n\npass\n']):
        src.append(('tiny:%d' % i, t, 'exec'))
    # characters that may continue an identifier but not start one (combining marks, digits of other scripts, connector punctuation): the same character inside
    # a name (valid) and at the start of a token (invalid) in different sources - what the lexer answers for one must not depend on which it was asked first
    for i, ch in enumerate(['\u0663', '\u0664', '\u0301', '\u0308', '\u203f', '\u0903', '\u0e31', '\u06f5', '\uff10', '\u0966', '\u0967', '\u1040', '\u20dd'[:0] or '\u0300', '\u0483', '\u05bf', '\u0e50', '\u0f20', '\u1810', '\ua620', '\ufe33']):
        src.append(('identin:%d' % i, 'x%s = 1\nprint(x%s)\n' % (ch, ch), 'exec'))
        src.append(('identin2:%d' % i, 'def f(a%sb):\n    return a%sb\n' % (ch, ch), 'exec'))
        src.append(('identstart:%d' % i, 'y = %s\n' % ch, 'exec'))
        src.append(('identstart2:%d' % i, '%sx = 1\n' % ch, 'exec'))
        src.append(('identeval:%d' % i, 'q%s' % ch, 'eval'))
        src.append(('identevalbad:%d' % i, '%s' % ch, 'eval'))
    # inputs that fail to compile: only the error type must repeat
    for i, bad in enumerate(['def f(:\n', 'x = = 1\n', 'return 1\n', 'def f(a, a): pass\n', 'nonlocal x\n', 'def f():\n    x = 1\n    global x\n', 'break\n', 'f(**k, *a)\n', '"\\N{BOGUS}"\n', 'class C:\n    return 1\n', 'def f():\n  yield\n  return 1\n x\n']):
        src.append(('bad:%d' % i, bad, 'exec'))
    return src


def run(tier, rep):
    src = corpus(tier)
    r = rng(PID, 'order')
    nrep = 8 if tier == 'quick' else 64
    cases = []
    # three placements of every source (different worker processes => different runtime hash seeds), interleaved with other compilations
    for copy in range(3):
        order = list(range(len(src)))
        r.shuffle(order)
        for i in order:
            sid, text, mode = src[i]
            other = src[r.randrange(len(src))][1]
            bmode = 'exec'
            if copy == 2:
                # an interleaved compilation in ANOTHER mode, multi-line, with leading blank lines (different positions in parser state)
                g = progen.Gen(r)
                other = r.choice(['\n\n\n\n(%s +\n %s)', '\n\n(%s,\n\n %s)', '%s if %s else 0']) % (g.iexpr(['len']), g.iexpr(['abs']))
                bmode = r.choice(['eval', 'eval', 'single'])
                if bmode == 'single':
                    other = '\n\n\nif 1:\n    x = (%s)\n\n' % g.iexpr([])
            cases.append({'id': '%s#%d' % (sid, copy), 'src': text, 'mode': mode, 'n': nrep if copy == 0 else (4 if copy == 2 else 2), 'between': other if copy != 1 else '', 'between_mode': bmode})
    res, _ = common.run_vrun('compile', cases, timeout_case=120)
    byid = {}
    nontriv = set()
    ncomp = 0
    samples = []
    for c in cases:
        g = res.get(c['id'])
        sid = c['id'].rsplit('#', 1)[0]
        if g is None or g.get('timeout') or g.get('wall_timeout'):
            rep.inconc('no result/timeout %s' % c['id'])
            continue
        rep.evaluations += 1
        ncomp += g.get('n', 0)
        feature = sid.split(':')[0]
        if g.get('panic') or g.get('crash') or g.get('harness_panic'):
            rep.violation('C18|%s|panic' % feature, {'case': c, 'vrun_mode': 'compile', 'got': {k: common.short(v, 800) for k, v in g.items()}})
            continue
        if g.get('repeat_diff'):
            rep.violation('C18|%s|repeat-differs' % feature, {'case': c, 'vrun_mode': 'compile', 'diff': g.get('repeat_diff'), 'excerpt': g.get('diff_excerpt')})
        key = g.get('dump_hash') or ('err:' + str((g.get('err') or {}).get('type')))
        byid.setdefault(sid, []).append((c['id'], key))
        if g.get('dump_len', 0) > 400:
            nontriv.add(sid)
    for sid, lst in byid.items():
        keys = set(k for _, k in lst)
        if len(keys) > 1:
            rep.violation('C18|%s|differs-across-processes-or-interleavings' % sid.split(':')[0], {'source_id': sid, 'observations': lst, 'case': {'id': sid, 'src': dict((s[0], s[1]) for s in src)[sid]}, 'vrun_mode': 'compile'})
    if tier == 'thorough':
        # second toolchain (swiss maps): dumps must be identical to the default toolchain's
        try:
            sub = [c for c in cases if c['id'].endswith('#1')]
            res2, _ = common.run_vrun('compile', sub, timeout_case=120, go='go1.26.8')
            for c in sub:
                g2 = res2.get(c['id'])
                g1 = res.get(c['id'])
                if not g1 or not g2 or g2.get('timeout'):
                    continue
                rep.evaluations += 1
                k1 = g1.get('dump_hash') or ('err:' + str((g1.get('err') or {}).get('type')))
                k2 = g2.get('dump_hash') or ('err:' + str((g2.get('err') or {}).get('type')))
                if g2.get('repeat_diff'):
                    rep.violation('C18|%s|repeat-differs|go1.26.8' % c['id'].split(':')[0], {'case': c, 'vrun_mode': 'compile', 'diff': g2.get('repeat_diff')})
                if k1 != k2:
                    rep.violation('C18|%s|differs-across-toolchains' % c['id'].split(':')[0], {'case': c, 'vrun_mode': 'compile', 'go1.23': k1, 'go1.26.8': k2})
            rep.extra_tool = True
        except SystemExit:
            rep.inconc('go1.26.8 build of the harness failed')
    # concurrent compilation under the race detector
    rbin = common.build(race=True)
    d = common.scratch_dir('cconc-')
    sub = [s for s in src if not s[0].startswith('repo:')]
    r.shuffle(sub)
    sub = sub[:80 if tier == 'quick' else 1500]
    inp = os.path.join(d, 'in.jsonl')
    with open(inp, 'w') as f:
        for sid, text, mode in sub:
            f.write(json.dumps({'id': sid, 'src': text, 'mode': mode}) + '\n')
    env = common.go_env()
    env['GORACE'] = 'halt_on_error=0 log_path=%s' % os.path.join(d, 'race')
    outp = os.path.join(d, 'out.json')
    try:
        p = subprocess.run([rbin, '-mode', 'cconc', '-in', inp, '-out', outp, '-seed', str(common.seed()), '-opt', '16,%d' % (1 if tier == 'quick' else 4)], env=env, stdout=subprocess.PIPE, stderr=subprocess.STDOUT, timeout=1500 if tier == 'quick' else 5400, cwd=d)
        rc = p.returncode
        log = p.stdout.decode('utf-8', 'replace')[-3000:]
    except subprocess.TimeoutExpired:
        rc, log = -999, ''
    conc = {}
    if rc == -999:
        rep.inconc('concurrent-compile process hit the wall-clock cap')
    elif not os.path.exists(outp):
        rep.violation('C18|concurrent|process-abort', {'rc': rc, 'log_tail': log})
    else:
        conc = json.load(open(outp))
        rep.evaluations += conc.get('compiles', 0)
        for m in conc.get('mismatches') or []:
            rep.violation('C18|concurrent|mismatch', {'what': m})
        for m in conc.get('panics') or []:
            rep.violation('C18|concurrent|panic', {'what': m})
        for m in conc.get('run_output_diffs') or []:
            rep.violation('C18|concurrent|running-context-disturbed', {'what': m})
    races = common.collect_race_reports(d)
    for b in races:
        fr = [l.strip() for l in b.split('\n') if 'gpython/' in l and '(' in l]
        rep.violation('C18|race|%s' % re.sub(r'\d+', 'N', '|'.join(re.sub(r'\(.*', '', f) for f in fr[:2]))[:140], {'race_report': b[:3000]})
    shutil.rmtree(d, ignore_errors=True)
    rep.nontrivial = nontriv
    rep.samples = [{'id': s[0], 'mode': s[2], 'source_excerpt': s[1][:400]} for s in src if s[0].startswith('scope:')][:2] + [{'concurrent': {k: v for k, v in conc.items() if k not in ('mismatches',)}}]
    rep.rule = ('every source (repository .py files, generated block-rich programs, scope-heavy programs with 6..28 names per scope, eval/single inputs, failing inputs) is compiled in 3 different worker processes, '
                '%d+2+2 times, interleaved with other compilations, and concurrently from 16 goroutines under -race; non-trivial = distinct source whose dump is > 400 bytes (nested code objects / many names)' % nrep)
    rep.extra = {'sources': len(src), 'compilations': ncomp, 'concurrent': {k: v for k, v in conc.items() if k not in ('mismatches', 'panics', 'run_output_diffs')}, 'race_reports': len(races), 'repeats_per_source': nrep}
    rep.assumptions = ['map-order diversity comes from Go\'s per-range randomisation, distinct processes and (thorough) two toolchains; orders never produced are not covered',
                       'for failing compilations only the error type must repeat']
