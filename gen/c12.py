"""C12 - emitted code objects are well-formed and stack-safe on every path.
Monitor: (1) bytecode verifier (abstract interpretation written from the VM's semantics) over every code object the
compiler emits for the corpus; (2) dynamic conformance via hook H2: actual (stack, block) depth before every executed
instruction must be among the statically predicted ones and never exceed co_stacksize."""
import itertools, os, re, glob
import common, progen
from common import rng

PID = 'C12'


def norm(s):
    s = re.sub(r'code "[^"]*"', 'code', s)
    s = re.sub(r'\d+', 'N', s)
    s = re.sub(r'\(stack "[^"]*"\)', '', s)
    return s[:150]


def corpus(tier):
    r = rng(PID, 'corpus')
    cases = []
    for path in sorted(glob.glob(os.path.join(common.REPO, '**', '*.py'), recursive=True)):
        try:
            src = open(path, encoding='utf-8').read()
        except Exception:
            continue
        cases.append({'id': 'repo:' + os.path.relpath(path, common.REPO), 'src': src, 'verify': True, 'feature': 'repo', 'norun': 'pi_chudnovsky' in path})
    n = 1000 if tier == 'quick' else 20000
    for i in range(n):
        depth = r.choice([2, 3, 3, 4, 4, 5])
        src = progen.program(r, maxdepth=depth, nstmts=r.randrange(2, 6), maxstmts=r.choice([2, 3, 4]))
        cases.append({'id': 'gen:%d' % i, 'src': src, 'verify': True, 'feature': 'gen'})
    for i in range(n // 5):
        src = progen.raw_program(r, maxdepth=r.choice([3, 4, 5]), nstmts=r.randrange(2, 5))
        cases.append({'id': 'raw:%d' % i, 'src': src, 'verify': True, 'feature': 'raw'})
    # exits pending across finally bodies / with-exits, generators suspended there, every exit from every clause of every try layout in a loop
    import pendexit
    for q in pendexit.programs():
        cases.append({'id': 'pendexit:' + q['id'], 'src': q['src'], 'verify': True, 'feature': 'pendexit'})
        # verified a second time without being run: a mis-compiled exit may make the program loop for ever, and a case that times out tells nothing
        cases.append({'id': 'pendexit-static:' + q['id'], 'src': q['src'], 'verify': True, 'feature': 'pendexit', 'norun': True})
    # generators whose resumption is refused at the recursion limit and that are used again afterwards (depths at run time vs predicted)
    import c05
    for k_, v_ in c05.LIMIT_VARIANTS.items():
        cases.append({'id': 'limit:' + k_, 'src': v_, 'verify': True, 'feature': 'limit'})
    cases.append({'id': 'limit:expr', 'src': c05.LIMIT_PROG.replace('        x = yield i\n', '        x = 10 + (yield i)\n'), 'verify': True, 'feature': 'limit'})
    for q in pendexit.outside_loop_programs():
        cases.append({'id': 'noloop:' + q['id'], 'src': q['src'], 'verify': True, 'feature': 'noloop', 'norun': True})
    # definition forms: what MAKE_FUNCTION / MAKE_CLOSURE / LOAD_BUILD_CLASS find on the stack - decorators x positional defaults x keyword-only
    # defaults (with gaps) x annotations x closure x */** parameters x lambda, each in four contexts; every definition is also called
    k = 0
    pre = 'def v(x):\n    return x\ndef d(f):\n    return f\ndef dd(x):\n    return d\nz = 0\n'

    def ind(t, n):
        return ''.join('    ' * n + l + '\n' for l in t.split('\n') if l)
    for ndec in (0, 1, 2):
        for npos in (0, 1, 2):
            for kwo in ((), (('k', 'v(5)'),), (('k', None), ('m', 'v(6)')), (('k', 'v(5)'), ('m', 'v(6)'))):
                for ann in (False, True):
                    for clo in (False, True):
                        for star in ((False, False), (True, False), (False, True), (True, True)):
                            k += 1
                            if tier == 'quick' and k % 3:
                                continue
                            pos = [[('a', None)], [('a', None), ('b', 'v(2)')], [('a', 'v(1)'), ('b', 'v(2)')]][npos]

                            def render(lam, first=None):
                                out = [first] if first else []
                                for n_, dflt in pos:
                                    t = n_ + (': v(8)' if ann and not lam else '')
                                    out.append(t + ((' = ' if ann and not lam else '=') + dflt if dflt else ''))
                                if star[0]:
                                    out.append('*s')
                                elif kwo:
                                    out.append('*')
                                for n_, dflt in kwo:
                                    out.append(n_ + ('=' + dflt if dflt else ''))
                                if star[1]:
                                    out.append('**kw')
                                return ', '.join(out)
                            decs = ''.join(['@d\n', '@dd(v(7))\n'][:ndec])
                            need_k = any(dflt is None for _, dflt in kwo)
                            args = '1' + (', k=2' if need_k else '')
                            fn = decs + 'def f(%s)%s:\n    return %s\n' % (render(False), ' -> v(10)' if ann else '', '(a, z)' if clo else 'a')
                            meth = decs + 'def f(%s)%s:\n    return %s\n' % (render(False, 'self'), ' -> v(10)' if ann else '', '(a, z)' if clo else 'a')
                            lam = 'g = lambda %s: %s\n' % (render(True), '(a, z)' if clo else 'a')
                            ctxs = [fn + lam + 'print(f(%s), g(%s))\n' % (args, args),
                                    'def outer():\n    z = 1\n' + ind(fn + lam, 1) + '    return f(%s), g(%s)\nprint(outer())\n' % (args, args),
                                    'class K:\n    z = 2\n' + ind(meth, 1) + 'print(K().f(%s))\n' % args,
                                    'for i in range(2):\n    try:\n' + ind(fn + lam, 2) + '    finally:\n        print(f(%s), g(%s))\n' % (args, args)]
                            cases.append({'id': 'deffx:%d' % k, 'src': pre + ctxs[k % 4], 'verify': True, 'feature': 'definition-forms'})
    for k2, (decs, bases, kws) in enumerate(itertools.product(['', '@d\n', '@d\n@dd(v(1))\n'], ['', 'B', 'B, object'], ['', 'metaclass=M', 'metaclass=M, **{}'])):
        hdr = ', '.join(x for x in (bases, kws) if x)
        src = ('def v(x):\n    return x\ndef d(c):\n    return c\ndef dd(x):\n    return d\nclass B:\n    pass\nclass M(type):\n    pass\n'
               'def outer():\n    q = 5\n' + ''.join('    ' + l + '\n' for l in (decs + 'class C%s:\n    w = v(3)\n    def m(self):\n        return q, __class__' % (('(' + hdr + ')') if hdr else '')).split('\n') if l) +
               '    return C().m()[0]\nprint(outer())\n')
        cases.append({'id': 'clsfx:%d' % k2, 'src': src, 'verify': True, 'feature': 'definition-forms'})
    # every statement and expression form of the grammar (C06's generator), run against a prelude that binds every name to a universal object
    import g6corpus
    for c in g6corpus.programs(r, 700 if tier == 'quick' else 12000):
        cases.append({'id': c['id'], 'src': c['src'], 'verify': True, 'feature': 'full-grammar'})
    # hand-written block-structure stressors: every exit kind through finally/with/loops, nested
    for i, src in enumerate(STRESS):
        cases.append({'id': 'stress:%d' % i, 'src': src, 'verify': True, 'feature': 'stress'})
    return cases


STRESS = [
    # a class body reading a name that is free in the enclosing function but present in the class namespace
    '''
def f():
    x = 1
    class C:
        locals()["x"] = 2
        y = x
    return C.y
print(f())
def g():
    x = 1
    class C:
        y = x
    return C.y
print(g())
''',
    # return / break / continue through finally and with, nested
    '''
def f(k):
    for i in range(3):
        try:
            try:
                if k == 0: continue
                if k == 1: break
                if k == 2: return i
                if k == 3: raise ValueError("x")
            finally:
                print("inner", i)
        except ValueError:
            print("caught")
        finally:
            print("outer", i)
    else:
        print("else")
    return -1
for k in range(5):
    print(f(k))
''',
    '''
class CM:
    def __init__(self, s): self.s = s
    def __enter__(self): return 1
    def __exit__(self, a, b, c): return self.s
def g(k):
    while True:
        with CM(k % 2 == 0) as x:
            with CM(False):
                if k == 0: raise KeyError("k")
                if k == 1: return 5
                if k == 2: break
        k -= 1
        if k < 0: break
    return k
for k in range(5):
    try:
        print(g(k))
    except KeyError:
        print("KeyError")
''',
    '''
def gen(n):
    try:
        for i in range(n):
            try:
                x = yield i
                if x: yield x
            finally:
                print("fin", i)
    finally:
        print("done")
    return 7
for v in gen(3): print(v)
it = gen(2)
print(next(it)); print(it.send(9)); print(next(it))
def deleg():
    y = yield from gen(1)
    yield from [1, 2]
for v in deleg(): print(v)
''',
    '''
def h(a):
    try:
        return [x for x in range(a) if x % 2] + [y for y in (1, 2)]
    except Exception as e:
        try:
            raise
        except ZeroDivisionError:
            pass
        finally:
            del a
    finally:
        try:
            pass
        finally:
            print("ff")
print(h(3))
d = {k: v for k, v in zip("ab", (1, 2))}
s = {c for c in "aab"}
f = lambda *a, **k: (a, k)
print(len(d), len(s), len(f(1, 2, z=3)))
''',
]


def borrowed_corpus(modname):
    """Programs generated by another property's generator (C02: statement nestings x exit actions; C05: generator state
    machines) - obtained by running that generator with the interpreter run stubbed out (its own oracle results are fed back)."""
    import importlib
    mod = importlib.import_module(modname)
    captured = []
    last = {}

    def fake_oracle(cases, workers=None):
        res = common.oracle_exec(cases, workers)
        last.clear()
        last.update(res)
        return res

    def fake_vrun(mode, cases, **kw):
        if mode == 'exec':
            captured.extend(c for c in cases if 'src' in c)
        return ({c['id']: dict(last.get(c['id'], {'id': c['id'], 'out': ''})) for c in cases}, {'dir': None, 'race_reports': []})
    saved = (mod.run_vrun, mod.oracle_exec)
    mod.run_vrun, mod.oracle_exec = fake_vrun, fake_oracle
    try:
        dummy = common.Reporter('C12', 'quick')
        dummy.known = []
        mod.run('quick', dummy)
    finally:
        mod.run_vrun, mod.oracle_exec = saved
    return captured


def run(tier, rep):
    cases = corpus(tier)
    if tier == 'thorough':
        r = rng(PID, 'borrow')
        for modname in ('c02', 'c05'):
            try:
                got = borrowed_corpus(modname)
            except Exception as e:
                rep.inconc('could not borrow the %s corpus: %r' % (modname, e))
                got = []
            r.shuffle(got)
            for i, c in enumerate(got[:6000]):
                cases.append({'id': '%s:%d' % (modname, i), 'src': c['src'], 'verify': True, 'feature': modname})
    feat = {c['id']: c.pop('feature') for c in cases}
    fg = [c for c in cases if c['id'].startswith('g6:')]
    res, _ = common.run_vrun('exec', [c for c in cases if not c['id'].startswith('g6:')], timeout_case=60)
    # full-grammar programs may loop for ever on a literal condition: short watchdog, a timeout is inconclusive
    res_fg, _ = common.run_vrun('exec', fg, timeout_case=8)
    res.update(res_fg)
    tot = {'codes': 0, 'instrs': 0, 'states': 0, 'dyn_instrs': 0, 'dyn_sites': 0, 'dyn_pairs': 0, 'overflow': 0, 'compile_rejected': 0, 'maxdepth': 0, 'maxblock': 0, 'lazy': 0}
    opcodes = set()
    nontriv = set()
    samples = []
    for c in cases:
        g = res.get(c['id'])
        if g is None or g.get('timeout') or g.get('wall_timeout'):
            rep.inconc('no result / timeout for %s' % c['id'])
            continue
        rep.evaluations += 1
        if g.get('crash') or g.get('panic') or g.get('harness_panic'):
            # a VM panic while executing compiler output is within C12's scope when it is a stack/block inconsistency
            msg = str(g.get('panic') or g.get('harness_panic') or 'crash')
            rep.violation('C12|%s|panic:%s' % (feat[c['id']], norm(msg)), {'case': c, 'got': {k: common.short(v, 1500) for k, v in g.items()}})
            continue
        if g.get('cerr'):
            tot['compile_rejected'] += 1
            continue
        vs = g.get('vstat') or {}
        ds = g.get('dyn') or {}
        tot['codes'] += vs.get('codes', 0)
        tot['instrs'] += vs.get('instrs', 0)
        tot['states'] += vs.get('states', 0)
        tot['overflow'] += vs.get('overflow', 0)
        tot['dyn_instrs'] += ds.get('instrs', 0)
        tot['dyn_sites'] += ds.get('sites', 0)
        tot['dyn_pairs'] += ds.get('pairs', 0)
        tot['lazy'] += ds.get('lazy', 0)
        tot['maxdepth'] = max(tot['maxdepth'], ds.get('maxdepth', 0))
        tot['maxblock'] = max(tot['maxblock'], ds.get('maxblock', 0))
        opcodes.update(ds.get('opcodes') or [])
        if vs.get('overflow'):
            rep.inconc('verifier state budget exceeded in %s' % c['id'])
        if vs.get('states', 0) > vs.get('instrs', 0) or ds.get('maxblock', 0) >= 2:
            nontriv.add(c['id'])
        for e in g.get('verrs') or []:
            rep.violation('C12|static|%s' % norm(e), {'case': c, 'error': e, 'all': g.get('verrs')})
        for e in g.get('dynerrs') or []:
            rep.violation('C12|dynamic|%s' % norm(e), {'case': c, 'error': e, 'all': g.get('dynerrs')})
        if len(samples) < 3 and feat[c['id']] == 'gen' and ds.get('maxblock', 0) >= 3:
            samples.append({'id': c['id'], 'source_excerpt': c['src'][len(progen.PRELUDE):][:600], 'verifier': vs, 'dynamic': {k: v for k, v in ds.items() if k != 'opcodes'}})
    rep.nontrivial = nontriv
    rep.samples = samples or [{'id': cases[0]['id']}]
    rep.rule = ('corpus = every .py file under the repository + full-grammar modules of the C06 generator run over a universal object + definition forms (decorators x defaults x keyword-only defaults x annotations x closure x */** x lambda x 4 contexts) + seeded structurally rich generated programs (nested loops/try/finally/with/generators/closures/comprehensions, every exit kind, '
                'driven down several data-dependent paths) + hand-written block stressors; every emitted code object (recursively) is verified statically on ALL paths and every executed instruction is checked dynamically; '
                'non-trivial = program whose verifier explored more states than instructions (several abstract states per pc: finally/with bodies) or that executed with block depth >= 2')
    rep.extra = dict(tot, opcodes_executed=len(opcodes), opcode_names=sorted(opcodes))
    rep.assumptions = ['the verifier models the VM semantics of vm/eval.go as read at the pinned commit; the dynamic monitor cross-validates it on every executed instruction',
                       'lnotab addresses must be instruction boundaries and lines within the source; unreachable (dead) code is not required to be well-formed beyond decoding']
    if tot['dyn_instrs'] == 0 or tot['codes'] == 0:
        rep.broke('H2 hook never fired or no code object verified')
