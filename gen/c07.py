"""C07 - integer arithmetic is exact and independent of internal representation.
Monitor: vrun api (Go API, both representations) + vrun exec (compiled source); oracle: CPython ints."""
import math, itertools, json
import common
from common import rng, run_vrun, short

PID = 'C07'
BINOPS = ['add', 'sub', 'mul', 'floordiv', 'mod', 'divmod', 'and', 'or', 'xor', 'lt', 'le', 'eq', 'ne', 'gt', 'ge',
          'iadd', 'isub', 'imul', 'ifloordiv', 'imod', 'iand', 'ior', 'ixor']
UNOPS = ['neg', 'pos', 'abs', 'invert', 'bool', 'str', 'repr', 'call:hex', 'call:oct', 'call:bin', 'call:int', 'call:abs', 'call:str', 'not']
SYM = {'add': '+', 'sub': '-', 'mul': '*', 'floordiv': '//', 'mod': '%', 'and': '&', 'or': '|', 'xor': '^', 'lt': '<', 'le': '<=', 'eq': '==', 'ne': '!=',
       'gt': '>', 'ge': '>=', 'lshift': '<<', 'rshift': '>>', 'pow': '**'}


def lattice(tier):
    ds = (-1, 0, 1) if tier == 'quick' else (-2, -1, 0, 1, 2)
    anchors = [2 ** 31, math.isqrt(2 ** 63 - 1), 2 ** 32, 2 ** 62, 2 ** 63, 2 ** 64, 2 ** 127]
    vals = {0, 1, -1, 2, -2}
    for a in anchors:
        for d in ds:
            vals.add(a + d)
            vals.add(-(a + d))
    return sorted(vals)


def fits(v):
    return -2 ** 63 <= v < 2 ** 63


def jint(v, big=False):
    d = {'t': 'int', 'v': str(v)}
    if big:
        d['big'] = True
    return d


def reps(v):
    """All representations to try for value v."""
    return [False, True] if fits(v) else [False]


def pyop(op, a):
    """Reference semantics (CPython exact ints). Returns ('val', encoded) or ('exc', name-set)."""
    try:
        if op in ('add', 'iadd'):
            r = a[0] + a[1]
        elif op in ('sub', 'isub'):
            r = a[0] - a[1]
        elif op in ('mul', 'imul'):
            r = a[0] * a[1]
        elif op in ('floordiv', 'ifloordiv'):
            r = a[0] // a[1]
        elif op in ('mod', 'imod'):
            r = a[0] % a[1]
        elif op == 'divmod':
            r = divmod(a[0], a[1])
        elif op in ('and', 'iand'):
            r = a[0] & a[1]
        elif op in ('or', 'ior'):
            r = a[0] | a[1]
        elif op in ('xor', 'ixor'):
            r = a[0] ^ a[1]
        elif op in ('lshift', 'ilshift'):
            r = a[0] << a[1]
        elif op in ('rshift', 'irshift'):
            r = a[0] >> a[1]
        elif op in ('pow', 'ipow'):
            r = a[0] ** a[1]
        elif op == 'pow3':
            if a[1] < 0:
                return ('exc', {'ValueError', 'TypeError'})  # 3.4: an error (3.8+ computes an inverse); type differs across 3.x
            r = pow(a[0], a[1], a[2])
        elif op == 'lt':
            r = a[0] < a[1]
        elif op == 'le':
            r = a[0] <= a[1]
        elif op == 'eq':
            r = a[0] == a[1]
        elif op == 'ne':
            r = a[0] != a[1]
        elif op == 'gt':
            r = a[0] > a[1]
        elif op == 'ge':
            r = a[0] >= a[1]
        elif op == 'neg':
            r = -a[0]
        elif op == 'pos':
            r = +a[0]
        elif op in ('abs', 'call:abs'):
            r = abs(a[0])
        elif op == 'invert':
            r = ~a[0]
        elif op in ('bool', 'call:bool'):
            r = bool(a[0])
        elif op == 'not':
            r = not a[0]
        elif op in ('str', 'repr', 'call:str'):
            r = str(a[0])
        elif op == 'call:hex':
            r = hex(a[0])
        elif op == 'call:oct':
            r = oct(a[0])
        elif op == 'call:bin':
            r = bin(a[0])
        elif op == 'call:int':
            r = int(a[0])
        elif op == 'int_from_str':
            r = int(a[0], a[1])
        else:
            raise AssertionError(op)
    except (ZeroDivisionError, ValueError, OverflowError, TypeError) as e:
        return ('exc', {type(e).__name__})
    return ('val', enc(r))


def enc(r):
    if isinstance(r, bool):
        return ('bool', r)
    if isinstance(r, int):
        return ('int', str(r))
    if isinstance(r, str):
        return ('str', r)
    if isinstance(r, tuple):
        return ('tuple', tuple(enc(x) for x in r))
    raise AssertionError(r)


def dec_result(v):
    t = v.get('t')
    if t == 'bool':
        return ('bool', v['b'])
    if t == 'int':
        return ('int', v['v'])
    if t == 'str':
        return ('str', ''.join(chr(c) for c in v['cps']))
    if t == 'tuple':
        return ('tuple', tuple(dec_result(x) for x in v['items']))
    return ('other', json.dumps(v, sort_keys=True))


def mag(v):
    if isinstance(v, str):
        return 'text'
    a = abs(v)
    if a <= 2:
        return 'tiny'
    for name, lim in (('lt2^31', 2 ** 31), ('lt2^32', 2 ** 32), ('lt2^63', 2 ** 63), ('lt2^64', 2 ** 64)):
        if a < lim:
            return name
    return 'big'


def literal(v, r):
    """A source spelling of the int v."""
    k = r.randrange(5)
    a = abs(v)
    if k == 0:
        s = hex(a)
    elif k == 1:
        s = oct(a)
    elif k == 2:
        s = bin(a)
    elif k == 3 and a != 0:
        s = '0X%X' % a
    else:
        s = str(a)
    return '(-%s)' % s if v < 0 else s


# ---- histories: many operations in ONE process, because an operation may leave something behind (a recycled temporary, a shared constant
# written to) that only a LATER operation shows.  bool operands (True is the integer 1) meet big ints; operations that allocate
# temporaries differently (shifts, **, /, bin) are mixed in; floor division, modulo and divmod with negative inexact quotients, which
# lean on the constants 0 and 1 internally, are the probes.
HIST_HEAD = 'B = 2 ** 64\nC = -(2 ** 64)\nD = 2 ** 70 + 1\nE = 10 ** 30\nF = 2 ** 63\n'
HIST_BOOL = ['B + True', 'True + B', 'B - False', 'B * True', 'B > False', 'B == True', 'True < B', 'B & True', 'B | False', 'B ^ True', 'B // True', 'B % True', 'divmod(B, True)', 'C + True', 'D * False',
             'F + True', 'True - F', 'C >= True', 'False * E', 'D - True']
HIST_TEMP = ['B << 3', 'B >> 2', 'B ** 2', 'pow(B, 3, 1000007)', 'B / 7', 'bin(B)', 'hex(D)', 'C >> 70', 'D << 1', 'str(E)', 'int("18446744073709551617")']
HIST_PROBE = ['-B // 3', 'C // 3', 'C % 7', 'divmod(B, -7)', 'divmod(C, 10 ** 30)', 'C // E', 'B // -E', '(C // 3) * 3 + C % 3 == C', 'B + 1', 'B - 1', 'B * 3', 'D % -1000', 'B + 5 - B', 'abs(C)', '-C == B',
              'B > 1', 'C < -1', 'B & 1', 'B | 1', 'B ^ 1', 'F - 1', '-F - 1', 'F // -3', 'divmod(-F, 7)', 'B + 0', 'B * 1', 'C * 0', 'E // 7', '-E % 13', 'B - B', 'D // D', 'C // B']


def history_programs(tier, r):
    out = []
    n = 60 if tier == 'quick' else 1500
    for i in range(n):
        exprs = []
        for k in range(40):
            p = r.random()
            exprs.append(r.choice(HIST_BOOL) if p < 0.25 else (r.choice(HIST_TEMP) if p < 0.45 else r.choice(HIST_PROBE)))
        if i % 3 == 0:
            exprs[0] = r.choice(HIST_BOOL)              # the very first mixed operation of the process involves a bool
        src = HIST_HEAD + ''.join('try:\n    print(%s)\nexcept TypeError:\n    print("TypeError")\n' % e for e in exprs)
        out.append({'id': 'hist%d' % i, 'src': src, 'exprs': exprs})
    return out


def run(tier, rep):
    r = rng(PID)
    L = lattice(tier)
    cases = []
    expect = {}
    meta = {}

    def add(op, vals, reprs, feature):
        cid = 'a%d' % len(cases)
        args = []
        for v, b in zip(vals, reprs):
            if isinstance(v, str):
                args.append({'t': 'str', 'cps': [ord(c) for c in v]})
            else:
                args.append(jint(v, b))
        cases.append({'id': cid, 'op': op, 'args': args})
        expect[cid] = pyop(op, vals)
        meta[cid] = (op, vals, reprs, feature)

    # binary ops over all lattice pairs in every representation combination
    for a in L:
        for b in L:
            for op in BINOPS:
                for ra in reps(a):
                    for rb in reps(b):
                        add(op, (a, b), (ra, rb), 'lattice')
    # unary
    for a in L:
        for op in UNOPS:
            for ra in reps(a):
                add(op, (a,), (ra,), 'lattice')
    # shifts: counts small / boundary / negative; rshift also by huge counts
    counts = [0, 1, 2, 30, 31, 32, 33, 62, 63, 64, 65, 127, 128, 200, -1, -2, -2 ** 63, -2 ** 64]
    for a in L:
        for c in counts:
            for ra in reps(a):
                for rc in reps(c):
                    add('lshift', (a, c), (ra, rc), 'shift')
                    add('rshift', (a, c), (ra, rc), 'shift')
                    add('ilshift', (a, c), (ra, rc), 'shift')
                    add('irshift', (a, c), (ra, rc), 'shift')
        for c in (2 ** 31, 2 ** 62, 2 ** 63 - 1, 2 ** 63, 2 ** 64, 2 ** 127):
            for ra in reps(a):
                add('rshift', (a, c), (ra, False), 'shift-huge')
    # pow: small exponents only (result sizes bounded); pow3 over the lattice
    exps = [0, 1, 2, 3, 4, 5, 7, 16, 31, 32, 33, 62, 63, 64, 65]
    for a in L:
        for e in exps:
            if abs(a) > 2 ** 64 and e > 16:
                continue
            for ra in reps(a):
                for re_ in reps(e):
                    add('pow', (a, e), (ra, re_), 'pow')
                    add('ipow', (a, e), (ra, re_), 'pow')
    smallL = [v for v in L if abs(v) <= 2 or abs(abs(v) - 2 ** 63) <= 1 or abs(abs(v) - 2 ** 31) <= 1 or abs(abs(v) - 2 ** 64) <= 1 or abs(abs(v) - math.isqrt(2 ** 63 - 1)) <= 1]
    pexps = [0, 1, 2, 3, 63, 64, 2 ** 63 - 1, 2 ** 63, 2 ** 64 + 1, -1, -2 ** 63]
    mods = [v for v in smallL]
    trip = list(itertools.product(smallL, pexps, mods))
    if tier == 'quick':
        r.shuffle(trip)
        trip = trip[:6000]
    for a, e, m in trip:
        combos = [(ra, re_, rm) for ra in reps(a) for re_ in reps(e) for rm in reps(m)]
        if tier == 'quick':
            combos = [combos[0], combos[-1]] if len(combos) > 1 else combos
        for c in combos:
            add('pow3', (a, e, m), c, 'pow3')
    # random operands 1..192 bits
    nrand = 3000 if tier == 'quick' else 500000
    allops = BINOPS + ['lshift', 'rshift']
    for i in range(nrand):
        op = r.choice(allops)
        a = r.getrandbits(r.randrange(1, 193)) * r.choice((1, -1))
        b = r.getrandbits(r.randrange(1, 193)) * r.choice((1, -1))
        if op in ('lshift', 'rshift'):
            b = r.randrange(0, 200)
        add(op, (a, b), (r.random() < 0.5 and fits(a), r.random() < 0.5 and fits(b)), 'random')
    # text conversion
    texts = []
    for v in L + [r.getrandbits(r.randrange(1, 150)) * r.choice((1, -1)) for _ in range(200)]:
        a = abs(v)
        sg = '-' if v < 0 else ''
        texts += [(sg + str(a), 10), (sg + str(a), 0), (sg + hex(a), 16), (sg + hex(a), 0), (sg + hex(a)[2:], 16), (sg + oct(a), 8), (sg + oct(a), 0), (sg + oct(a)[2:], 8),
                  (sg + bin(a), 2), (sg + bin(a), 0), (sg + bin(a)[2:], 2), ('  ' + sg + str(a) + ' ', 10), ('+' + str(a), 10), (sg + hex(a).upper().replace('0X', '0x'), 16)]
    # zeros after a base prefix are digits like any other; only a decimal literal in base 0 may not start with one
    texts += [('0x01', 0), ('0b01', 0), ('0o017', 0), ('0x00', 0), ('-0X00ff', 0), ('0x01', 16), ('0b0001', 2), ('0o00', 8), ('0B0', 0), ('0O0007', 0), ('+0x000', 0), ('0x0000000000000000000001', 0), ('0b' + '0' * 70 + '1', 0),
              ('01', 0), ('-007', 0), ('00x1', 0), ('0x0x1', 0)]
    texts += [('', 10), ('-', 10), ('0x', 16), ('0x', 0), ('12a', 10), ('0b2', 0), ('0o8', 0), ('1 2', 10), ('0777', 0), ('00', 0), ('0', 0), ('-0', 10), ('9' * 40, 10), ('z', 36), ('Z' * 14, 36),
              ('1', 1), ('1', 37), ('1', -1), ('--5', 10), ('+-5', 10), ('-+5', 10), ('0x-5', 16), ('0x+5', 0), ('- 5', 10), ('-0x10', 0), ('0x 10', 16), ('000', 0), ('--' + '7' * 30, 10), ('+-' + 'f' * 30, 16), ('0b-1', 2), ('0o+7', 8), ('0x' + '-' + 'f' * 20, 16), ('1e3', 10), ('1.0', 10), ('0x', 10), ('0b', 16), ('0b1', 16), ('0B', 36), ('0o', 36), ('0x1', 36), ('1' * 13, 2), ('9' * 19, 10), ('9' * 18, 10), ('z' * 12, 36), ('z' * 13, 36), ('10', 2), ('1\n', 10), ('\t-7\n', 10)]
    for t, base in texts:
        add('int_from_str', (t, base), (False, False), 'text')

    res, _ = run_vrun('api', cases, timeout_case=30)
    nontriv = set()
    rep.evaluations += len(cases)
    samples = []
    # judge
    groups = {}
    for c in cases:
        cid = c['id']
        op, vals, reprs, feature = meta[cid]
        g = res.get(cid)
        kind, exp = expect[cid]
        if g is None:
            rep.inconc('no result for %s' % cid)
            continue
        witness = {'case': c, 'vrun_mode': 'api', 'op': op, 'operands': [str(v) for v in vals], 'reps': reprs, 'expected': [kind, sorted(exp) if kind == 'exc' else exp], 'got': {k: g[k] for k in g if k in ('val', 'exc', 'excmsg', 'panic', 'crash', 'timeout')}}
        mg = '/'.join(mag(v) for v in vals)
        base_sig = 'C07|api|op=%s|mag=%s|' % (op, mg)
        if g.get('timeout') or g.get('wall_timeout'):
            rep.inconc('timeout %s %s' % (op, short(vals)))
            continue
        if g.get('panic') or g.get('crash') or g.get('harness_panic'):
            rep.violation(base_sig + 'panic', witness)
            continue
        if any(not fits(v) or b for v, b in zip(vals, reprs) if not isinstance(v, str)):
            nontriv.add((op, vals))
        if 'exc' in g:
            if kind == 'exc' and g['exc'] in exp:
                pass
            elif kind == 'exc':
                rep.violation(base_sig + 'wrong-exc:%s-for-%s' % (g['exc'], '/'.join(sorted(exp))), witness)
            else:
                rep.violation(base_sig + 'exc-instead-of-value:%s' % g['exc'], witness)
            continue
        got = dec_result(g['val'])
        # ints are immutable: no operator, in-place ones included, may change an operand that someone else still refers to
        aft = g.get('after')
        if aft is not None:
            changed = [i for i, (v, a_) in enumerate(zip(vals, aft)) if not isinstance(v, (str, bool)) and dec_result(a_) != ('int', str(v)) and dec_result(a_) != ('int', v)]
            if changed:
                rep.violation(base_sig + 'operand-mutated', dict(witness, operands_after=[dec_result(a_) for a_ in aft]))
                continue
        if kind == 'exc':
            rep.violation(base_sig + 'value-instead-of-exc:%s' % '/'.join(sorted(exp)), witness)
        elif got != exp:
            rep.violation(base_sig + 'wrong-value', witness)
        if len(samples) < 6 and feature in ('lattice', 'pow3') and r.random() < 0.0005:
            samples.append({'op': op, 'operands': [str(v) for v in vals], 'as_bigint': list(reprs), 'result': g.get('val', g.get('exc'))})
    # ---------------- compiled-source variant -----------------
    progs = []
    pexp = {}
    srcops = ['add', 'sub', 'mul', 'floordiv', 'mod', 'and', 'or', 'xor', 'lt', 'le', 'eq', 'ne', 'gt', 'ge', 'lshift', 'rshift', 'pow']
    pairs = [(a, b) for a in L for b in L]
    if tier == 'quick':
        r.shuffle(pairs)
        pairs = pairs[:700]
    lines_per = 40
    cur = []
    curexp = []

    def flush():
        nonlocal cur, curexp
        if cur:
            pid_ = 's%d' % len(progs)
            progs.append({'id': pid_, 'src': ''.join(cur)})
            pexp[pid_] = curexp
            cur, curexp = [], []
    EXC = ['ZeroDivisionError', 'ValueError', 'OverflowError', 'TypeError']
    for a, b in pairs:
        for op in srcops:
            bb = b
            if op in ('lshift', 'pow'):
                bb = abs(b) % 67 if op == 'lshift' else abs(b) % 9
                if op == 'lshift' and b < 0:
                    bb = -1 - (abs(b) % 3)
            if op == 'rshift' and b < 0:
                bb = -1
            kind, e = pyop(op, (a, bb))
            expr = '%s %s %s' % (literal(a, r), SYM[op], literal(bb, r))
            cur.append('try:\n    print(%s)\n' % expr + ''.join('except %s:\n    print("%s")\n' % (x, x) for x in EXC))
            if kind == 'exc':
                curexp.append((expr, sorted(e)))
            else:
                curexp.append((expr, [str(e[1])]))
            if len(curexp) >= lines_per:
                flush()
    flush()
    pres, _ = run_vrun('exec', progs, timeout_case=30)
    rep.evaluations += sum(len(v) for v in pexp.values())
    for p in progs:
        g = pres.get(p['id'])
        if g is None or g.get('timeout'):
            rep.inconc('source program %s: no result' % p['id'])
            continue
        if g.get('panic') or g.get('crash') or g.get('exc') or g.get('cerr'):
            rep.violation('C07|src|abnormal:%s' % (g.get('exc') or g.get('cerr') or 'panic'), {'case': p, 'got': {k: short(v) for k, v in g.items()}})
            continue
        lines = g.get('out', '').split('\n')
        exps = pexp[p['id']]
        if len(lines) - 1 != len(exps):
            rep.violation('C07|src|line-count', {'case': p, 'got': short(g.get('out'))})
            continue
        for (expr, e), l in zip(exps, lines):
            nontriv.add(('src', expr))
            if l not in e:
                opname = expr.split(' ')[1]
                rep.violation('C07|src|op=%s|wrong' % opname, {'case': {'id': 'x', 'src': 'print(%s)\n' % expr}, 'expr': expr, 'expected': e, 'got': l})
    # ---------------- histories in one process -----------------
    hp = history_programs(tier, r)
    hexp = common.oracle_exec([{'id': c['id'], 'src': c['src']} for c in hp])
    hgot, _ = run_vrun('exec', [{'id': c['id'], 'src': c['src']} for c in hp], timeout_case=30, extra=['-percase'])
    hstats = {'programs': 0, 'expressions_judged': 0, 'bool_operand_unsupported': 0}
    for c in hp:
        e, g = hexp.get(c['id']) or {}, hgot.get(c['id'])
        if g is None or g.get('timeout') or e.get('oracle_failed') or e.get('exc'):
            rep.inconc('history program %s: no result' % c['id'])
            continue
        if g.get('panic') or g.get('crash') or g.get('exc') or g.get('cerr'):
            rep.violation('C07|history|abnormal:%s' % (g.get('exc') or g.get('cerr') or 'panic'), {'case': {'id': c['id'], 'src': c['src']}, 'got': {k: short(v) for k, v in g.items()}})
            continue
        hstats['programs'] += 1
        el, gl = e.get('out', '').split('\n')[:-1], g.get('out', '').split('\n')[:-1]
        for k, ex in enumerate(c['exprs']):
            x, y = (el[k] if k < len(el) else None), (gl[k] if k < len(gl) else None)
            if y == 'TypeError' and ('True' in ex or 'False' in ex):
                hstats['bool_operand_unsupported'] += 1      # gpython's bool is not an int subclass everywhere: a missing feature, not a wrong value
                continue
            hstats['expressions_judged'] += 1
            nontriv.add(('hist', ex, c['exprs'][k - 1] if k else ''))
            if x != y:
                cls_ = 'bool-operand' if ('True' in ex or 'False' in ex) else ('probe' if ex in HIST_PROBE else 'temp')
                rep.violation('C07|history|%s|wrong-value-after-earlier-operations' % cls_, {'case': {'id': c['id'], 'src': c['src']}, 'expression': ex, 'position': k, 'earlier': c['exprs'][:k][-6:], 'expected': x, 'got': y})
                break
    rep_hist = hstats
    rep.nontrivial = nontriv
    rep.samples = samples or [{'op': meta['a0'][0], 'operands': [str(v) for v in meta['a0'][1]]}]
    rep.samples.append({'source_program_excerpt': progs[0]['src'][:300]})
    rep.rule = ('boundary lattice (%d values: 0,+-1,+-2 and +-(2^31, isqrt(2^63-1), 2^32, 2^62, 2^63, 2^64, 2^127)+delta) squared x %d binary ops x every Int/BigInt representation combination; '
                'shifts, pow, 3-arg pow (sampled in quick), seeded random 1..192-bit operands, text conversion in bases 0/2/8/10/16/36; same operators compiled from source with hex/oct/bin/decimal literal spellings; histories of 40 operations in one fresh process mixing bool operands, temporaries-allocating operations and floor-division probes. '
                'non-trivial = distinct (op, operands) where an operand needs or is forced into the arbitrary-precision representation, plus distinct source expressions' % (len(L), len(BINOPS)))
    rep.extra = {'histories': rep_hist, 'lattice_size': len(L), 'api_cases': len(cases), 'source_programs': len(progs), 'source_expressions': sum(len(v) for v in pexp.values())}
    rep.assumptions = ['CPython %s exact ints are the reference' % '.'.join(map(str, __import__('sys').version_info[:3])),
                       '3-arg pow with negative exponent: TypeError or ValueError accepted (3.4 raised; type differs across 3.x)']
