"""C15 - float and mixed-type arithmetic follow IEEE-754 with Python's rules.

Monitor : vrun api (py.Add ... py.Pow, comparisons, float()/int()/round()/str()/repr(), sum/min/max/abs/pow/divmod builtins) on
          operands built bit-exactly from JSON; result = IEEE bit pattern (any NaN == NaN, +-0 distinguished) or exception type.
          A compiled-source variant prints int(expr * 2**20) and comparison outcomes (ints only on stdout).
Oracle  : CPython executed in-process (floats are IEEE doubles there; struct gives the bits).
Tolerances (documented, not findings): `**` with an inexact result <= 1 ulp (libm); complex division <= 2 ulp per component;
          complex operations are judged only when all operands and the CPython result are finite.
"""
import math, operator, itertools, struct, fractions
import common
from common import rng, run_vrun, short
from apicodec import Big, enc, dec, canon, show, outcome, fbits, from_bits

PID = 'C15'
INF = float('inf')
NAN = float('nan')
MAXF = 1.7976931348623157e308


def fits(v):
    return -2 ** 63 <= v < 2 ** 63


def nxt(x, d):
    return math.nextafter(x, d)


def float_lattice(tier):
    L = [0.0, -0.0, 5e-324, -5e-324, 2.225073858507201e-308, 2.2250738585072014e-308, -2.2250738585072014e-308,
         1.0, -1.0, nxt(1.0, 2.0), nxt(1.0, 0.0), 2.0, -2.0, 3.0, -3.0, 7.0, -7.0, 10.0, 0.25,
         0.5, -0.5, 1.5, -1.5, 2.5, -2.5, 3.5, 4.5, 0.1, 0.3, 2.675, 4.35, 1 / 3, 1e-5, 123456789.125, 0.49999999999999994, 5e15 + 0.5, 4503599627370497.5,
         float(2 ** 53 - 1), float(2 ** 53), float(2 ** 53 + 2), float(2 ** 63), nxt(2.0 ** 63, 0.0), nxt(2.0 ** 63, INF), -float(2 ** 63), nxt(-2.0 ** 63, -INF), float(2 ** 64),
         float(2 ** 31), 1e16, 1e22, 1e23, 1e300, 1e-300, MAXF, -MAXF, nxt(MAXF, 0.0), INF, -INF, NAN]
    if tier != 'quick':
        L += [nxt(2.0, 3.0), nxt(2.0, 1.0), nxt(0.5, 0.0), -4.5, 5.5, 6.5, 0.7, 1e-7, 1e15, 9007199254740993.0, 2.0 ** 1023, 2.0 ** -1022, 2.0 ** -1074 * 3, 1e308, -1e308, 1.1, 2.2, 1e21, 1e-4, 0.0001220703125]
    return L


def int_lattice(tier):
    L = [0, 1, -1, 2, -2, 3, 7, 10, -10, 2 ** 31, 2 ** 53 - 1, 2 ** 53, 2 ** 53 + 1, 2 ** 53 + 2, 2 ** 53 + 3, -(2 ** 53 + 1), 2 ** 62, 2 ** 63 - 1, 2 ** 63, -2 ** 63,
         2 ** 63 + 1, 2 ** 64, 2 ** 64 + 1, 2 ** 64 + 2 ** 11, 2 ** 64 + 2 ** 11 + 1, 2 ** 64 + 3 * 2 ** 11, -(2 ** 64 + 2 ** 11 + 1), 10 ** 22, 10 ** 23,
         2 ** 1023, 2 ** 1024 - 2 ** 970, 2 ** 1024 - 2 ** 970 + 2 ** 969 - 1, 2 ** 1024 - 2 ** 970 + 2 ** 969, 2 ** 1024, 10 ** 308, 10 ** 309, -10 ** 309]
    if tier != 'quick':
        L += [2 ** 63 - 2 ** 9, 2 ** 63 - 2 ** 9 - 1, 2 ** 63 - 2 ** 9 + 1, 2 ** 54 + 2, 2 ** 54 + 6, 2 ** 100 + 2 ** 47, 2 ** 100 + 2 ** 47 + 1, 2 ** 100 - 2 ** 46, 5, -5, 25, 35, 15, 45, 150, 250, -250, 10 ** 15 + 5, 2 ** 2000]
    return L


BIN = {'add': operator.add, 'sub': operator.sub, 'mul': operator.mul, 'truediv': operator.truediv, 'floordiv': operator.floordiv, 'mod': operator.mod,
       'divmod': divmod, 'pow': operator.pow, 'lt': operator.lt, 'le': operator.le, 'eq': operator.eq, 'ne': operator.ne, 'gt': operator.gt, 'ge': operator.ge}
SYM = {'add': '+', 'sub': '-', 'mul': '*', 'truediv': '/', 'floordiv': '//', 'mod': '%', 'pow': '**', 'lt': '<', 'le': '<=', 'eq': '==', 'ne': '!=', 'gt': '>', 'ge': '>='}
CMP = ('lt', 'le', 'eq', 'ne', 'gt', 'ge')
EXC = (ZeroDivisionError, OverflowError, ValueError, TypeError)


def real(v):
    return v.v if isinstance(v, Big) else v


def seq_sum(xs):
    acc = 0
    for x in xs:
        acc = acc + x
    return acc


def py_eval(op, args):
    a = [real(x) for x in args]
    try:
        if op in BIN:
            r = BIN[op](a[0], a[1])
        elif op == 'neg':
            r = -a[0]
        elif op == 'pos':
            r = +a[0]
        elif op in ('abs', 'call:abs'):
            r = abs(a[0])
        elif op == 'bool':
            r = bool(a[0])
        elif op == 'call:int':
            r = int(a[0])
        elif op == 'call:float':
            r = float(a[0])
        elif op == 'call:round':
            r = round(*a)
        elif op in ('str', 'repr', 'call:str', 'call:repr'):
            r = repr(a[0])
        elif op == 'call:sum':
            r = seq_sum(a[0])
        elif op == 'call:min':
            r = min(*a)
        elif op == 'call:max':
            r = max(*a)
        elif op == 'call:divmod':
            r = divmod(a[0], a[1])
        elif op == 'call:pow':
            r = pow(a[0], a[1])
        else:
            raise AssertionError(op)
    except EXC as e:
        return ('exc', type(e).__name__)
    return ('val', canon(r))


def ordkey(bits):
    u = int(bits, 16)
    return -(u & 0x7fffffffffffffff) if u >> 63 else u


POW_ULPS = 4


def ulps(b1, b2):
    if b1 == 'nan' or b2 == 'nan':
        return 0 if b1 == b2 else 1 << 62
    return abs(ordkey(b1) - ordkey(b2))


def pow_exact_required(x, y, exp_bits):
    """True when the mathematically exact x**y is representable (then the result must be exact)."""
    try:
        if isinstance(x, complex) or isinstance(y, complex):
            return True
        if exp_bits == 'nan':
            return True
        e = from_bits(exp_bits)
        if math.isinf(e) or e == 0.0:
            return True
        fx, fy = float(x), float(y)
        if math.isinf(fx) or math.isinf(fy) or fy != int(fy) or abs(fy) > 64 or fx == 0:
            return fy == int(fy) and abs(fy) <= 1
        return fractions.Fraction(x) ** int(fy) == fractions.Fraction(e)
    except (OverflowError, ValueError, ZeroDivisionError):
        return False


def pow_inaccurate_only(exp, got):
    """True when two pow results differ by more than the tolerance but agree to a relative error of 1e-4 (per component
    relative to the magnitude for complex results): the routine is inaccurate, the rule applied is the right one."""
    try:
        if exp[0] == 'float' and got[0] == 'float':
            e, g = from_bits(exp[1]), from_bits(got[1])
            if math.isnan(e) or math.isinf(e) or math.isnan(g) or math.isinf(g) or e == 0:
                return False
            return abs(e - g) <= 1e-4 * abs(e)
        if exp[0] == 'complex' and got[0] == 'complex':
            er, ei, gr, gi = (from_bits(exp[1]), from_bits(exp[2]), from_bits(got[1]), from_bits(got[2]))
            mag = max(abs(er), abs(ei))
            if mag == 0 or math.isinf(mag) or math.isnan(mag):
                return False
            return abs(er - gr) <= 1e-4 * mag and abs(ei - gi) <= 1e-4 * mag
    except Exception:
        pass
    return False


def close_enough(op, args, exp, got):
    """Documented tolerances. exp/got are canonical values."""
    if exp == got:
        return True
    if exp[0] != got[0]:
        return False
    if op in ('pow', 'call:pow') and exp[0] == 'float':
        a = [real(x) for x in args]
        if not pow_exact_required(a[0], a[1], exp[1]):
            # Python does not define a correctly rounded pow: CPython delegates to the platform libm, gpython to Go's math.Pow
            return ulps(exp[1], got[1]) <= POW_ULPS
    if op in ('pow', 'call:pow') and exp[0] == 'complex':
        # negative base ** fractional exponent: computed in polar form; the small component is cancellation noise, so the
        # error is judged relative to the magnitude of the result
        try:
            er, ei, gr, gi = (from_bits(exp[1]), from_bits(exp[2]), from_bits(got[1]), from_bits(got[2]))
            mag = max(abs(er), abs(ei))
            if mag == 0 or math.isinf(mag) or math.isnan(mag):
                return False
            tol = POW_ULPS * 4 * mag * 2.0 ** -52
            return abs(er - gr) <= tol and abs(ei - gi) <= tol
        except Exception:
            return False
    if op == 'truediv' and exp[0] == 'complex':
        return ulps(exp[1], got[1]) <= 2 and ulps(exp[2], got[2]) <= 2
    return False


def tclass(v):
    if isinstance(v, Big):
        return 'bigrep'
    if isinstance(v, bool):
        return 'bool'
    if isinstance(v, int):
        return 'int' if fits(v) else 'bigint'
    if isinstance(v, float):
        return 'float'
    if isinstance(v, complex):
        return 'complex'
    if isinstance(v, str):
        return 'str'
    if isinstance(v, (list, tuple)):
        return 'seq'
    if v is None:
        return 'none'
    return type(v).__name__


def vtags(v):
    v = real(v)
    t = set()
    if isinstance(v, (list, tuple)):
        for x in v:
            t |= vtags(x)
        return t
    if isinstance(v, bool) or v is None or isinstance(v, str):
        return t
    if isinstance(v, int):
        if abs(v) > 2 ** 53:
            t.add('int>2^53')
        if abs(v) >= 2 ** 1024 - 2 ** 970 + 2 ** 969:
            t.add('int>maxfloat')
        if v == 0:
            t.add('zero')
        return t
    if isinstance(v, complex):
        return vtags(v.real) | vtags(v.imag)
    if v != v:
        t.add('nan')
    elif math.isinf(v):
        t.add('inf')
    elif v == 0:
        t.add('zero')
        if math.copysign(1, v) < 0:
            t.add('negzero')
    elif abs(v) < 2.2250738585072014e-308:
        t.add('subnormal')
    elif v != int(v):
        t.add('frac')
    elif abs(v) >= 2.0 ** 63:
        t.add('>=2^63')
    return t


def has_big_int(v):
    v = real(v)
    if isinstance(v, (list, tuple)):
        return any(has_big_int(x) for x in v)
    return isinstance(v, int) and not isinstance(v, bool) and abs(v) > 2 ** 53


def has_type(v, t):
    if isinstance(v, (list, tuple)):
        return any(has_type(x, t) for x in v)
    return isinstance(v, t)


AREA = {'floordiv': 'floordiv-mod', 'mod': 'floordiv-mod', 'divmod': 'floordiv-mod', 'call:divmod': 'floordiv-mod', 'pow': 'pow', 'call:pow': 'pow',
        'call:min': 'minmax', 'call:max': 'minmax', 'str': 'text', 'repr': 'text', 'call:str': 'text', 'call:repr': 'text', 'call:int': 'int(float)',
        'call:sum': 'sum', 'lt': 'compare', 'le': 'compare', 'gt': 'compare', 'ge': 'compare', 'eq': 'compare', 'ne': 'compare'}


def sig(op, args, dev, mode='api'):
    """C15|<area>|<deviation>|<op>|<operand types>|<value tags>|<api/src>. area = the cross-cutting operand feature when there is one
    (an int that does not fit a double exactly; a bool; a forced-BigInt small int; a complex), else the operation family."""
    types = ','.join(tclass(a) for a in args)
    tags = set()
    for a in args:
        tags |= vtags(a)
    tags -= {'frac'}
    if any(has_big_int(a) for a in args):
        area = 'int-beyond-2^53'
    elif any(has_type(a, bool) for a in args):
        area = 'bool-operand'
    elif any(has_type(a, Big) for a in args):
        area = 'bigrep-operand'
    elif any(has_type(a, complex) for a in args):
        area = 'complex'
    elif op == 'call:round':
        area = 'round-float' if isinstance(args[0], float) else 'round-int'
    elif op == 'call:float':
        area = 'float(text)' if isinstance(args[0], str) else 'float(int)'
    else:
        area = AREA.get(op, 'arith')
    if area in ('text', 'int(float)') and isinstance(args[0], float):
        # refine by the value class the known defects depend on, so that they do not mask the ordinary values
        v = args[0]
        if v != v or math.isinf(v):
            area += '-nonfinite'
        elif v == 0 and math.copysign(1, v) < 0:
            area += '-negzero'
        elif area == 'text' and ((v != int(v) and abs(v) >= 1e6) or (v == int(v) and 1e16 <= abs(v) <= 2.0 ** 63)):
            area += '-expform-zone'
        elif area == 'int(float)' and abs(v) >= 2.0 ** 63:
            area += '>=2^63'
    if op == 'call:round' and len(args) > 1:
        n = real(args[1])
        types += '(n%s)' % ('none' if n is None else ('<0' if n < 0 else ('=0' if n == 0 else '>0')))
    if op in ('pow', 'call:pow'):
        a = [real(x) for x in args]
        try:
            if a[0] < 0:
                tags.add('negbase')
            if a[1] < 0:
                tags.add('negexp')
        except TypeError:
            pass
    return 'C15|%s|%s|%s|%s|%s|%s' % (area, dev, op, types, '+'.join(sorted(tags)) or 'plain', mode)


def lit(v):
    v = real(v)
    if isinstance(v, bool):
        return 'True' if v else 'False'
    if isinstance(v, int):
        return '(%d)' % v if v < 0 else str(v)
    if isinstance(v, float):
        if v != v or math.isinf(v):
            return None
        s = repr(v)
        return '(%s)' % s if s.startswith('-') else s
    return None


def run(tier, rep):
    import gc
    gc.disable()
    r = rng(PID)
    FL = float_lattice(tier)
    IL = int_lattice(tier)
    cases, info = [], {}

    def add(op, args, feature):
        cid = 'a%d' % len(cases)
        e = py_eval(op, args)
        cases.append({'id': cid, 'op': op, 'args': [enc(a) for a in args]})
        info[cid] = (op, args, e, feature)

    # ---------------- canary ----------------
    can = [('add', [1.5, 2.25], canon(3.75)), ('mul', [3, 0.5], canon(1.5)), ('lt', [1.0, 2], canon(True)), ('neg', [2.5], canon(-2.5)), ('call:float', [3], canon(3.0))]
    cc = [{'id': 'k%d' % i, 'op': op, 'args': [enc(a) for a in args]} for i, (op, args, _) in enumerate(can)]
    cres, _ = run_vrun('api', cc, workers=1)
    for c, (op, args, want) in zip(cc, can):
        if outcome(cres.get(c['id'])) != ('val', want):
            rep.broke('canary %s %s failed: %s' % (op, args, short(cres.get(c['id']))))
            return
    # ---------------- lattice x lattice ----------------
    binops = list(BIN)
    for a in FL:
        for b in FL:
            for op in binops:
                add(op, [a, b], 'ff')
    ints = []
    for v in IL:
        ints.append(v)
        if fits(v) and v in (0, 1, -1, 2, 7, 2 ** 53 + 1, 2 ** 63 - 1, -2 ** 63):
            ints.append(Big(v))
    # (bool operands are not generated: bool arithmetic is not part of the property and gpython's bool is not an int subclass)
    for a in FL:
        for i in ints:
            for op in binops:
                if op == 'pow' and abs(real(i)) > 2 ** 64 and abs(a) not in (0.0, 1.0) and a == a:
                    # float ** huge-int: result is 0/inf/OverflowError, cheap; int ** float goes through float(int)
                    pass
                add(op, [a, i], 'fi')
                add(op, [i, a], 'if')
    small_ints = [v for v in ints if abs(real(v)) <= 2 ** 64 + 2 ** 13]
    for i in ints:
        for j in ints:
            add('truediv', [i, j], 'ii')
            for op in CMP[:2]:
                pass
    for i in small_ints:
        for j in (-1, -2, -3, -10, Big(-1), -63, -64, -1074, -1075):
            add('pow', [i, j], 'ii-negexp')
    # int / int is the exact quotient rounded once: quotients exactly at, and a hair off, a tie between two adjacent doubles, for operands of
    # a few bits up to over a thousand (the quotient (2m+1)/2 of N = (2m+1)*d*c + delta and D = 2*d*c needs 54 bits)
    rt = rng(PID, 'ties')
    for k in range(1500 if tier == 'quick' else 40000):
        m = rt.getrandbits(52) | (1 << 52)
        dbits = rt.choice([1, 2, 8, 31, 53, 60, 64, 65, 100, 128, 190, 193, 200, 256, 300, 400, 700])
        cbits = rt.choice([1, 1, 8, 64, 130, 200, 320])
        d = rt.getrandbits(dbits) | (1 << (dbits - 1))
        c = rt.getrandbits(cbits) | (1 << (cbits - 1)) | 1
        delta = rt.choice([0, 0, 1, -1, 2, -3, rt.getrandbits(max(1, (dbits + cbits) // 2)), -rt.getrandbits(max(1, (dbits + cbits) // 3))])
        N = (2 * m + 1) * d * c + delta
        D = 2 * d * c
        e = rt.choice([0, 0, 0, 1, 7, 64, 300, 900, 969, 970, 971])
        if rt.random() < 0.5:
            N <<= e
        else:
            D <<= e
        if rt.random() < 0.5:
            N = -N
        if rt.random() < 0.2:
            D = -D
        add('truediv', [N, D], 'ii-tie')
    # ---------------- unary, conversions, round, text ----------------
    for a in FL:
        for op in ('neg', 'pos', 'abs', 'call:abs', 'bool', 'call:int', 'call:float', 'str', 'repr', 'call:str', 'call:repr'):
            add(op, [a], 'f1')
        add('call:round', [a], 'round')
        for n in (None, 0, 1, 2, -1, -2, 15, 17, -308, 308, 400, Big(1)):
            add('call:round', [a, n], 'round')
        t = repr(a)
        for txt in (t, ' ' + t + '\n', t.upper(), '+' + t if not t.startswith('-') else t):
            add('call:float', [txt], 'parse')
    halves = [k + 0.5 for k in range(-6, 7)] + [k / 100.0 + 0.005 for k in range(0, 30, 3)] + [k / 10.0 + 0.05 for k in range(-5, 12)] + [2.5e15 + 0.5, -2.5e15 - 0.5, 0.125, 0.375, 1e-9, 5e-1, 50.0, 150.0, 250.0, 1234.5678]
    for a in halves:
        add('call:round', [a], 'round')
        for n in (None, 0, 1, 2, 3, -1, -2):
            add('call:round', [a, n], 'round')
    for i in ints + [5, 15, 25, 35, 45, 55, -5, -15, -25, 50, 150, 250, 350, 149, 151, 1450, 2500, 10 ** 20 + 5 * 10 ** 18, 2 ** 63 - 3, -2 ** 63 + 5, 9223372036854775805]:
        for op in ('call:float', 'call:abs', 'neg'):
            add(op, [i], 'i1')
        add('call:round', [i], 'round-int')
        for n in (None, 0, 1, -1, -2, -3, -18, -19, -20, -400, Big(-1)):
            add('call:round', [i, n], 'round-int')
    for txt in ('inf', '-inf', 'nan', 'infinity', '-Infinity', 'NaN', '+nan', '1e400', '-1e400', '1e-400', '0x10', '', ' ', '1.5.2', '1e', '.5', '5.', '-.5e1', '1e+2', 'in', 'nanx', '--1', '+-1', '1 2',
                '0x1p3', '0X1P-2', '0x.8p1', '-0x1p0', '0x1.8p1', 'INF', '+Infinity', 'iNf', '1e5', '1E5', '1.e5', '1e05', '00.5', '0e0', '1e-0', 'e5', '1ee5', '1e5.0', 'infinit', 'nan0'):
        add('call:float', [txt], 'parse')
    # ---------------- folding builtins ----------------
    fl_small = [0.0, -0.0, 1.0, -1.0, 0.1, 0.2, 0.3, 2.5, 1e16, -1e16, 1e308, INF, -INF, NAN, 5e-324, float(2 ** 53)]
    in_small = [0, 1, -1, 2 ** 53 + 1, 2 ** 64, 10 ** 309]
    pool = fl_small + in_small
    for a in pool:
        for b in pool:
            add('call:min', [a, b], 'fold')
            add('call:max', [a, b], 'fold')
            add('call:min', [[a, b]], 'fold')
            add('call:max', [(a, b)], 'fold')
            add('call:sum', [[a, b]], 'fold')
            add('call:divmod', [a, b], 'fold')
            if isinstance(a, float) or isinstance(b, float):  # int ** int is C07's (and unbounded in size)
                add('call:pow', [a, b], 'fold')
    for _ in range(300 if tier == 'quick' else 3000):
        xs = [r.choice(pool) for _ in range(r.randrange(0, 6))]
        add('call:sum', [xs], 'fold')
        if xs:
            add('call:min', [xs], 'fold')
            add('call:max', [tuple(xs)], 'fold')
    # ---------------- complex ----------------
    comps = [0.0, -0.0, 1.0, -1.0, 0.5, 2.5, 3.0, 1e-5, 1e150, 0.1]
    cl = [complex(a, b) for a in comps for b in comps]
    if tier == 'quick':
        cl = [c for c in cl if r.random() < 0.35]
    others = [0.0, 1.0, -2.5, 3, -1, 2 ** 53 + 1, 0.1]
    for a in cl:
        for b in cl:
            for op in ('add', 'sub', 'mul', 'truediv', 'eq', 'ne'):
                add(op, [a, b], 'cc')
        for b in others:
            for op in ('add', 'sub', 'mul', 'truediv', 'eq'):
                add(op, [a, b], 'cx')
                add(op, [b, a], 'xc')
        for op in ('neg', 'pos'):
            add(op, [a], 'c1')
    # complex against ints that no float holds exactly or at all: == and != are exact and never overflow, arithmetic overflows
    for a in (1j, complex(1, 0), complex(2.0 ** 53, 0), complex(0, 0), complex(1e308, 0), complex(2.0 ** 53, 1.0), complex(-(2.0 ** 63), 0)):
        for b in (2 ** 53, 2 ** 53 + 1, 2 ** 53 - 1, -(2 ** 63), -(2 ** 63) - 1, 10 ** 400, -(10 ** 400), 2 ** 1024, 2 ** 1023, 2 ** 1024 - 2 ** 970, 0, 1):
            for op in ('eq', 'ne', 'add', 'sub', 'mul', 'truediv'):
                add(op, [a, b], 'cx-bigint')
                add(op, [b, a], 'xc-bigint')
    # ---------------- random bit patterns ----------------
    nrand = 2000 if tier == 'quick' else 120000

    def rf():
        k = r.random()
        if k < 0.6:
            return from_bits('%016x' % r.getrandbits(64))
        if k < 0.8:
            return r.choice(FL)
        return math.ldexp(r.random() - 0.5, r.randrange(-60, 70))
    for _ in range(nrand):
        k = r.random()
        if k < 0.55:
            add(r.choice(binops), [rf(), rf()], 'rand-ff')
        elif k < 0.8:
            i = r.getrandbits(r.randrange(1, 1100)) * r.choice((1, -1))
            a = [rf(), i]
            if r.random() < 0.5:
                a.reverse()
            add(r.choice(binops), a, 'rand-fi')
        elif k < 0.9:
            x = rf()
            add(r.choice(('str', 'repr', 'call:int', 'call:round', 'neg', 'abs')), [x], 'rand-f1')
            add('call:float', [repr(x)], 'rand-parse')
        else:
            x = rf()
            add('call:round', [x, r.randrange(-5, 20)], 'rand-round')
    # ---------------- run + judge ----------------
    res, _ = run_vrun('api', cases, timeout_case=30)
    nontriv = set()
    samples = []
    tol_used = 0
    skipped_nonfinite_complex = 0
    clean = {}
    for c in cases:
        cid = c['id']
        op, args, exp, feature = info[cid]
        g = res.get(cid)
        o = outcome(g)
        if o[0] in ('none', 'timeout'):
            rep.inconc('%s: %s %s' % (o[0], op, short(args, 100)))
            continue
        if feature in ('cc', 'cx', 'xc', 'c1'):
            fin = all(math.isfinite(z.real) and math.isfinite(z.imag) for z in [complex(real(x)) if not isinstance(real(x), int) or abs(real(x)) < 2 ** 1000 else 0j for x in args])
            ev = exp[1] if exp[0] == 'val' else None
            if ev is not None and ev[0] == 'complex' and ('nan' in ev[1:] or any(math.isinf(from_bits(b)) for b in ev[1:] if b != 'nan')):
                fin = False
            if not fin:
                skipped_nonfinite_complex += 1
                continue
        rep.evaluations += 1
        nontriv.add((op, repr(args)))
        witness = {'case': c, 'vrun_mode': 'api', 'op': op, 'operands': short([repr(a) for a in args], 400), 'expected': short(exp if exp[0] != 'val' else ('val', show(exp[1])), 300),
                   'got': short(o if o[0] != 'val' else ('val', show(o[1])), 300)}
        ck = (op, ','.join(tclass(a) for a in args))
        cl_ = clean.setdefault(ck, [0, 0])
        bad = True
        if o[0] == 'panic':
            rep.violation(sig(op, args, 'panic'), witness)
        elif exp[0] == 'exc':
            if o[0] == 'exc' and o[1] == exp[1]:
                bad = False
            elif o[0] == 'exc':
                rep.violation(sig(op, args, 'wrong-exc:%s-for-%s' % (o[1], exp[1])), witness)
            else:
                rep.violation(sig(op, args, 'value-instead-of-exc:%s' % exp[1]), witness)
        elif o[0] == 'exc':
            rep.violation(sig(op, args, 'exc-instead-of-value:%s' % o[1]), witness)
        elif o[1] == exp[1]:
            bad = False
        elif close_enough(op, args, exp[1], o[1]):
            bad = False
            tol_used += 1
        else:
            dev = 'wrong-value'
            if op in ('call:min', 'call:max'):
                dev = 'wrong-choice'
            elif o[1][0] != exp[1][0]:
                dev = 'wrong-result-type:%s-for-%s' % (o[1][0], exp[1][0])
            elif exp[1][0] == 'float' and ulps(exp[1][1], o[1][1]) == 1 and '8000000000000000' not in (exp[1][1], o[1][1]):
                dev = 'off-by-1ulp'
            elif exp[1][0] == 'float' and {exp[1][1], o[1][1]} == {'0000000000000000', '8000000000000000'}:
                dev = 'sign-of-zero'
            elif op in ('pow', 'call:pow') and pow_inaccurate_only(exp[1], o[1]):
                dev = 'pow-inaccurate'       # beyond the tolerance but numerically close: accuracy of the pow routine, not a wrong rule
            rep.violation(sig(op, args, dev), witness)
        cl_[1 if bad else 0] += 1
        if not bad and len(samples) < 6 and r.random() < 0.0003:
            samples.append({'op': op, 'operands': short([repr(a) for a in args], 200), 'result': witness['got']})
        # the operands must come back unchanged
        after = g.get('after')
        if after is not None and o[0] != 'panic':
            for a, b in zip(args, after):
                if canon(a) != dec(b):
                    rep.violation(sig(op, args, 'operand-changed'), witness)
                    break
    # ---------------- compiled-source variant ----------------
    progs, pinfo = [], {}
    srcops = ['add', 'sub', 'mul', 'truediv', 'floordiv', 'mod'] + list(CMP)
    fl_src = [x for x in FL if lit(x) is not None]
    pairs = [(a, b) for a in fl_src for b in fl_src] + [(a, i) for a in fl_src for i in IL] + [(i, a) for a in fl_src for i in IL]
    r.shuffle(pairs)
    pairs = pairs[:500 if tier == 'quick' else 6000]
    EXN = ['ZeroDivisionError', 'OverflowError', 'ValueError', 'TypeError']
    for a, b in pairs:
        for op in srcops:
            e = py_eval(op, [a, b])
            if op in CMP:
                expr = '1 if %s %s %s else 0' % (lit(a), SYM[op], lit(b))
                want = str(int(BIN[op](a, b)))
            else:
                expr = 'int((%s %s %s) * 1048576.0)' % (lit(a), SYM[op], lit(b))
                if e[0] == 'exc':
                    want = e[1]
                else:
                    v = BIN[op](a, b)
                    if not isinstance(v, float) or not math.isfinite(v) or abs(v) >= 2.0 ** 40:
                        continue
                    want = str(int(v * 1048576.0))
            pid_ = 's%d' % len(progs)
            src = 'try:\n    print(%s)\n' % expr + ''.join('except %s:\n    print("%s")\n' % (x, x) for x in EXN)
            progs.append({'id': pid_, 'src': src})
            pinfo[pid_] = (op, [a, b], want + '\n', expr)
    por = common.oracle_exec(progs)
    pres, _ = run_vrun('exec', progs, timeout_case=20)
    src_dis = 0
    for p in progs:
        op, args, want, expr = pinfo[p['id']]
        o = por.get(p['id'], {})
        if o.get('out') != want:
            src_dis += 1
            continue
        g = pres.get(p['id'])
        if g is None or g.get('timeout'):
            rep.inconc('source program: no result: %s' % expr)
            continue
        rep.evaluations += 1
        nontriv.add(('src', expr))
        witness = {'case': p, 'vrun_mode': 'exec', 'expr': expr, 'expected': want, 'got': {k: short(v) for k, v in g.items() if k in ('out', 'exc', 'excmsg', 'cerr', 'panic')}}
        if g.get('panic') or g.get('crash'):
            rep.violation(sig(op, args, 'panic', 'src'), witness)
        elif g.get('exc') or g.get('cerr'):
            rep.violation(sig(op, args, 'uncaught:%s' % (g.get('exc') or g.get('cerr')), 'src'), witness)
        elif g.get('out') != want:
            go_ = g.get('out', '').strip()
            if go_ in EXN and want.strip() not in EXN:
                dev = 'exc-instead-of-value:' + go_
            elif want.strip() in EXN and go_ not in EXN:
                dev = 'value-instead-of-exc:' + want.strip()
            elif want.strip() in EXN:
                dev = 'wrong-exc:%s-for-%s' % (go_, want.strip())
            else:
                dev = 'wrong-value'
            rep.violation(sig(op, args, dev, 'src'), witness)
    rep.nontrivial = nontriv
    rep.samples = samples + ([{'source_program': progs[0]['src']}] if progs else [])
    rep.extra.update({'float_lattice': len(FL), 'int_lattice': len(IL), 'api_cases': len(cases), 'source_programs': len(progs), 'oracle_disagreement_src': src_dis,
                      'tolerance_applied': tol_used, 'complex_cases_skipped_nonfinite': skipped_nonfinite_complex, 'random_cases': nrand,
                      'op_type_classes': len(clean), 'op_type_classes_without_a_clean_case': sorted('%s(%s)' % k for k, v in clean.items() if v[0] == 0)[:80]})
    rep.rule = ('lattice of %d special doubles (+-0, min/max subnormal, min normal, 1+-1ulp, halves, 2^53 and 2^63 neighbours, 1e22/1e23, max, +-inf, nan) squared x 14 binary ops; the same lattice x %d boundary ints '
                '(Int and BigInt representations; ints needing correct rounding with a sticky bit; ints beyond the float range) in both operand orders; int/int true division and negative powers; '
                'unary ops, int(), float(), round(x[, n]) incl. ties, str/repr and float(text) round trip; sum/min/max/abs/pow/divmod builtins; complex + - * / == on finite operands; %d seeded random bit patterns; '
                'a sample compiled from source printing int(expr * 2**20) or the comparison outcome. distinct non-trivial = distinct (op, operands) judged, every one involving a float, complex or float-producing int operation'
                % (len(FL), len(IL), nrand))
    rep.assumptions = ['CPython %s floats are IEEE-754 doubles with correctly rounded + - * / and int<->float conversions; they are the reference' % '.'.join(map(str, __import__('sys').version_info[:3])),
                       'x ** y: exact result required when it is representable (integral |y| <= 64 checked with rationals; results 0/inf/nan; exceptions), otherwise <= 4 ulp (Python delegates ** to the platform libm and does not define a correctly rounded result; Go math.Pow is within 3 ulp on normal operands); complex results of a negative base judged relative to their magnitude',
                       'complex: judged only on finite operands and finite CPython results; division within 2 ulp per component',
                       'sum() is specified as left-to-right + (CPython 3.11 behaviour; 3.12 uses compensated summation)']
