"""C16 - attribute lookup follows instance, then C3 MRO; methods bind correctly.

Program-differential against CPython, cross-checked by a first-principles model (C3 merge + instance-dict-then-MRO lookup +
binding rules) written here; an observation is judged only where both oracles agree.

Every definition holds/returns the NAME OF ITS DEFINING CLASS as a string constant ("C2:m" = method defined in C2); methods
append the identity of the receiver they were bound to (found by `is` in a registry - never __name__).
Hierarchies: all class DAGs C0..C(n-1), class Ci having <=3 ordered distinct bases among C0..C(i-1) (n=4: 160 shapes,
n=5: 6560, n=6: 564160). A hierarchy whose last class statement has no consistent linearisation must raise TypeError there
(and only there). Placements: two names x, y; in every class each is absent or a plain attribute / method / classmethod /
staticmethod. Accesses: inst.a, Cls.a, inst.m(), Cls.m(inst), inst.c(), Cls.c(), inst.s(), Cls.s(); write/delete on an
instance then re-read on the instance / a sibling instance / the class; write/delete on a base class then re-read through
all instances and classes; isinstance for all (instance, class) pairs. One line of output per access, each in its own
try/except printing AE / TE.
"""
import itertools
import common
from common import rng, run_vrun, oracle_exec, short

PID = 'C16'
NAMES = ['x', 'y']
KINDS = 'pmcs'   # plain attribute, method, classmethod, staticmethod


# ------------------------------------------------------------------------------------------------
# model: C3

def c3_merge(seqs):
    seqs = [list(s) for s in seqs if s]
    res = []
    while True:
        seqs = [s for s in seqs if s]
        if not seqs:
            return res
        cand = None
        for s in seqs:
            c = s[0]
            if not any(c in t[1:] for t in seqs):
                cand = c
                break
        if cand is None:
            return None
        res.append(cand)
        for s in seqs:
            if s[0] == cand:
                del s[0]


def mro_of(i, bases, mros):
    """bases: tuple of class indices; mros: dict index -> mro list. None if inconsistent."""
    if len(set(bases)) != len(bases):
        return None
    m = c3_merge([mros[b] for b in bases] + [list(bases)])
    if m is None:
        return None
    return [i] + m


def base_lists(i):
    out = [()]
    for k in (1, 2, 3):
        if k <= i:
            out += list(itertools.permutations(range(i), k))
    return out


def shapes(n):
    """All hierarchies of exactly n classes whose first n-1 classes are consistent. Yields (bases tuple-of-tuples, mros list (last may be None))."""
    def rec(i, bases, mros):
        if i == n:
            yield tuple(bases), dict(mros)
            return
        for bl in base_lists(i):
            m = mro_of(i, bl, mros)
            if m is None and i != n - 1:
                continue
            mros[i] = m
            bases.append(bl)
            for r in rec(i + 1, bases, mros):
                yield r
            bases.pop()
            del mros[i]
    return rec(0, [], {})


def random_shape(n, r):
    while True:
        bases, mros = [], {}
        ok = True
        for i in range(n):
            bls = base_lists(i)
            # favour multiple bases: they are what makes the merge non-trivial
            bl = r.choice(bls) if r.random() < 0.7 else r.choice([b for b in bls if len(b) >= min(2, i)] or bls)
            m = mro_of(i, bl, mros)
            if m is None and i != n - 1:
                ok = False
                break
            mros[i] = m
            bases.append(bl)
        if ok:
            return tuple(bases), mros


# ------------------------------------------------------------------------------------------------
# program builder with model

PREAMBLE = '''REG = []
def W(o):
    for p in REG:
        if p[1] is o:
            return p[0]
    return "?"
'''


class Builder:
    def __init__(self, bases, mros, placement, dyn=None):
        self.dyn = dyn or {}   # class index -> 'type3' (made by type(name, bases, dict)) | 'locals' (class body keeps its locals())
        self.twins = []
        self.bases = bases
        self.mros = mros
        self.n = len(bases)
        self.cls = {}     # class index -> {name: (kind, label)}
        self.inst = {}    # instance name -> (class index, {name: label})
        self.src = [PREAMBLE]
        self.exp = []     # expected lines
        self.meta = []    # per line: feature dict
        self.t = 0
        self.alive = []
        self.placement = placement
        self.merge = {}   # class -> 'merge' if some class in its mro has >= 2 bases else 'linear'

    # -- emit helpers
    def line(self, body, expected, meta, tags=('AE', 'TE')):
        """body: expression string printed after the tag; one guarded access"""
        t = 't%d' % self.t
        self.t += 1
        self.src.append('try:\n    print("%s", %s)\nexcept AttributeError:\n    print("%s", "AE")\nexcept TypeError:\n    print("%s", "TE")\n' % (t, body, t, t))
        self.exp.append('%s %s' % (t, expected))
        self.meta.append(meta)

    def stmt_line(self, stmt, expected, meta):
        """a guarded statement (del / assignment): prints ok or AE/TE"""
        t = 't%d' % self.t
        self.t += 1
        self.src.append('try:\n    %s\n    print("%s", "ok")\nexcept AttributeError:\n    print("%s", "AE")\nexcept TypeError:\n    print("%s", "TE")\n' % (stmt, t, t, t))
        self.exp.append('%s %s' % (t, expected))
        self.meta.append(meta)

    # -- classes
    def define_classes(self):
        for i in range(self.n):
            body = []
            d = {}
            for name in NAMES:
                kind = self.placement[i].get(name)
                if kind is None:
                    continue
                label = 'C%d:%s' % (i, kind)
                d[name] = (kind, label)
                if kind == 'p':
                    body.append('        %s = "%s"\n' % (name, label))
                elif kind == 'm':
                    body.append('        def %s(self):\n            return "%s:" + W(self)\n' % (name, label))
                elif kind == 'c':
                    body.append('        @classmethod\n        def %s(cls):\n            return "%s:" + W(cls)\n' % (name, label))
                else:
                    body.append('        @staticmethod\n        def %s():\n            return "%s"\n' % (name, label))
            if not body:
                body.append('        pass\n')
            t = 't%d' % self.t
            self.t += 1
            ok = self.mros[i] is not None
            how = self.dyn.get(i)
            if how == 'type3':
                # the class is made by calling type() with a dict the program keeps, makes a second class from, and writes to afterwards:
                # the class owns a copy, so none of that may show through it
                pre = ['NS%d = {}\n' % i]
                for name in NAMES:
                    if name not in d:
                        continue
                    kind, label = d[name]
                    fn = '_f%d_%s' % (i, name)
                    if kind == 'p':
                        pre.append('NS%d["%s"] = "%s"\n' % (i, name, label))
                    elif kind == 'm':
                        pre.append('def %s(self):\n    return "%s:" + W(self)\nNS%d["%s"] = %s\n' % (fn, label, i, name, fn))
                    elif kind == 'c':
                        pre.append('def %s(cls):\n    return "%s:" + W(cls)\nNS%d["%s"] = classmethod(%s)\n' % (fn, label, i, name, fn))
                    else:
                        pre.append('def %s():\n    return "%s"\nNS%d["%s"] = staticmethod(%s)\n' % (fn, label, i, name, fn))
                self.src.append(''.join(pre))
                self.src.append('try:\n    C%d = type("C%d", (%s), NS%d)\n    REG.append(("C%d", C%d))\n    print("%s", "ok")\nexcept TypeError:\n    print("%s", "TE")\n' % (
                    i, i, ''.join('C%d, ' % b for b in self.bases[i]), i, i, i, t, t))
                if ok:
                    self.src.append('TW%d = type("TW%d", (), NS%d)\n' % (i, i, i))
                    self.twins.append((i, dict(d)))
                self.src.append('for n_ in ["x", "y"]:\n    NS%d[n_] = "NS:w"\nNS%d["x"] = "NS:w2"\n' % (i, i))
            elif how == 'locals':
                self.src.append('KEEP%d = []\n' % i)
                self.src.append('try:\n    class C%d(%s):\n%s        KEEP%d.append(locals())\n    REG.append(("C%d", C%d))\n    print("%s", "ok")\nexcept TypeError:\n    print("%s", "TE")\n' % (
                    i, ', '.join('C%d' % b for b in self.bases[i]), ''.join(body) if body != ['        pass\n'] else '', i, i, i, t, t))
                self.src.append('for d_ in KEEP%d:\n    d_["x"] = "NS:w"\n    d_["y"] = "NS:w"\n' % i)
            else:
                self.src.append('try:\n    class C%d(%s):\n%s    REG.append(("C%d", C%d))\n    print("%s", "ok")\nexcept TypeError:\n    print("%s", "TE")\n' % (
                    i, ', '.join('C%d' % b for b in self.bases[i]), ''.join(body), i, i, t, t))
            self.exp.append('%s %s' % (t, 'ok' if ok else 'TE'))
            nb = len(self.bases[i])
            self.meta.append({'access': 'class-stmt' if not how else 'class-' + how, 'expected': 'ok' if ok else 'TypeError', 'nbases': nb})
            if ok:
                self.cls[i] = d
                self.alive.append(i)
                self.merge[i] = 'merge' if any(len(self.bases[c]) >= 2 for c in self.mros[i]) else 'linear'

    def new_instance(self, name, k):
        self.src.append('%s = C%d()\nREG.append(("%s", %s))\n' % (name, k, name, name))
        self.inst[name] = (k, {})

    # -- model lookups
    def find_cls(self, k, name):
        for c in self.mros[k]:
            if name in self.cls[c]:
                kind, label = self.cls[c][name]
                return kind, label, ('own' if c == k else 'inherited')
        return None, None, 'missing'

    def read_inst(self, iname, name, ctx):
        k, d = self.inst[iname]
        if name in d:
            self.line('%s.%s' % (iname, name), d[name], {'access': 'inst-read', 'where': 'instdict', 'kind': 'p', 'mro': self.merge[k], 'ctx': ctx})
            return
        kind, label, where = self.find_cls(k, name)
        meta = {'access': 'inst-read', 'where': where, 'kind': kind or '-', 'mro': self.merge[k], 'ctx': ctx}
        if kind is None:
            self.line('%s.%s' % (iname, name), 'AE', meta)
        elif kind == 'p':
            self.line('%s.%s' % (iname, name), label, meta)
        elif kind == 'm':
            self.line('%s.%s()' % (iname, name), '%s:%s' % (label, iname), meta)
        elif kind == 'c':
            self.line('%s.%s()' % (iname, name), '%s:C%d' % (label, k), meta)
        else:
            self.line('%s.%s()' % (iname, name), label, meta)

    def read_cls(self, k, name, ctx, iname=None):
        iname = iname or 'i%d' % k
        kind, label, where = self.find_cls(k, name)
        meta = {'access': 'cls-read', 'where': where, 'kind': kind or '-', 'mro': self.merge[k], 'ctx': ctx}
        if kind is None:
            self.line('C%d.%s' % (k, name), 'AE', meta)
        elif kind == 'p':
            self.line('C%d.%s' % (k, name), label, meta)
        elif kind == 'm':
            self.line('C%d.%s(%s)' % (k, name, iname), '%s:%s' % (label, iname), meta)
        elif kind == 'c':
            self.line('C%d.%s()' % (k, name), '%s:C%d' % (label, k), meta)
        else:
            self.line('C%d.%s()' % (k, name), label, meta)

    # -- scenario pieces
    def reads(self):
        for k in self.alive:
            self.new_instance('i%d' % k, k)
        for k in self.alive:
            for name in NAMES:
                self.read_inst('i%d' % k, name, 'plain')
                self.read_cls(k, name, 'plain')
        self.read_twins('plain')

    def isinstances(self):
        for k in self.alive:
            for j in self.alive:
                rel = 'same' if j == k else ('proper-base' if j in self.mros[k] else 'unrelated')
                self.line('isinstance(i%d, C%d)' % (k, j), 'True' if j in self.mros[k] else 'False',
                          {'access': 'isinstance', 'rel': rel, 'mro': self.merge[k]})

    def inst_write(self, k, name, tag):
        a, b = 'j%da' % tag, 'j%db' % tag
        self.new_instance(a, k)
        self.new_instance(b, k)
        val = '%s:w' % a
        self.stmt_line('%s.%s = "%s"' % (a, name, val), 'ok', {'access': 'inst-write', 'mro': self.merge[k]})
        self.inst[a][1][name] = val
        self.read_inst(a, name, 'after-inst-write-self')
        self.read_inst(b, name, 'after-inst-write-sibling')
        self.read_cls(k, name, 'after-inst-write-class', iname=b)
        # delete again: the class definition shows through; a second delete fails
        self.stmt_line('del %s.%s' % (a, name), 'ok', {'access': 'inst-del', 'where': 'instdict', 'mro': self.merge[k]})
        del self.inst[a][1][name]
        self.read_inst(a, name, 'after-inst-del-self')
        self.stmt_line('del %s.%s' % (a, name), 'AE', {'access': 'inst-del', 'where': 'not-in-instdict', 'mro': self.merge[k]})
        self.read_inst(b, name, 'after-inst-del-sibling')
        self.read_cls(k, name, 'after-inst-del-class', iname=b)

    def reread_all(self, name, ctx):
        for k in self.alive:
            self.read_inst('i%d' % k, name, ctx)
            self.read_cls(k, name, ctx)
        self.read_twins(ctx)

    def read_twins(self, ctx):
        # the second class made from the same dict keeps the plain attributes it was made with, whatever happened to the dict or to its twin
        for k, d in self.twins:
            for name in NAMES:
                if name in d and d[name][0] == 'p':
                    self.line('TW%d.%s' % (k, name), d[name][1], {'access': 'cls-read', 'where': 'own', 'kind': 'p', 'mro': 'linear', 'ctx': 'twin-' + ctx})
                elif name not in d:
                    self.line('TW%d.%s' % (k, name), 'AE', {'access': 'cls-read', 'where': 'missing', 'kind': '-', 'mro': 'linear', 'ctx': 'twin-' + ctx})

    def cls_write(self, b, name):
        val = 'C%d:w' % b
        self.stmt_line('C%d.%s = "%s"' % (b, name, val), 'ok', {'access': 'cls-write', 'mro': self.merge[b]})
        self.cls[b][name] = ('p', val)
        self.reread_all(name, 'after-cls-write')

    def cls_del(self, b, name):
        own = name in self.cls[b]
        self.stmt_line('del C%d.%s' % (b, name), 'ok' if own else 'AE', {'access': 'cls-del', 'where': 'own' if own else 'not-own', 'mro': self.merge[b]})
        if own:
            del self.cls[b][name]
        self.reread_all(name, 'after-cls-del')

    def result(self):
        return ''.join(self.src), self.exp, self.meta


def random_placement(n, r):
    while True:
        pl = []
        cnt = 0
        for i in range(n):
            d = {}
            for name in NAMES:
                if r.random() < 0.55:
                    d[name] = r.choice(KINDS)
                    cnt += 1
            pl.append(d)
        if cnt >= 2:
            return pl


def build_program(bases, mros, placement, r, heavy=True):
    dyn = {}
    if r.random() < 0.4:
        for i in range(len(bases)):
            if r.random() < 0.5:
                dyn[i] = r.choice(['type3', 'type3', 'locals'])
    b = Builder(bases, mros, placement, dyn)
    b.define_classes()
    if not b.alive:
        return b.result()
    b.reads()
    b.isinstances()
    if heavy:
        ks = list(b.alive)
        k = r.choice(ks)
        b.inst_write(k, r.choice(NAMES), 0)
        k = r.choice(ks)
        b.inst_write(k, r.choice(NAMES), 1)
        # class write on a class that has subclasses if possible
        withsubs = [c for c in ks if any(c in b.mros[k2] and k2 != c for k2 in ks)] or ks
        bcls = r.choice(withsubs)
        name = r.choice(NAMES)
        b.cls_write(bcls, name)
        # class delete (of an own attribute when there is one)
        owners = [(c, nm) for c in ks for nm in NAMES if nm in b.cls[c]]
        if owners and r.random() < 0.85:
            c, nm = r.choice(owners)
        else:
            c, nm = r.choice(ks), r.choice(NAMES)
        b.cls_del(c, nm)
    return b.result()


CANARY = [
    'print("t0", "C0:p")\nprint("t1", True, False)\n',
    PREAMBLE + 'class C0:\n    x = "C0:p"\n    def y(self):\n        return "C0:m:" + W(self)\nREG.append(("C0", C0))\ni0 = C0()\nREG.append(("i0", i0))\nprint("t0", i0.x)\nprint("t1", i0.y())\nprint("t2", C0.x)\nprint("t3", isinstance(i0, C0))\n',
    'class C0:\n    pass\ni0 = C0()\ntry:\n    print("t0", i0.x)\nexcept AttributeError:\n    print("t0", "AE")\nexcept TypeError:\n    print("t0", "TE")\ntry:\n    print("t1", i0())\nexcept AttributeError:\n    print("t1", "AE")\nexcept TypeError:\n    print("t1", "TE")\n',
    'class C0:\n    pass\ni0 = C0()\ni0.x = "w"\nprint("t0", i0.x)\ndel i0.x\ntry:\n    del i0.x\n    print("t1", "ok")\nexcept AttributeError:\n    print("t1", "AE")\n',
]

EXTRA_REJECT = [
    # duplicate base; base order conflicting with an inherited order; classic inconsistent diamond
    ('dup-base', 'class A:\n    pass\ntry:\n    class B(A, A):\n        pass\n    print("t0", "ok")\nexcept TypeError:\n    print("t0", "TE")\n'),
    ('object-first', 'class A:\n    pass\ntry:\n    class B(object, A):\n        pass\n    print("t0", "ok")\nexcept TypeError:\n    print("t0", "TE")\n'),
    ('object-last', 'class A:\n    pass\ntry:\n    class B(A, object):\n        pass\n    print("t0", "ok")\nexcept TypeError:\n    print("t0", "TE")\n'),
    ('xy-yx', 'class X:\n    pass\nclass Y:\n    pass\nclass A(X, Y):\n    pass\nclass B(Y, X):\n    pass\ntry:\n    class C(A, B):\n        pass\n    print("t0", "ok")\nexcept TypeError:\n    print("t0", "TE")\n'),
]


def classify(exp_line, got_line, meta):
    e = exp_line.split(' ', 1)[1]
    if got_line is None:
        return 'no-output'
    parts = got_line.split(' ', 1)
    g = parts[1] if len(parts) > 1 else ''
    if parts[0] != exp_line.split(' ', 1)[0]:
        return 'misaligned'
    if meta['access'] == 'isinstance':
        return '%s-instead-of-%s' % (g, e)
    if meta['access'].startswith('class-'):
        return 'accepted' if g == 'ok' else 'rejected:%s' % g
    if g in ('AE', 'TE'):
        return '%s-instead-of-%s' % (g, 'value' if e not in ('AE', 'TE', 'ok') else e)
    if e in ('AE', 'TE'):
        return 'value-instead-of-%s' % e
    if e == 'ok':
        return '%s-instead-of-ok' % g
    # both values: "Ck:kind[:w][:receiver]"
    ge, ee = g.split(':'), e.split(':')
    if ge[:2] != ee[:2]:
        return 'wrong-definition'
    return 'wrong-binding'


def signature(meta, dev):
    a = meta['access']
    if a.startswith('class-'):
        return 'C16|%s|expected=%s|dev=%s|nbases=%d' % (a, meta['expected'], dev, meta['nbases'])
    if a == 'isinstance':
        return 'C16|isinstance|rel=%s|dev=%s|mro=%s' % (meta['rel'], dev, meta['mro'])
    if a in ('inst-read', 'cls-read'):
        return 'C16|%s|where=%s|dev=%s|kind=%s|mro=%s|ctx=%s' % (a, meta['where'], dev, meta['kind'], meta['mro'], meta['ctx'])
    return 'C16|%s|where=%s|dev=%s|mro=%s' % (a, meta.get('where', '-'), dev, meta['mro'])


# ---- hierarchies with BUILT-IN classes among the bases (first, second, third position; through a user class): isinstance against
# every ancestor incl. the built-in chain (object, BaseException, Exception, LookupError, ...), attribute lookup along the merged MRO.
BUILTIN_MIX = """class M:
    tag = "M"
    def who(self):
        return "M.who"
class N:
    tag = "N"
    def other(self):
        return "N.other"
TARGETS = [("object", object), ("BaseException", BaseException), ("Exception", Exception), ("ValueError", ValueError), ("LookupError", LookupError), ("KeyError", KeyError),
           ("ArithmeticError", ArithmeticError), ("int", int), ("str", str), ("list", list), ("dict", dict), ("tuple", tuple), ("M", M), ("N", N)]
def report(name, cls):
    try:
        o = cls()
    except Exception:
        print(name, "cannot instantiate")
        return
    row = []
    for tn, t in TARGETS + EXTRA:
        row.append(tn + "=" + ("1" if isinstance(o, t) else "0"))
    print(name, " ".join(row))
    for attr in ("tag", "who", "other"):
        try:
            v = getattr(o, attr)
            print(name, attr, v() if attr != "tag" else v)
        except AttributeError:
            print(name, attr, "AttributeError")
EXTRA = []
"""
BUILTIN_BASES = ['ValueError', 'KeyError', 'Exception', 'BaseException', 'LookupError', 'int', 'str', 'list', 'dict', 'tuple', 'object']


def builtin_mix_programs():
    out = []
    for b in BUILTIN_BASES:
        forms = [('first', 'class A(%s, M):\n    pass\n' % b), ('second', 'class A(M, %s):\n    pass\n' % b), ('third', 'class A(M, N, %s):\n    pass\n' % b),
                 ('middle', 'class A(M, %s, N):\n    pass\n' % b), ('only', 'class A(%s):\n    pass\n' % b)]
        if b == 'object':
            forms = forms[1:3] + forms[4:]
        for pos, cd in forms:
            src = BUILTIN_MIX + cd + 'class B(A):\n    pass\nclass C(N, B):\n    tag = "C"\nEXTRA = [("A", A), ("B", B), ("C", C)]\nreport("A", A)\nreport("B", B)\nreport("C", C)\n'
            out.append({'id': 'bmix-%s-%s' % (b, pos), 'src': src, 'base': b, 'pos': pos})
    return out


# ---- special methods are attributes too: what len() / repr() / str() / iter() / in / [] / with find when the method is defined on a base
# class, on a mixin further along the MRO, or overridden in between.
SPECIAL_DEFS = {
    '__len__': ('def __len__(self):\n        return %d', 'len(o)'),
    '__repr__': ('def __repr__(self):\n        return "repr%d"', 'repr(o)'),
    '__str__': ('def __str__(self):\n        return "str%d"', 'str(o)'),
    '__getitem__': ('def __getitem__(self, k):\n        return (%d, k)', 'o[5]'),
    '__contains__': ('def __contains__(self, k):\n        return k == %d', '(1 in o, 2 in o, 3 in o)'),
    '__iter__': ('def __iter__(self):\n        return iter([%d])', 'list(o)'),
    '__enter__': ('def __enter__(self):\n        return %d\n    def __exit__(self, a, b, c):\n        return False', 'w(o)'),
}
SPECIAL_SHAPES = {
    'direct': 'class A:\n    %(d1)s\nO = A\n',
    'inherited': 'class A:\n    %(d1)s\nclass B(A):\n    pass\nO = B\n',
    'inherited-twice': 'class A:\n    %(d1)s\nclass B(A):\n    pass\nclass C(B):\n    pass\nO = C\n',
    'mixin-second': 'class M:\n    pass\nclass A:\n    %(d1)s\nclass B(M, A):\n    pass\nO = B\n',
    'overridden': 'class A:\n    %(d1)s\nclass B(A):\n    %(d2)s\nclass C(B):\n    pass\nO = C\n',
    'diamond': 'class A:\n    %(d1)s\nclass B(A):\n    pass\nclass C(A):\n    %(d2)s\nclass D(B, C):\n    pass\nO = D\n',
    'diamond-left': 'class A:\n    %(d1)s\nclass B(A):\n    %(d3)s\nclass C(A):\n    %(d2)s\nclass D(B, C):\n    pass\nO = D\n',
}


DUNDER_ATTR_PROG = '''class A:
    __tag__ = "A"
    def __describe__(self):
        return "A.d"
class M:
    __tag__ = "M"
class B(A):
    pass
class C(M, B):
    pass
def rd(label, f):
    try:
        print(label, f())
    except AttributeError:
        print(label, "AttributeError")
for K in (A, B, C):
    o = K()
    p = K()
    rd("tag", lambda: o.__tag__)
    rd("desc", lambda: o.__describe__())
    o.__tag__ = "own"
    o.__describe__ = lambda: "own d"
    o.__fresh__ = "f"
    rd("tag-after-write", lambda: (o.__tag__, getattr(o, "__tag__"), p.__tag__, K.__tag__))
    rd("desc-after-write", lambda: (o.__describe__(), p.__describe__()))
    rd("fresh", lambda: (o.__fresh__, getattr(p, "__fresh__", "none")))
    o.__doc__ = "doc of o"
    rd("doc", lambda: (o.__doc__, p.__doc__, K.__doc__))
    del o.__tag__
    rd("tag-after-del", lambda: o.__tag__)
    K.__tag__ = "K!"
    rd("tag-after-class-write", lambda: (o.__tag__, p.__tag__))
    o.__class_like__ = 1
    rd("class-like", lambda: o.__class_like__)
'''


def special_method_programs():
    out = [{'id': 'spm-dunder-named-attributes', 'src': DUNDER_ATTR_PROG, 'method': 'dunder-named user attributes', 'shape': 'instance-vs-class'}]
    pre = 'def w(o):\n    with o as v:\n        return v\n'
    for name, (d, use) in SPECIAL_DEFS.items():
        for shape, tmpl in SPECIAL_SHAPES.items():
            src = pre + tmpl % {'d1': d % 1, 'd2': d % 2, 'd3': d % 3} + 'o = O()\ntry:\n    print(%s)\nexcept TypeError:\n    print("TypeError")\nexcept AttributeError:\n    print("AttributeError")\n' % use
            out.append({'id': 'spm-%s-%s' % (name.strip('_'), shape), 'src': src, 'method': name, 'shape': shape})
    return out


def run(tier, rep):
    r = rng(PID, 'gen')
    extra = {'oracle_disagreement': 0, 'programs': 0, 'hierarchies': 0, 'inconsistent_hierarchies': 0, 'distinct_mros': 0,
             'accesses_by_type': {}, 'clean_by_feature': {}, 'tainted_observations': 0}
    rep.extra = extra
    can = [{'id': 'canary%d' % i, 'src': s} for i, s in enumerate(CANARY)]
    cres, _ = run_vrun('exec', can)
    cor = oracle_exec(can)
    for c in can:
        g, o = cres.get(c['id']) or {}, cor.get(c['id']) or {}
        if g.get('out') != o.get('out') or g.get('exc') or o.get('exc') or 'out' not in g:
            rep.broke('canary mismatch: %s gpython=%s cpython=%s' % (short(c['src'], 80), short(g, 200), short(o, 200)))
            return

    # ---- enumerate -------------------------------------------------------------------------------
    plan = []   # (bases, mros, nplacements)
    if tier == 'quick':
        for n in (1, 2, 3):
            for bases, mros in shapes(n):
                plan.append((bases, mros, 6))
        for bases, mros in shapes(4):
            plan.append((bases, mros, 60 if mros[3] is not None else 3))
    else:
        for n in (1, 2, 3, 4):
            for bases, mros in shapes(n):
                plan.append((bases, mros, 40 if mros[n - 1] is not None else 3))
        for bases, mros in shapes(5):
            plan.append((bases, mros, 6 if mros[4] is not None else 1))
        seen6 = set()
        while len(seen6) < 6000:
            bases, mros = random_shape(6, r)
            if bases in seen6:
                continue
            seen6.add(bases)
            plan.append((bases, mros, 2))
    cases = []
    info = {}
    mroset = set()
    for hi, (bases, mros, npl) in enumerate(plan):
        extra['hierarchies'] += 1
        if mros[len(bases) - 1] is None:
            extra['inconsistent_hierarchies'] += 1
        for k, m in mros.items():
            if m is not None:
                mroset.add(tuple(tuple(bases[c]) for c in m))
        for pi in range(npl):
            pl = random_placement(len(bases), r)
            src, exp, meta = build_program(bases, mros, pl, r)
            cid = 'h%d_%d' % (hi, pi)
            cases.append({'id': cid, 'src': src})
            info[cid] = (bases, pl, exp, meta)
    for tag, src in EXTRA_REJECT:
        cases.append({'id': 'rej_' + tag, 'src': src})
    extra['distinct_mros'] = len(mroset)
    extra['programs'] = len(cases)

    gres, _ = run_vrun('exec', cases, timeout_case=60)
    ores = oracle_exec(cases)
    nontriv = set()
    samples = []
    for case in cases:
        cid = case['id']
        g, o = gres.get(cid), ores.get(cid)
        if o is None or o.get('oracle_failed') or o.get('exc') or o.get('cerr'):
            rep.inconc('oracle failed on %s: %s' % (cid, short(o, 200)))
            continue
        if g is None or g.get('timeout') or g.get('wall_timeout'):
            rep.inconc('no gpython result for %s' % cid)
            continue
        olines = o['out'].split('\n')[:-1]
        if g.get('panic') or g.get('crash') or g.get('harness_panic') or g.get('cerr'):
            rep.evaluations += len(olines)
            rep.violation('C16|panic' if not g.get('cerr') else 'C16|compile-error', {'case': case, 'got': {k: short(v, 600) for k, v in g.items()}})
            continue
        glines = g.get('out', '').split('\n')[:-1]
        if cid.startswith('rej_'):
            rep.evaluations += 1
            nontriv.add(cid)
            if glines != olines:
                rep.violation('C16|class-stmt|%s|dev=%s' % (cid[4:], 'accepted' if glines == ['t0 ok'] else 'rejected-or-other'), {'case': case, 'expected': olines, 'got': glines, 'exc': g.get('exc')})
            continue
        bases, pl, exp, meta = info[cid]
        if olines != exp:
            # model and CPython disagree somewhere: judge only the agreeing prefix (later lines depend on earlier state)
            agree = 0
            while agree < min(len(olines), len(exp)) and olines[agree] == exp[agree]:
                agree += 1
            extra['oracle_disagreement'] += 1
            exp, meta = exp[:agree], meta[:agree]
        if any(len(b) >= 2 for b in bases):
            nontriv.add((bases, tuple(tuple(sorted(d.items())) for d in pl)))
        stop = False
        for i, (e, m) in enumerate(zip(exp, meta)):
            rep.evaluations += 1
            a = m['access']
            extra['accesses_by_type'][a] = extra['accesses_by_type'].get(a, 0) + 1
            got = glines[i] if i < len(glines) else None
            if got == e:
                fk = a + '|' + m.get('where', m.get('rel', m.get('expected', '-'))) + '|' + m.get('kind', '-')
                extra['clean_by_feature'][fk] = extra['clean_by_feature'].get(fk, 0) + 1
                if len(samples) < 5 and a in ('inst-read', 'cls-read') and m['mro'] == 'merge' and m['where'] == 'inherited' and r.random() < 0.002:
                    samples.append({'bases': ['C%d(%s)' % (ci, ','.join('C%d' % x for x in bl)) for ci, bl in enumerate(bases)], 'placement': [dict(d) for d in pl],
                                    'access_line': e, 'feature': m})
                continue
            dev = classify(e, got, m)
            if got is None and g.get('exc'):
                dev = 'escaped:%s' % g.get('exc')
            sg = signature(m, dev)
            hit = rep.violation(sg, {'case': case, 'line_index': i, 'expected': e, 'got': got, 'feature': m, 'exc': g.get('exc'), 'excmsg': g.get('excmsg'),
                                     'bases': ['C%d(%s)' % (ci, ','.join('C%d' % x for x in bl)) for ci, bl in enumerate(bases)]})
            if not hit:
                extra['tainted_observations'] += 1
            if got is None or dev == 'misaligned' or a.startswith('class-'):
                stop = True
            if stop:
                break
    # ---- built-in classes among the bases ----------------------------------------------------------------------
    bm = builtin_mix_programs()
    bexp = oracle_exec(bm)
    bgot, _ = run_vrun('exec', bm)
    extra['builtin_mix_programs'] = 0
    extra['builtin_mix_unsupported'] = {}
    for c in bm:
        e, g = bexp.get(c['id']) or {}, bgot.get(c['id'])
        if g is None or e.get('oracle_failed'):
            rep.inconc('builtin-mix %s: no result' % c['id'])
            continue
        if e.get('exc') or e.get('cerr'):
            continue                      # CPython itself rejects the hierarchy (instance lay-out conflict): not part of the property
        if g.get('exc') and not g.get('out'):
            # the class statement itself fails in gpython: a built-in type that cannot be subclassed there is a missing feature, not a lookup defect
            extra['builtin_mix_unsupported'][c['base']] = str(g.get('exc'))
            continue
        rep.evaluations += 1
        extra['builtin_mix_programs'] += 1
        nontriv.add(('bmix', c['base'], c['pos']))
        if g.get('panic') or g.get('crash'):
            rep.violation('C16|builtin-base|base=%s|pos=%s|panic' % (c['base'], c['pos']), {'case': {'id': c['id'], 'src': c['src']}, 'got': {k: short(v, 800) for k, v in g.items()}})
            continue
        el, gl = (e.get('out') or '').split('\n'), (g.get('out') or '').split('\n')
        for i, x in enumerate(el):
            y = gl[i] if i < len(gl) else None
            if x != y:
                kind = 'isinstance' if '=' in x else 'lookup'
                detail = ''
                if kind == 'isinstance' and y and '=' in y:
                    detail = ','.join(a.split('=')[0] for a, b_ in zip(x.split(' ')[1:], y.split(' ')[1:]) if a != b_)[:60]
                rep.violation('C16|builtin-base|%s|base=%s|pos=%s|class=%s|%s' % (kind, c['base'], c['pos'], x.split(' ')[0], detail or ('escaped:%s' % g.get('exc') if y is None and g.get('exc') else 'differs')),
                              {'case': {'id': c['id'], 'src': c['src']}, 'expected': x, 'got': y, 'exc': g.get('exc'), 'excmsg': g.get('excmsg')})
                break
    # ---- special methods found along the MRO ----------------------------------------------------------------
    sm = special_method_programs()
    sexp = oracle_exec(sm)
    sgot, _ = run_vrun('exec', sm)
    extra['special_method_programs'] = 0
    for c in sm:
        e, g = sexp.get(c['id']) or {}, sgot.get(c['id'])
        if g is None or e.get('oracle_failed') or e.get('exc') or e.get('cerr'):
            rep.inconc('special-method program %s: no result' % c['id'])
            continue
        rep.evaluations += 1
        extra['special_method_programs'] += 1
        nontriv.add(('special', c['method'], c['shape']))
        if g.get('panic') or g.get('crash') or g.get('exc') or g.get('out') != e.get('out'):
            rep.violation('C16|special-method|%s|shape=%s|%s' % (c['method'], c['shape'], 'panic' if g.get('panic') or g.get('crash') else ('escaped:%s' % g['exc'] if g.get('exc') else 'got=' + (g.get('out') or '').strip()[:20])),
                          {'case': {'id': c['id'], 'src': c['src']}, 'expected': e.get('out'), 'got': {k: short(v, 600) for k, v in g.items() if k in ('out', 'exc', 'excmsg', 'panic', 'stack')}})
    rep.nontrivial = nontriv
    rep.samples = samples or [{'program_excerpt': cases[-10]['src'][:400]}]
    rep.rule = ('hierarchies: every DAG of n classes with <=3 ordered distinct bases per class whose first n-1 class statements are consistent (quick: n=1..4 all (%s hierarchies); thorough: n<=5 all, n=6 6000 seeded samples); '
                'the last class statement may be inconsistent and must then raise TypeError. Per hierarchy several seeded placements of names x,y as absent/plain/method/classmethod/staticmethod per class; '
                'per program: inst and class read of both names on every class, isinstance for all pairs, two instance write/re-read/delete/re-read sequences, one class write and one class delete each re-read through every instance and class. '
                'non-trivial = distinct (hierarchy, placement) programs whose hierarchy has a class with >=2 bases' % '157')
    rep.assumptions = ['CPython %s object model == Python 3.4 on this fragment (new-style classes, C3, non-data descriptors); cross-checked by the model in this file' % '.'.join(map(str, __import__('sys').version_info[:3])),
                       'issubclass is not provided by gpython (missing builtin, not judged); __name__, property, super(), metaclasses, __slots__ never generated']
