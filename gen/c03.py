"""C03 - every name resolves to the binding Python's lexical scoping selects; forbidden declarations are rejected at compile
time; the outcome does not depend on the order in which names are analysed.

Monitor: generated programs over nested module/def/lambda/class/comprehension scopes; every binding site binds a string naming
the site, every use prints '<use site> <value seen>' (or NameError), so stdout says which binding each occurrence resolved to.
Oracle: CPython run of the same text (stdout / compile-time SyntaxError / escaping NameError family).  Every program is also
recompiled k times inside vrun ('recomp'); any difference between the code dumps is a violation (analysis-order dependence).
Alpha-renamed variants (other spellings, other sort order of the names) of every program diversify Go's map layouts; their
expected output is identical by construction, which is checked on the oracle side as a self-test of the generator.
"""
import itertools
import common
from common import rng, run_vrun, oracle_exec, short

PID = 'C03'

PRELUDE = '''class CM:
    def __init__(self, s):
        self.s = s
    def __enter__(self):
        return self.s
    def __exit__(self, a, b, c):
        return False
def p(s, val):
    if isinstance(val, str):
        print(s, val)
    else:
        print(s, "<nonstr>")
    return val
'''

STMT_KINDS = ('module', 'def', 'class')
EXPR_KINDS = ('lambda', 'listcomp', 'setcomp', 'dictcomp', 'genexp')

# role -> action list for statement scopes
ROLE_ACTIONS = {
    'none': [],
    'U': ['use'], 'BU': ['bind', 'use'], 'UB': ['use', 'bind'], 'BUB': ['bind', 'use', 'bind'],
    'GBU': ['global', 'bind', 'use'], 'GU': ['global', 'use'], 'NBU': ['nonlocal', 'bind', 'use'], 'NU': ['nonlocal', 'use'],
    'BDU': ['bind', 'del', 'use'], 'D': ['del'], 'GD': ['global', 'del', 'use'], 'ND': ['nonlocal', 'del', 'use'], 'BDB': ['bind', 'del', 'bind'],
    'A': ['aug', 'use'], 'BA': ['bind', 'aug', 'use'], 'GA': ['global', 'aug', 'use'], 'NA': ['nonlocal', 'aug', 'use'],
    'FOR': ['for', 'use'], 'WITH': ['with', 'use'], 'EXC': ['exc', 'use'], 'IMP': ['imp', 'use'], 'GFOR': ['global', 'for', 'use'], 'NWITH': ['nonlocal', 'with', 'use'],
    'GIMP': ['global', 'imp', 'use'], 'NEXC': ['nonlocal', 'exc', 'use'], 'BEXC': ['bind', 'exc', 'use'],
    # declarations the language forbids (or that are illegal depending on context)
    'UG': ['use', 'global'], 'BG': ['bind', 'global'], 'BN': ['bind', 'nonlocal'], 'UN': ['use', 'nonlocal'], 'GN': ['global', 'nonlocal'], 'AG': ['aug', 'global'],
    # parameter roles (def only)
    'P': ['use'], 'PB': ['use', 'bind', 'use'], 'PD': ['use'], 'QD': ['useq'], 'PDEL': ['del', 'use'], 'PA': ['aug', 'use'],
    'PG': ['global'], 'PN': ['nonlocal'], 'PP': ['use'], 'PSTAR': ['use'], 'PKW': ['use'],
}
PARAM_ROLES = ('P', 'PB', 'PD', 'QD', 'PDEL', 'PA', 'PG', 'PN', 'PP', 'PSTAR', 'PKW')
BAD_ROLES = ('UG', 'BG', 'BN', 'UN', 'GN', 'AG', 'PG', 'PN', 'PP')
NL_ROLES = ('NBU', 'NU', 'ND', 'NA', 'NWITH', 'NEXC')
PLAIN_ROLES = ('U', 'BU', 'UB', 'BUB', 'GBU', 'GU', 'BDU', 'D', 'GD', 'BDB', 'A', 'BA', 'GA', 'FOR', 'WITH', 'EXC', 'IMP', 'GFOR', 'GIMP', 'BEXC')
MODULE_ROLES = PLAIN_ROLES + ('UG', 'BG', 'AG')
DEF_ROLES = PLAIN_ROLES + NL_ROLES + BAD_ROLES + tuple(x for x in PARAM_ROLES if x not in BAD_ROLES)
CLASS_ROLES = PLAIN_ROLES + NL_ROLES + ('UG', 'BG', 'BN', 'UN', 'GN')
LAMBDA_ROLES = ('U', 'P', 'PD', 'QD', 'PP', 'PSTAR')
COMP_ROLES = ('U', 'T', 'I', 'TI', 'C', 'T2', 'I2')


def roles_for(kind):
    if kind == 'module':
        return MODULE_ROLES
    if kind == 'def':
        return DEF_ROLES
    if kind == 'class':
        return CLASS_ROLES
    if kind == 'lambda':
        return LAMBDA_ROLES
    return COMP_ROLES


class Sc:
    def __init__(self, kind, roles, children=None):
        self.kind = kind
        self.roles = roles            # {'X': role, 'Y': role}
        self.children = children or []  # [(position among this scope's actions, Sc)]

    def walk(self, path=()):
        me = path + (self.kind,)
        yield me, self
        for _, c in self.children:
            for x in c.walk(me):
                yield x

    def describe(self):
        s = self.kind + ':' + ','.join('%s' % self.roles[v] for v in sorted(self.roles))
        if self.children:
            s += '(' + ' '.join('@%d %s' % (pos, c.describe()) for pos, c in self.children) + ')'
        return s


VARIANTS = [
    {'X': 'x', 'Y': 'y', 'f': 'f', 'C': 'C', 'l': 'l', 'i': 'i0', 'q': 'q0'},
    {'X': 'y', 'Y': 'x', 'f': 'f', 'C': 'C', 'l': 'l', 'i': 'i0', 'q': 'q0'},
    {'X': 'a', 'Y': 'b', 'f': 'zf', 'C': 'ZC', 'l': 'zl', 'i': 'zi', 'q': 'zq'},
    {'X': 'b2', 'Y': 'a1', 'f': 'g', 'C': 'K', 'l': 'h', 'i': 'c0', 'q': 'a0'},
    {'X': 'zz', 'Y': 'Z', 'f': 'F', 'C': 'A', 'l': 'm', 'i': 'zzz', 'q': 'B'},
    {'X': 'n', 'Y': 'nn', 'f': 'nf', 'C': 'nC', 'l': 'nl', 'i': 'ni', 'q': 'n0'},
]


class Renderer:
    def __init__(self, names, merge_rng=None):
        self.nm = names
        self.site = 0
        self.fid = 0
        self.sites = {}    # site label -> (kind path, action, role)
        self.r = merge_rng

    def new_site(self, path, action, role):
        self.site += 1
        s = 's%d' % self.site
        self.sites[s] = ('>'.join(path), action, role)
        return s

    def new_id(self):
        self.fid += 1
        return self.fid

    # ---- statement scopes -----------------------------------------------------------------
    def guarded(self, ind, lines, site):
        """lines wrapped so that a NameError-family / TypeError is printed, not propagated."""
        out = [ind + 'try:']
        out += [ind + '    ' + l for l in lines]
        out += [ind + 'except NameError:', ind + '    p("%s", "NameError")' % site, ind + 'except TypeError:', ind + '    p("%s", "TypeError")' % site]
        return out

    def action(self, a, var, ind, path, role):
        n = self.nm[var]
        s = self.new_site(path, a, role)
        if a == 'use':
            return self.guarded(ind, ['p("%s", %s)' % (s, n)], s)
        if a == 'useq':
            return self.guarded(ind, ['p("%s", %s)' % (s, self.nm['q'])], s)
        if a == 'bind':
            return [ind + '%s = "%s"' % (n, s)]
        if a == 'aug':
            return self.guarded(ind, ['%s += "+%s"' % (n, s)], s)
        if a == 'del':
            return self.guarded(ind, ['del %s' % n], s)
        if a == 'global':
            return [ind + 'global %s' % n]
        if a == 'nonlocal':
            return [ind + 'nonlocal %s' % n]
        if a == 'for':
            return [ind + 'for %s in ["%sa", "%sb"]:' % (n, s, s), ind + '    pass']
        if a == 'with':
            return [ind + 'with CM("%s") as %s:' % (s, n), ind + '    pass']
        if a == 'exc':
            return [ind + 'try:', ind + '    raise KeyError("%s")' % s, ind + 'except KeyError as %s:' % n, ind + '    p("%s", %s)' % (s, n)]
        if a == 'imp':
            return [ind + 'import math as %s' % n]
        raise AssertionError(a)

    def merged_actions(self, sc):
        """actions of all names of the scope, interleaved (order within one name kept)."""
        seqs = []
        for var in sorted(sc.roles):
            seqs.append([(a, var) for a in ROLE_ACTIONS[sc.roles[var]]])
        seqs = [s for s in seqs if s]
        if len(seqs) <= 1:
            return seqs[0] if seqs else []
        out = []
        idx = [0] * len(seqs)
        # deterministic interleaving driven by the structure (not by the renaming variant)
        turn = 0
        total = sum(len(s) for s in seqs)
        pattern = sc.mix if hasattr(sc, 'mix') else [0, 1]
        while len(out) < total:
            k = pattern[turn % len(pattern)] % len(seqs)
            turn += 1
            if idx[k] >= len(seqs[k]):
                k = [j for j in range(len(seqs)) if idx[j] < len(seqs[j])][0]
            out.append(seqs[k][idx[k]])
            idx[k] += 1
        return out

    def body(self, sc, ind, path):
        acts = self.merged_actions(sc)
        lines = []
        tail = []
        for pos in range(len(acts) + 1):
            for cpos, ch in sc.children:
                if min(cpos, len(acts)) == pos:
                    l, t = self.child_stmt(ch, ind, path)
                    lines += l
                    tail += t
            if pos < len(acts):
                a, var = acts[pos]
                lines += self.action(a, var, ind, path, sc.roles[var])
        lines += tail
        if not lines:
            lines = [ind + 'pass']
        return lines

    def params(self, sc, path):
        """(parameter list text, call argument text) for def / lambda."""
        ps, args, star, kwonly = [], [], [], []
        for var in sorted(sc.roles):
            role = sc.roles[var]
            n = self.nm[var]
            if role in ('P', 'PB', 'PDEL', 'PA', 'PG', 'PN'):
                s = self.new_site(path, 'param', role)
                ps.append(n)
                args.append('"%s"' % s)
            elif role == 'PP':
                s = self.new_site(path, 'param', role)
                ps += [n, n]
                args += ['"%s"' % s, '"%s"' % s]
        for var in sorted(sc.roles):
            role = sc.roles[var]
            n = self.nm[var]
            if role == 'PD':
                ps.append('%s=%s' % (n, n))
            elif role == 'QD':
                ps.append('%s=%s' % (self.nm['q'], n))
            elif role == 'PSTAR':
                s = self.new_site(path, 'param', role)
                star.append('*' + n)
                args.append('"%s"' % s)
            elif role == 'PKW':
                s = self.new_site(path, 'param', role)
                kwonly.append('%s="%s"' % (n, s))
        if kwonly and not star:
            star = ['*']
        return ', '.join(ps + star + kwonly), ', '.join(args)

    def child_stmt(self, ch, ind, path):
        """(lines at the definition point, lines at the end of the parent's body)."""
        k = self.new_id()
        cpath = path + (ch.kind,)
        cs = self.new_site(cpath, 'call', '-')
        if ch.kind == 'def':
            name = '%s%d' % (self.nm['f'], k)
            ps, args = self.params(ch, cpath)
            inner = ['def %s(%s):' % (name, ps)] + self.body(ch, '    ', cpath) + ['%s(%s)' % (name, args)]
            return self.guarded(ind, inner, cs), self.guarded(ind, ['%s(%s)' % (name, args)], cs)
        if ch.kind == 'class':
            name = '%s%d' % (self.nm['C'], k)
            inner = ['class %s:' % name] + self.body(ch, '    ', cpath)
            return self.guarded(ind, inner, cs), []
        if ch.kind == 'lambda':
            name = '%s%d' % (self.nm['l'], k)
            lam, args = self.lambda_expr(ch, cpath)
            return self.guarded(ind, ['%s = %s' % (name, lam), '%s(%s)' % (name, args)], cs), self.guarded(ind, ['%s(%s)' % (name, args)], cs)
        return self.guarded(ind, [self.comp_expr(ch, cpath)], cs), []

    # ---- expression scopes ----------------------------------------------------------------
    def elems(self, sc, path, uses):
        """element expressions: the scope's own uses + nested expression scopes."""
        es = list(uses)
        for _, ch in sc.children:
            cpath = path + (ch.kind,)
            if ch.kind == 'lambda':
                lam, args = self.lambda_expr(ch, cpath)
                es.append('(%s)(%s)' % (lam, args))
            else:
                es.append(self.comp_expr(ch, cpath))
        return es

    def lambda_expr(self, sc, path):
        ps, args = self.params(sc, path)
        uses = []
        for var in sorted(sc.roles):
            role = sc.roles[var]
            if role == 'none':
                continue
            s = self.new_site(path, 'use', role)
            uses.append('p("%s", %s)' % (s, self.nm['q'] if role == 'QD' else self.nm[var]))
        es = self.elems(sc, path, uses)
        return 'lambda %s: [%s]' % (ps, ', '.join(es)), args

    def comp_expr(self, sc, path):
        fors = []
        conds = []
        uses = []
        first_iter = None
        target = None
        extra_for = []
        for var in sorted(sc.roles):
            role = sc.roles[var]
            n = self.nm[var]
            if role == 'none':
                continue
            if role in ('T', 'TI'):
                if target is None:
                    target = (n, self.new_site(path, 'target', role))
                else:
                    extra_for.append('for %s in ["%s"]' % (n, self.new_site(path, 'target', role)))
            if role in ('I', 'TI'):
                s = self.new_site(path[:-1], 'iter-use', role)   # evaluated in the enclosing scope
                first_iter = (first_iter or []) + ['p("%s", %s)' % (s, n)]
            if role == 'T2':
                extra_for.append('for %s in ["%s"]' % (n, self.new_site(path, 'target', role)))
            if role == 'I2':
                s = self.new_site(path, 'iter-use', role)
                extra_for.append('for %s%d in [p("%s", %s)]' % (self.nm['i'], len(extra_for) + 1, s, n))
            if role == 'C':
                s = self.new_site(path, 'cond-use', role)
                conds.append('if p("%s", %s)' % (s, n))
            s = self.new_site(path, 'use', role)
            uses.append('p("%s", %s)' % (s, n))
        tname = target[0] if target else self.nm['i']
        if first_iter:
            it = '[' + ', '.join(first_iter) + ']'
        else:
            it = '["%s"]' % (target[1] if target else 'it')
        es = self.elems(sc, path, uses)
        clause = 'for %s in %s' % (tname, it) + ''.join(' ' + f for f in extra_for) + ''.join(' ' + c for c in conds)
        el = '[' + ', '.join(es) + ']'
        if sc.kind == 'listcomp':
            return '[%s %s]' % (el, clause)
        if sc.kind == 'genexp':
            return 'list(%s %s)' % (el, clause)
        if sc.kind == 'setcomp':
            return '{len(%s) %s}' % (el, clause)
        return '{"k": %s %s}' % (el, clause)

    def program(self, module):
        lines = self.body(module, '', ('module',))
        return PRELUDE + '\n'.join(lines) + '\n'


# ------------------------------------------------------------------------------------------------
# classic patterns ($x $y $f $g $C are renamed per variant)

CLASSICS = [
    ('closure-after-rebinding', '''def $f():
    $x = "a"
    def $g():
        return $x
    $x = "b"
    return $g
print($f()())
'''),
    ('two-closures-one-cell', '''def $f():
    $x = "a"
    def get():
        return $x
    def put(v):
        nonlocal $x
        $x = v
    return get, put
ga, sa = $f()
sa("b")
print(ga())
gb, sb = $f()
print(gb(), ga())
sb("c")
print(gb(), ga())
'''),
    ('two-closures-two-names', '''def $f():
    $x = "a"
    $y = "b"
    def get():
        return $x + $y
    def putx(v):
        nonlocal $x
        $x = v
    def puty(v):
        nonlocal $y
        $y = v
    return get, putx, puty
ga, sx, sy = $f()
sx("X")
print(ga())
sy("Y")
print(ga())
'''),
    ('loop-variable-capture', '''fs = []
for $x in ["a", "b", "c"]:
    fs.append(lambda: $x)
print(fs[0](), fs[1](), fs[2]())
def $f():
    gs = []
    for $y in ["a", "b"]:
        def $g():
            return $y
        gs.append($g)
    return gs
print($f()[0](), $f()[1]())
fs2 = [lambda: $x for $x in ["p", "q"]]
print(fs2[0](), fs2[1]())
fs3 = [lambda $x=$x: $x for $x in ["p", "q"]]
print(fs3[0](), fs3[1]())
print($x)
'''),
    ('defaults-once', '''$x = "a"
def $f(p=$x, q=[]):
    q.append(p)
    return len(q)
$x = "b"
print($f(), $f(), $f("z"))
def $g():
    $y = "c"
    h = lambda p=$y: p
    $y = "d"
    return h() + $y
print($g())
'''),
    ('class-body-invisible-to-methods', '''$x = "mod"
class $C:
    $x = "cls"
    def meth1(self):
        return $x
    def meth2(self):
        return self.$x
    $y = $x + "!"
    zq1 = [$x for i in [1]]
    zq2 = [i for i in [$x]]
print($C().meth1(), $C().meth2(), $C.$y, $C.zq1[0], $C.zq2[0])
def $f():
    $x = "fn"
    class D:
        $x = "cls2"
        def m(self):
            return $x
    return D().m() + D.$x
print($f())
'''),
    ('comprehension-no-leak', '''$x = "out"
l = [$x for $x in ["in"]]
print($x, l[0])
s = {$x for $x in ["in"]}
d = {$x: 1 for $x in ["in"]}
g = list($x for $x in ["in"])
print($x, len(s), len(d), g[0])
def $f():
    $y = "fout"
    l = [$y for $y in ["fin"]]
    return $y + l[0]
print($f())
try:
    print($y)
except NameError:
    print("NameError")
'''),
    ('class-name-shadows-function-local', '''$x = "glob"
def $f():
    $x = "fn"
    class $C:
        print($x)
        $x = "cls"
        print($x)
    print($x)
    return $C.$x
print($f())
def $g():
    $y = "fn"
    class $C:
        print($y)
        def m(self):
            return $y
    return $C().m()
print($g())
'''),
    ('class-nonlocal', '''def $f():
    $x = "fn"
    class $C:
        nonlocal $x
        $x = "cls"
    return $x
print($f())
'''),
    ('class-free-and-class-local-via-locals', '''def $f():
    $x = "fn"
    class $C:
        locals()["$x"] = "viaLocals"
        print("c", $x)
    return 1
$f()
'''),
    ('global-decl-ok', '''def $f():
    global $x
    $x = "g"
$f()
print($x)
'''),
    ('module-level-global-ok', '''global $x
$x = "m"
print($x)
'''),
    ('nonlocal-binding-later-ok', '''def $f():
    def $g():
        nonlocal $x
        $x = "b"
    $x = "a"
    $g()
    return $x
print($f())
'''),
    ('explicit-global-through-nested', '''def $f():
    global $x
    def $g():
        return $x
    $x = "gg"
    return $g()
print($f())
'''),
    ('inner-global-does-not-touch-outer-local', '''$x = "m"
def $f():
    $x = "a"
    def $g():
        global $x
        $x = "glob"
    $g()
    return $x
print($f(), $x)
'''),
    ('inner-global-hides-outer-local-from-nested', '''$x = "m"
def $f():
    $x = "f"
    def $g():
        global $x
        def hh():
            return $x
        return hh()
    return $g() + $x
print($f())
class $C:
    $y = "c"
    def meth(self):
        $y = "l"
        def inner():
            return $y
        return inner()
print($C().meth())
'''),
    ('pass-through-free', '''def $f():
    $x = "f"
    def $g():
        def h():
            return $x
        return h()
    return $g()
print($f())
'''),
    ('del-cell', '''def $f():
    $x = "a"
    del $x
    try:
        print($x)
    except NameError:
        print("NameError")
    $x = "b"
    def $g():
        return $x
    del $x
    try:
        print($g())
    except NameError:
        print("NameError")
$f()
'''),
    ('except-as-unbinds', '''$x = "before"
try:
    raise KeyError("k")
except KeyError as $x:
    pass
try:
    print($x)
except NameError:
    print("NameError")
'''),
    ('param-shadows-and-cell-param', '''$x = "m"
def $f($x, $y="dy"):
    def $g():
        return $x + $y
    $y = $y + "!"
    return $g
print($f("p")(), $f("q", "r")(), $x)
'''),
    ('builtin-then-global-then-local', '''def $f():
    return len("abc")
print($f())
len = lambda s: "shadow"
print($f())
del len
print($f())
'''),
    ('many-cells-sorted', '''def $f():
    vd = "d"
    $x = "x"
    vb = "b"
    $y = "y"
    va = "a"
    def $g(vc="c"):
        ve = "e"
        def hh():
            return va + vb + vc + vd + ve + $x + $y
        return hh
    return $g()()
print($f())
'''),
    ('introspection-in-class-body-locals', '''def $f():
    $x = "a"
    $y = "y"
    def put(v):
        nonlocal $x
        $x = v
    class $C:
        before = $x + $y
        locals()
        put("b")
        after = $x + $y
        names = sorted(k for k in locals() if k[:1] != "_")
    return $C.before, $C.after, $C.names
print($f())
'''),
    ('introspection-class-binds-same-name-locals', '''def $f():
    $x = "f"
    class $C:
        $x = "c"
        locals()
        def m(self):
            return $x
        locals()
    return $C.$x, $C().m()
print($f())
'''),
    ('introspection-in-function-locals', '''def $f():
    $x = "a"
    def $g():
        nonlocal $x
        first = $x
        locals()
        $x = "b"
        locals()
        return first + $x
    r = $g()
    return r, $x
print($f())
'''),
    ('introspection-in-nested-class-locals', '''def $f($x):
    def $g():
        class $C:
            locals()
            v = $x
            class D:
                locals()
                w = $x
        return $C.v + $C.D.w
    return $g()
print($f("p"))
'''),
    ('introspection-in-class-body-vars', '''def $f():
    $x = "a"
    $y = "y"
    def put(v):
        nonlocal $x
        $x = v
    class $C:
        before = $x + $y
        vars()
        put("b")
        after = $x + $y
        names = sorted(k for k in locals() if k[:1] != "_")
    return $C.before, $C.after, $C.names
print($f())
'''),
    ('introspection-class-binds-same-name-vars', '''def $f():
    $x = "f"
    class $C:
        $x = "c"
        vars()
        def m(self):
            return $x
        vars()
    return $C.$x, $C().m()
print($f())
'''),
    ('introspection-in-function-vars', '''def $f():
    $x = "a"
    def $g():
        nonlocal $x
        first = $x
        vars()
        $x = "b"
        vars()
        return first + $x
    r = $g()
    return r, $x
print($f())
'''),
    ('introspection-in-nested-class-vars', '''def $f($x):
    def $g():
        class $C:
            vars()
            v = $x
            class D:
                vars()
                w = $x
        return $C.v + $C.D.w
    return $g()
print($f("p"))
'''),
    ('introspection-in-class-body-eval', '''def $f():
    $x = "a"
    $y = "y"
    def put(v):
        nonlocal $x
        $x = v
    class $C:
        before = $x + $y
        eval("1")
        put("b")
        after = $x + $y
        names = sorted(k for k in locals() if k[:1] != "_")
    return $C.before, $C.after, $C.names
print($f())
'''),
    ('introspection-class-binds-same-name-eval', '''def $f():
    $x = "f"
    class $C:
        $x = "c"
        eval("1")
        def m(self):
            return $x
        eval("1")
    return $C.$x, $C().m()
print($f())
'''),
    ('introspection-in-function-eval', '''def $f():
    $x = "a"
    def $g():
        nonlocal $x
        first = $x
        eval("1")
        $x = "b"
        eval("1")
        return first + $x
    r = $g()
    return r, $x
print($f())
'''),
    ('introspection-in-nested-class-eval', '''def $f($x):
    def $g():
        class $C:
            eval("1")
            v = $x
            class D:
                eval("1")
                w = $x
        return $C.v + $C.D.w
    return $g()
print($f("p"))
'''),
    ('introspection-in-class-body-exec', '''def $f():
    $x = "a"
    $y = "y"
    def put(v):
        nonlocal $x
        $x = v
    class $C:
        before = $x + $y
        exec("pass")
        put("b")
        after = $x + $y
        names = sorted(k for k in locals() if k[:1] != "_")
    return $C.before, $C.after, $C.names
print($f())
'''),
    ('introspection-class-binds-same-name-exec', '''def $f():
    $x = "f"
    class $C:
        $x = "c"
        exec("pass")
        def m(self):
            return $x
        exec("pass")
    return $C.$x, $C().m()
print($f())
'''),
    ('introspection-in-function-exec', '''def $f():
    $x = "a"
    def $g():
        nonlocal $x
        first = $x
        exec("pass")
        $x = "b"
        exec("pass")
        return first + $x
    r = $g()
    return r, $x
print($f())
'''),
    ('introspection-in-nested-class-exec', '''def $f($x):
    def $g():
        class $C:
            exec("pass")
            v = $x
            class D:
                exec("pass")
                w = $x
        return $C.v + $C.D.w
    return $g()
print($f("p"))
'''),
    ('introspection-in-class-body-globals', '''def $f():
    $x = "a"
    $y = "y"
    def put(v):
        nonlocal $x
        $x = v
    class $C:
        before = $x + $y
        globals()
        put("b")
        after = $x + $y
        names = sorted(k for k in locals() if k[:1] != "_")
    return $C.before, $C.after, $C.names
print($f())
'''),
    ('introspection-class-binds-same-name-globals', '''def $f():
    $x = "f"
    class $C:
        $x = "c"
        globals()
        def m(self):
            return $x
        globals()
    return $C.$x, $C().m()
print($f())
'''),
    ('introspection-in-function-globals', '''def $f():
    $x = "a"
    def $g():
        nonlocal $x
        first = $x
        globals()
        $x = "b"
        globals()
        return first + $x
    r = $g()
    return r, $x
print($f())
'''),
    ('introspection-in-nested-class-globals', '''def $f($x):
    def $g():
        class $C:
            globals()
            v = $x
            class D:
                globals()
                w = $x
        return $C.v + $C.D.w
    return $g()
print($f("p"))
'''),
    # private-style names (two leading underscores) used as ordinary variables inside classes: whatever spelling the implementation gives them internally,
    # every occurrence in every nested scope - comprehensions, lambdas, nested functions - must mean the same variable
    # (only uses inside ONE class: a name that crosses the class boundary is mangled by CPython and not by gpython - name mangling is not part of the property)
    ('private-name-param-in-listcomp', '''class $C:
    def m(self, __$x, __$y):
        return [__$x + e + __$y for e in ["a", "b"]]
print($C().m("<", ">"))
'''),
    ('private-name-local-in-comprehensions', '''__$x = "global"
class $C:
    def m(self):
        __$x = "local"
        return ([__$x + e for e in "ab"], {e: __$x for e in "a"}, sorted({__$x + e for e in "ab"}), list(__$x + e for e in "ab"), [e for e in "ab" if __$x == "local"])
print($C().m())
'''),
    ('private-name-closure-and-lambda', '''class $C:
    def m(self):
        __$x = "a"
        def $g():
            nonlocal __$x
            __$x = __$x + "b"
            return lambda: __$x + "c"
        return $g()(), __$x
print($C().m())
'''),
    ('private-name-genexp-nested-twice', '''class $C:
    def m(self, __$x):
        return [[__$x + a + b for a in "ab"] for b in "cd"]
print($C().m("-"))
'''),
    # ---- declarations the language forbids
    ('E:nonlocal-without-binding', 'def $f():\n    nonlocal $x\n    $x = 1\n'),
    ('E:nonlocal-without-binding-global-exists', '$x = 1\ndef $f():\n    nonlocal $x\n'),
    ('E:nonlocal-at-module-level', 'nonlocal $x\n'),
    ('E:nonlocal-in-module-class', 'class $C:\n    nonlocal $x\n'),
    ('E:nonlocal-skips-class', 'def $f():\n    class $C:\n        $x = 1\n        def m(self):\n            nonlocal $x\n'),
    ('E:nonlocal-of-explicit-global', 'def $f():\n    global $x\n    def $g():\n        nonlocal $x\n'),
    ('E:parameter-global', 'def $f($x):\n    global $x\n'),
    ('E:parameter-nonlocal', 'def $g():\n    $x = 1\n    def $f($x):\n        nonlocal $x\n'),
    ('E:use-before-global', 'def $f():\n    print($x)\n    global $x\n'),
    ('E:assign-before-global', 'def $f():\n    $x = 1\n    global $x\n'),
    ('E:module-assign-before-global', '$x = 1\nglobal $x\n'),
    ('E:assign-before-nonlocal', 'def $g():\n    $x = 0\n    def $f():\n        $x = 1\n        nonlocal $x\n'),
    ('E:nonlocal-and-global', 'def $g():\n    $x = 0\n    def $f():\n        global $x\n        nonlocal $x\n'),
    ('E:duplicate-parameter', 'def $f($x, $x):\n    pass\n'),
    ('E:duplicate-parameter-lambda', '$f = lambda $x, $x: 0\n'),
    ('E:duplicate-parameter-kwonly', 'def $f($x, *, $x):\n    pass\n'),
    ('E:duplicate-parameter-star', 'def $f(*$x, **$x):\n    pass\n'),
    ('E:duplicate-parameter-far', 'def $f($x, $y, q=1, *r, $x=2):\n    pass\n'),
]


def rename(src, nm, k):
    g = {'x': nm['X'], 'y': nm['Y'], 'f': nm['f'] + '1', 'g': nm['f'] + '2', 'C': nm['C'] + '1'}
    for a, b in g.items():
        src = src.replace('$' + a, b)
    return src


# ------------------------------------------------------------------------------------------------
# enumeration of nestings

def actions_len(roles):
    return sum(len(ROLE_ACTIONS[r]) for r in roles.values())


def gen_structures(tier, r):
    """list of (Sc module, tag) - deterministic given (seed, tier)."""
    quick = tier == 'quick'
    out = []
    child_kinds = ('def', 'class') + EXPR_KINDS
    # depth 1, one name, exhaustive over module role x child kind x child role x child position
    for mrole in MODULE_ROLES:
        n = len(ROLE_ACTIONS[mrole])
        out.append((Sc('module', {'X': mrole}), 'd0'))
        for ck in child_kinds:
            for crole in roles_for(ck) + ('none',):
                for pos in range(n + 1):
                    if mrole in BAD_ROLES and pos > 0:
                        continue
                    out.append((Sc('module', {'X': mrole}, [(pos, Sc(ck, {'X': crole}))]), 'd1'))
    # depth 2, one name: def/class/expression in def/class ... ; exhaustive in thorough, sampled in quick
    d2 = []
    for mrole in ('none', 'BU', 'UB', 'GBU'):
        for k1 in ('def', 'class', 'lambda', 'listcomp', 'genexp'):
            for r1 in roles_for(k1) + ('none',):
                for k2 in (child_kinds if k1 in STMT_KINDS else EXPR_KINDS):
                    for r2 in roles_for(k2) + ('none',):
                        if r1 in BAD_ROLES and r2 in BAD_ROLES:
                            continue
                        n1 = len(ROLE_ACTIONS.get(r1, [])) if k1 in STMT_KINDS else 0
                        for pos in sorted(set([0, n1, max(0, n1 - 1)])):
                            d2.append((mrole, k1, r1, k2, r2, pos))
    if quick:
        r.shuffle(d2)
        d2 = d2[:4000]
    for mrole, k1, r1, k2, r2, pos in d2:
        n0 = len(ROLE_ACTIONS[mrole])
        out.append((Sc('module', {'X': mrole}, [(n0 if mrole != 'UB' else 1, Sc(k1, {'X': r1}, [(pos, Sc(k2, {'X': r2}))]))]), 'd2'))

    # random deeper / two-name / sibling structures
    def rand_role(kind, allow_bad):
        rs = list(roles_for(kind)) + ['none', 'none']
        while True:
            x = r.choice(rs)
            if x in BAD_ROLES and not (allow_bad and r.random() < 0.5):
                continue
            return x

    def rand_scope(kind, depth, names, state):
        roles = {}
        for v in names:
            role = rand_role(kind, state['bad'] == 0)
            if role in NL_ROLES and r.random() < 0.5:
                role = 'U'
            if kind in ('def', 'lambda') and role in PARAM_ROLES and any(x in PARAM_ROLES and x != 'QD' for x in roles.values()) and role == 'QD':
                role = 'U'
            if role in BAD_ROLES:
                state['bad'] += 1
            roles[v] = role
        if len(names) == 2 and roles['X'] == 'QD' and roles['Y'] == 'QD':
            roles['Y'] = 'U'
        if len(names) == 2 and roles['X'] == 'PKW' and roles['Y'] == 'PSTAR':
            pass
        sc = Sc(kind, roles)
        sc.mix = [r.randrange(2) for _ in range(4)]
        if depth > 0:
            nch = r.choice([1, 1, 1, 2]) if kind in STMT_KINDS else r.choice([0, 1, 1])
            n = actions_len(roles) if kind in STMT_KINDS else 0
            for _ in range(nch):
                ck = r.choice(child_kinds if kind in STMT_KINDS else EXPR_KINDS)
                sc.children.append((r.randrange(n + 1), rand_scope(ck, depth - 1, names, state)))
            sc.children.sort(key=lambda t: t[0])
        return sc

    nrand = [(2, ('X',), 1500), (3, ('X',), 1500), (1, ('X', 'Y'), 1000), (2, ('X', 'Y'), 2000), (3, ('X', 'Y'), 1500)]
    if not quick:
        nrand = [(d, nm, cnt * 2) for d, nm, cnt in nrand] + [(4, ('X', 'Y'), 3000)]
    for depth, names, cnt in nrand:
        for _ in range(cnt):
            state = {'bad': 0}
            m = rand_scope('module', depth, names, state)
            # the module itself must not use nonlocal/param roles
            out.append((m, 'r%d%s' % (depth, 'xy' if len(names) == 2 else 'x')))
    return out


CANARY = [
    ('p("s1", "v")\n', 's1 v\n'),
    ('x = "s1"\np("s2", x)\n', 's2 s1\n'),
    ('try:\n    p("s1", x)\nexcept NameError:\n    p("s1", "NameError")\nexcept TypeError:\n    p("s1", "TypeError")\n', 's1 NameError\n'),
    ('def f1():\n    x = "s1"\n    p("s2", x)\nf1()\n', 's2 s1\n'),
    ('with CM("s1") as x:\n    pass\np("s2", x)\n', 's2 s1\n'),
    ('import math as x\np("s2", x)\n', 's2 <nonstr>\n'),
    ('[[p("s1", i0)] for i0 in ["it"]]\n{len([p("s2", i0)]) for i0 in ["it"]}\n{"k": [p("s3", i0)] for i0 in ["it"]}\nlist([p("s4", i0)] for i0 in ["it"])\n(lambda q0="d": [p("s5", q0)])()\n', 's1 it\ns2 it\ns3 it\ns4 it\ns5 d\n'),
    ('class C1:\n    x = "s1"\n    p("s2", x)\n', 's2 s1\n'),
]


def family(e):
    return 'NameError' if e in ('NameError', 'UnboundLocalError') else e


def run(tier, rep):
    quick = tier == 'quick'
    recomp = 8 if quick else 64
    ccases = [{'id': 'can%d' % i, 'src': PRELUDE + s, 'recomp': 2} for i, (s, _) in enumerate(CANARY)]
    cres, _ = run_vrun('exec', ccases, timeout_case=30)
    cora = oracle_exec(ccases)
    for c, (s, want) in zip(ccases, CANARY):
        g, o = cres.get(c['id'], {}), cora.get(c['id'], {})
        if o.get('out') != want or o.get('exc') or o.get('cerr'):
            rep.broke('canary %s: oracle printed %r (%s), wanted %r' % (c['id'], o.get('out'), o.get('exc') or o.get('cerr'), want))
        if g.get('out') != want or g.get('exc') or g.get('cerr') or g.get('panic') or g.get('recomp_diff'):
            rep.broke('canary %s: gpython printed %r (%s), wanted %r; src=%r' % (c['id'], g.get('out'), g.get('exc') or g.get('cerr') or g.get('panic') or g.get('recomp_diff'), want, s))
    if rep.broken:
        return

    r = rng(PID, 'structures')
    structs = gen_structures(tier, r)
    rv = rng(PID, 'variants')
    nvar = 2 if quick else 3
    cases = []
    info = {}     # case id -> dict(group, tag, describe, sites, variant, classic)
    seen_src = set()
    gi = 0
    for m, tag in structs:
        vs = [0] + rv.sample(range(1, len(VARIANTS)), nvar - 1)
        if quick and tag in ('d0', 'd1') and gi % 2:
            vs = vs[:1]
        if not quick and tag == 'd2':
            vs = vs[:2] if gi % 10 == 0 else vs[:1]   # depth 2 is exhaustive in thorough: one spelling each, a second one for every tenth
        desc = m.describe()
        for vi in vs:
            R = Renderer(VARIANTS[vi])
            src = R.program(m)
            if src in seen_src:
                continue
            seen_src.add(src)
            cid = 'g%d.%d' % (gi, vi)
            cases.append({'id': cid, 'src': src, 'recomp': recomp})
            info[cid] = {'group': gi, 'tag': tag, 'desc': desc, 'sites': R.sites, 'struct': m, 'variant': vi}
        gi += 1
    for name, tmpl in CLASSICS:
        for vi in range(len(VARIANTS)):
            cid = 'k%d.%d' % (gi, vi)
            cases.append({'id': cid, 'src': rename(tmpl, VARIANTS[vi], 0), 'recomp': recomp})
            info[cid] = {'group': gi, 'tag': 'classic', 'desc': name, 'sites': {}, 'struct': None, 'variant': vi, 'classic': name}
        gi += 1

    exp = oracle_exec(cases)
    got, _ = run_vrun('exec', cases, timeout_case=60)

    # self-test of the generator: all variants of one structure must have the same oracle observation
    ref = {}
    unstable_groups = set()
    for c in cases:
        e = exp.get(c['id']) or {}
        key = (e.get('out'), family(e.get('exc')), bool(e.get('cerr')))
        g = info[c['id']]['group']
        if g in ref and ref[g] != key:
            unstable_groups.add(g)
        ref.setdefault(g, key)

    nontriv = set()
    stats = {'expected_syntax_error': 0, 'expected_name_error_lines': 0, 'programs_with_escaping_exception': 0, 'recompilations': 0}
    kinds_cov = {}
    roles_cov = {}
    evaluated = 0
    for c in cases:
        cid = c['id']
        inf = info[cid]
        e, g = exp.get(cid), got.get(cid)
        if inf['group'] in unstable_groups:
            continue
        if e is None or e.get('oracle_failed') or g is None or g.get('timeout') or g.get('wall_timeout') or g.get('shard_failed'):
            rep.inconc('%s: %s' % (cid, 'oracle failed' if (e is None or e.get('oracle_failed')) else 'timeout/no result'))
            continue
        if e.get('exc') and family(e['exc']) not in ('NameError', 'TypeError'):
            rep.inconc('%s: oracle raised %s (%s)' % (cid, e['exc'], inf['desc']))
            continue
        evaluated += 1
        stats['recompilations'] += recomp
        m = inf['struct']
        if m is not None:
            paths = [(pth, sc) for pth, sc in m.walk()]
            maxdepth = max(len(pth) for pth, _ in paths)
            for pth, sc in paths:
                kinds_cov['>'.join(pth)] = kinds_cov.get('>'.join(pth), 0) + 1
                for rl in sc.roles.values():
                    roles_cov[sc.kind + ':' + rl] = roles_cov.get(sc.kind + ':' + rl, 0) + 1
            if maxdepth >= 2 and any(rl != 'none' for _, sc in paths for rl in sc.roles.values()):
                nontriv.add(inf['desc'])
            bad = sorted(set('%s@%s' % (rl, sc.kind) for _, sc in paths for rl in sc.roles.values() if rl in BAD_ROLES or rl in NL_ROLES))
            shape = '>'.join(max((pth for pth, _ in paths), key=len))
        else:
            nontriv.add(inf['desc'])
            bad = [inf['classic']]
            shape = 'classic:' + inf['classic']
        witness = {'case': c, 'structure': inf['desc'], 'variant_names': VARIANTS[inf['variant']], 'expected': {k: e.get(k) for k in ('out', 'exc', 'cerr')},
                   'got': {k: short(g.get(k), 1500) for k in ('out', 'exc', 'excmsg', 'cerr', 'cmsg', 'panic', 'recomp_diff', 'crash') if g.get(k)}}
        if g.get('panic') or g.get('crash') or g.get('harness_panic'):
            rep.violation('C03|%s|panic' % (shape if m is None else shape.split('>')[-1]), witness)
            continue
        if e.get('cerr'):
            stats['expected_syntax_error'] += 1
            if not g.get('cerr'):
                rep.violation('C03|decl=%s|accepted-instead-of-SyntaxError' % ('+'.join(bad) or 'none'), witness)
            continue
        if g.get('cerr'):
            rep.violation('C03|decl=%s|valid-program-rejected:%s' % ('+'.join(bad) or 'none', g.get('cerr')), witness)
            continue
        if g.get('recomp_diff'):
            rep.violation('C03|%s|recompile-differs' % (shape if m is None else 'generated'), witness)
        stats['expected_name_error_lines'] += (e.get('out') or '').count('NameError')
        if e.get('exc'):
            stats['programs_with_escaping_exception'] += 1
        if family(e.get('exc')) != family(g.get('exc')):
            rep.violation('C03|%s|escaping-exception:%s-for-%s' % (shape if m is None else shape.split('>')[-1], g.get('exc'), e.get('exc')), witness)
            continue
        if e.get('out') != g.get('out'):
            el, gl = (e.get('out') or '').split('\n'), (g.get('out') or '').split('\n')
            k = 0
            while k < min(len(el), len(gl)) and el[k] == gl[k]:
                k += 1
            eline = el[k] if k < len(el) else ''
            gline = gl[k] if k < len(gl) else ''
            site = (eline.split(' ') or [''])[0]
            si = inf['sites'].get(site)
            if si:
                what = 'NameError-instead-of-value' if gline.endswith('NameError') else ('value-instead-of-NameError' if eline.endswith('NameError') else 'wrong-binding')
                if gline.split(' ')[0] != site:
                    what = 'output-sequence-differs'
                sig = 'C03|%s@%s|%s' % (si[1], si[0].split('>')[-1], what)
            else:
                sig = 'C03|%s|wrong-output' % (shape if m is None else shape.split('>')[-1])
            witness['first_difference'] = {'expected_line': eline, 'got_line': gline, 'site': si}
            rep.violation(sig, witness)

    rep.evaluations += evaluated
    rep.nontrivial = nontriv
    rep.extra = dict(stats, programs=len(cases), structures=gi, oracle_disagreement=len(unstable_groups), recompiles_per_program=recomp,
                     scope_paths_covered=len(kinds_cov), scope_paths_top=dict(sorted(kinds_cov.items(), key=lambda t: -t[1])[:25]),
                     scope_role_pairs_covered=len(roles_cov), classics=len(CLASSICS), variants_per_structure=nvar)
    if unstable_groups:
        gsample = [info[c['id']]['desc'] for c in cases if info[c['id']]['group'] in unstable_groups][:3]
        if len(unstable_groups) > 0.01 * gi:
            rep.broke('alpha-renamed variants disagree under CPython for %d structures, e.g. %s' % (len(unstable_groups), gsample))
        rep.extra['oracle_disagreement_samples'] = gsample
    rep.rule = ('one name: module role x (def, class, lambda, list/set/dict comprehension, genexp) x child role x child position exhaustively (depth 1), depth 2 %s, seeded random nestings to depth %d with one and two names and sibling scopes; '
                'roles = placements of bind/augmented bind/use/del/global/nonlocal/parameter/default/import-as/except-as/for-target/with-as (and the forbidden orders); %d classic patterns; every structure in up to %d alpha-renamed variants, each compiled 1+%d times. '
                'non-trivial = distinct structure with >=1 nested scope and >=1 name occurrence, or a classic pattern' % ('sampled' if quick else 'exhaustive over the listed kinds', 3 if quick else 4, len(CLASSICS), nvar, recomp))
    rep.samples = [{'structure': info[c['id']]['desc'], 'src': c['src'][len(PRELUDE):][:700]} for c in (cases[400:401] + cases[9000:9001] + cases[-300:-299] + cases[-1:])]
    rep.assumptions = ['CPython 3.11 is the reference; "use/assign before global declaration" follows 3.11 (SyntaxError), as the property statement lists it as rejected',
                       'NameError and UnboundLocalError are one family; only stdout, compile-error presence and escaping exception type are compared',
                       'recompile agreement uses the harness code dumper (exec.go recomp); Go randomises map iteration start per range, alpha-renaming widens map layouts']
