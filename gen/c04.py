"""C04 - call arguments bind to parameters exactly as Python's algorithm says; same at the Go embedding boundary.

(i)  Python level: one signature per program, many calls, each call in its own try/except TypeError; the callee returns the
     tuple of its parameters, the program prints them one by one (ints; `*s` element-wise; `**k` as sorted key=value pairs)
     or "TypeError". Two oracles: CPython (program-differential) and a first-principles model of the binding algorithm;
     a call is judged only where both agree.
(ii) Embedding boundary (vrun mode `gocall`, harness/cmd/vrun/gocall.go): module `verifmod` + type `VT` whose callables use
     the four Go signatures accepted by py.NewMethod; each records what it received. Oracle = identity (recorded == supplied)
     and arity/keyword misuse => TypeError, never a panic, never silent dropping. Called from Python source (module function,
     through an instance, through the class with an explicit instance) and from Go through py.Call.
"""
import re
import itertools, json
import common
from common import rng, run_vrun, oracle_exec, short

PID = 'C04'

POSN = ['a', 'b']
KWON = ['d', 'e']
KWNAMES = ['a', 'b', 'd', 'e', 'z']          # z is never a parameter
DEFAULT = {'a': 51, 'b': 52, 'd': 54, 'e': 55}
EXPL_KW = {'a': 31, 'b': 32, 'd': 34, 'e': 35, 'z': 36, 's': 37, 'k': 38}
MAP_KW = {'a': 41, 'b': 42, 'd': 44, 'e': 45, 'z': 46, 's': 47, 'k': 48}
EXPL_POS = [11, 12, 13]
STAR_POS = [21, 22]
CALLS_PER_PROGRAM = 500


# ------------------------------------------------------------------------------------------------
# signatures

class Sig:
    def __init__(self, pos, kwo, star, kw, kind):
        self.pos = pos      # list of (name, has_default)
        self.kwo = kwo      # list of (name, has_default)
        self.star = star
        self.kw = kw
        self.kind = kind    # 'def' | 'lambda'

    def params(self, dflt=lambda n: str(DEFAULT[n])):
        parts = []
        for n, d in self.pos:
            parts.append(n + ('=' + dflt(n) if d else ''))
        if self.star:
            parts.append('*s')
        elif self.kwo:
            parts.append('*')
        for n, d in self.kwo:
            parts.append(n + ('=' + dflt(n) if d else ''))
        if self.kw:
            parts.append('**k')
        return ', '.join(parts)

    def fields(self):
        f = [n for n, _ in self.pos]
        if self.star:
            f.append('s')
        f += [n for n, _ in self.kwo]
        if self.kw:
            f.append('k')
        return f

    def retexpr(self):
        return '(' + ''.join(f + ', ' for f in self.fields()) + ')'

    def tag(self):
        return 'pos=%s|kwo=%s|%s|%s' % (','.join(n + ('=' if d else '') for n, d in self.pos) or '-',
                                         ','.join(n + ('=' if d else '') for n, d in self.kwo) or '-',
                                         '*s' if self.star else '-', '**k' if self.kw else '-')

    def gap(self):
        """a keyword-only parameter with a default preceded by one without (feature of a known finding)"""
        seen_nodefault = False
        for n, d in self.kwo:
            if d and seen_nodefault:
                return True
            if not d:
                seen_nodefault = True
        return False

    def header(self):
        lines = []
        if self.kind == 'def':
            lines.append('def f(%s):\n    return %s\n' % (self.params(), self.retexpr()))
        elif self.kind == 'decdef':
            # a decorated definition: the decorators sit on the stack under the defaults while the function object is made
            lines.append('def dec(f):\n    return f\ndef dec2(x):\n    return dec\n@dec\n@dec2(0)\ndef f(%s):\n    return %s\n' % (self.params(), self.retexpr()))
        else:
            lines.append('f = lambda %s: %s\n' % (self.params(), self.retexpr()))
        # printer: one token per parameter
        toks = []
        for i, fld in enumerate(self.fields()):
            if fld == 's':
                toks.append('"*" + ",".join([str(x) for x in r[%d]])' % i)
            elif fld == 'k':
                toks.append('"**" + ",".join([n + "=" + str(r[%d][n]) for n in sorted(r[%d])])' % (i, i))
            else:
                toks.append('str(r[%d])' % i)
        lines.append('def P(r):\n    print(" ".join([%s]))\n' % ', '.join(toks) if toks else 'def P(r):\n    print("()" + str(len(r)))\n')
        return ''.join(lines)


def all_signatures(kinds=('def', 'lambda', 'decdef')):
    out = []
    posopts = [[]]
    posopts += [[('a', False)], [('a', True)]]
    posopts += [[('a', False), ('b', False)], [('a', False), ('b', True)], [('a', True), ('b', True)]]
    kwopts = [[]]
    kwopts += [[('d', False)], [('d', True)]]
    kwopts += [[('d', x), ('e', y)] for x in (False, True) for y in (False, True)]
    for kind in kinds:
        for pos in posopts:
            for kwo in kwopts:
                for star in (False, True):
                    for kw in (False, True):
                        out.append(Sig(pos, kwo, star, kw, kind))
    return out


# ------------------------------------------------------------------------------------------------
# calls

STAR_KINDS = ['list', 'tuple', 'gen']


class CallShape:
    __slots__ = ('npos', 'kws', 'star', 'mapk', 'kwfirst')

    def __init__(self, npos, kws, star, mapk, kwfirst=False):
        self.npos = npos      # explicit positionals
        self.kws = kws        # tuple of explicit keyword names
        self.star = star      # None | (kind, length)
        self.mapk = mapk      # None | tuple of names in the **{...} display
        self.kwfirst = kwfirst  # render explicit keywords before *seq

    def render(self):
        parts = [str(v) for v in EXPL_POS[:self.npos]]
        kwp = ['%s=%d' % (n, EXPL_KW[n]) for n in self.kws]
        sp = []
        if self.star is not None:
            kind, ln = self.star
            vals = STAR_POS[:ln]
            if kind == 'list':
                sp = ['*[' + ', '.join(map(str, vals)) + ']']
            elif kind == 'tuple':
                sp = ['*(' + ''.join('%d, ' % v for v in vals) + ')']
            else:
                sp = ['*(v for v in [' + ', '.join(map(str, vals)) + '])']
        parts += (kwp + sp) if self.kwfirst else (sp + kwp)
        if self.mapk is not None:
            parts.append('**{' + ', '.join("'%s': %d" % (n, MAP_KW[n]) for n in self.mapk) + '}')
        return 'f(' + ', '.join(parts) + ')'

    def key(self):
        return (self.npos, self.kws, self.star, self.mapk, self.kwfirst)


def model(sig, cs, kwdefaults=None):
    """First-principles binding: returns (outcome class, printed line). Written from the language reference
    (section 'Calls') - independent of CPython's implementation."""
    # call site: keyword given twice
    kw = {}
    for n in cs.kws:
        kw[n] = EXPL_KW[n]
    if cs.mapk is not None:
        for n in cs.mapk:
            if n in kw:
                return 'dup-callsite', 'TypeError'
            kw[n] = MAP_KW[n]
    posv = list(EXPL_POS[:cs.npos])
    if cs.star is not None:
        posv += STAR_POS[:cs.star[1]]
    slots = {}
    names = [n for n, _ in sig.pos]
    # positionals fill the first slots
    for i, v in enumerate(posv[:len(names)]):
        slots[names[i]] = v
    extra = posv[len(names):]
    if extra and not sig.star:
        return 'surplus-positional', 'TypeError'
    allnames = names + [n for n, _ in sig.kwo]
    varkw = {}
    for n, v in kw.items():
        if n in allnames:
            if n in slots:
                return 'dup-positional-keyword', 'TypeError'
            slots[n] = v
        elif sig.kw:
            varkw[n] = v
        else:
            return 'unexpected-keyword', 'TypeError'
    used_default = False
    for n, d in sig.pos:
        if n not in slots:
            if d:
                slots[n] = DEFAULT[n]
                used_default = True
            else:
                return 'missing', 'TypeError'
    if kwdefaults is None:
        kwdefaults = dict((n, DEFAULT[n]) for n, d in sig.kwo if d)
    for n, d in sig.kwo:
        if n not in slots:
            if n in kwdefaults:
                slots[n] = kwdefaults[n]
                used_default = True
            else:
                return 'missing', 'TypeError'
    toks = []
    for n in names:
        toks.append(str(slots[n]))
    if sig.star:
        toks.append('*' + ','.join(str(x) for x in extra))
    for n, _ in sig.kwo:
        toks.append(str(slots[n]))
    if sig.kw:
        toks.append('**' + ','.join('%s=%d' % (n, varkw[n]) for n in sorted(varkw)))
    line = ' '.join(toks) if toks else '()0'
    return ('ok-default' if used_default else 'ok'), line


def taint(sig, cs):
    """Feature combination explained by a known finding (see known_findings.jsonl): keyword-only defaults are paired
    with the wrong parameter when an earlier keyword-only parameter has no default. With kwo = (d, e=55) the compiled
    function has kwdefaults {d: 55}: the binding differs from Python's exactly when one of d, e is supplied and the other is not."""
    if not sig.gap():
        return None
    supplied = set(cs.kws) | set(cs.mapk or ())
    if ('d' in supplied) != ('e' in supplied):
        return 'kwonly-default-gap'
    return None


def gap_prediction(sig, cs):
    """What the known defect predicts: the i-th default value is paired with the i-th keyword-only NAME."""
    vals = [DEFAULT[n] for n, d in sig.kwo if d]
    shifted = dict((sig.kwo[i][0], v) for i, v in enumerate(vals))
    return model(sig, cs, kwdefaults=shifted)[1]


def subsets(names, maxsize=None):
    out = []
    for r in range(len(names) + 1):
        if maxsize is not None and r > maxsize:
            break
        out += list(itertools.combinations(names, r))
    return out


def star_options(i):
    """none + lengths 0..2, the kind rotating with i so that all three kinds occur with every length"""
    return [None] + [(STAR_KINDS[(i + ln) % 3], ln) for ln in (0, 1, 2)]


def full_calls(full_star):
    """The product stated in the property: <=3 explicit positionals x any subset of the keyword names
    x +-*seq (list/tuple/generator, 0..2 elements) x +-**map (any subset of the names)."""
    out = []
    ksubs = subsets(KWNAMES)
    i = 0
    for npos in range(4):
        for kws in ksubs:
            for mapk in [None] + ksubs:
                if full_star:
                    stars = [None] + [(k, ln) for k in STAR_KINDS for ln in (0, 1, 2)]
                else:
                    stars = star_options(i)
                for st in stars:
                    i += 1
                    out.append(CallShape(npos, kws, st, mapk, kwfirst=(i % 2 == 0) if (kws and st) else False))
    return out


def varname_calls():
    """Keywords named like the function's own *s / **k parameters: they are ordinary unknown keywords (collected by **k, else TypeError),
    never the var-positional or var-keyword slot itself."""
    out = []
    i = 0
    for npos in range(4):
        for st in (None, ('list', 1), ('gen', 2), ('tuple', 0)):
            for kws in subsets(['s', 'k', 'a', 'z']):
                for mapk in [None] + subsets(['s', 'k', 'd']):
                    if not (set(kws) | set(mapk or ())) & {'s', 'k'}:
                        continue
                    i += 1
                    out.append(CallShape(npos, kws, st, mapk, kwfirst=(i % 2 == 0) if (kws and st) else False))
    return out


# ------------------------------------------------------------------------------------------------
# program assembly

def call_block(expr):
    return 'try:\n    P(%s)\nexcept TypeError:\n    print("TypeError")\n' % expr


def build_py_programs(tier, r):
    """Returns list of (case, sig, [CallShape...])."""
    sigs = all_signatures()
    progs = []
    if tier == 'thorough':
        full = full_calls(full_star=False)
        plan = [(s, full) for s in sigs]
        # the complete star-kind product on a sample of signatures
        fullstar = full_calls(full_star=True)
        ss = list(sigs)
        r.shuffle(ss)
        plan += [(s, fullstar) for s in ss[:12]]
    else:
        full = full_calls(full_star=False)
        # a keyword given both explicitly and in **map is rejected at the call site whatever the signature: 74% of the raw
        # product, so it is down-sampled in quick (kept whole in thorough)
        nodup = [c for c in full if not (c.mapk and set(c.kws) & set(c.mapk))]
        dup = [c for c in full if c.mapk and set(c.kws) & set(c.mapk)]
        plain = [c for c in nodup if c.mapk is None]
        rest = [c for c in nodup if c.mapk is not None]
        plan = []
        for s in sigs:
            small = len(s.kwo) <= 1
            if small and s.kind == 'def':
                # every (explicit positional count, keyword set, *seq length); **map spellings sampled
                calls = plain + r.sample(rest, len(rest) * 2 // 5) + r.sample(dup, 200)
            elif s.kind == 'def':
                calls = r.sample(nodup, 1000) + r.sample(dup, 100)
            else:
                calls = r.sample(nodup, 450) + r.sample(dup, 50)
            plan.append((s, calls))
    vn = varname_calls()
    plan = [(s, list(calls) + (vn if tier == 'thorough' and s.kind == 'def' else r.sample(vn, 120))) for s, calls in plan]
    for si, (s, calls) in enumerate(plan):
        hdr = s.header()
        for off in range(0, len(calls), CALLS_PER_PROGRAM):
            chunk = calls[off:off + CALLS_PER_PROGRAM]
            src = hdr + ''.join(call_block(c.render()) for c in chunk)
            progs.append(({'id': 'p%d_%d' % (si, off), 'src': src}, s, chunk))
    return progs


CANARY = [
    'print(1)\nprint("a", 2)\n',
    'def f(a):\n    return (a, )\ndef P(r):\n    print(" ".join([str(r[0])]))\nP(f(3))\n',
    'try:\n    int()()\nexcept TypeError:\n    print("TypeError")\n',
    'k = {"b": 2, "a": 1}\nprint("**" + ",".join([n + "=" + str(k[n]) for n in sorted(k)]))\n',
    's = (1, 2)\nprint("*" + ",".join([str(x) for x in s]))\nprint("*" + ",".join([str(x) for x in ()]))\n',
    'f = lambda a: (a, )\nprint(f(4)[0])\n',
    'def f(*s, **k):\n    return (s, k)\nr = f(1, x=2)\nprint(r[0][0], r[1]["x"], len(r[0]), len(r[1]))\n',
]


def special_programs():
    """Hand-shaped families: mutable defaults evaluated once; retained *a / **k (aliasing of the argument vector);
    default evaluated at definition time, not call time. Each is (id, feature, src); judged line by line against CPython."""
    out = []
    out.append(('mutdef1', 'mutable-default', '''
log = []
def L(v):
    log.append(v)
    return [v]
def f(a, b=L(52), *, d=L(54)):
    b.append(a)
    d.append(a)
    return (len(b), len(d), b[0], d[0], b[len(b) - 1], d[len(d) - 1])
print(len(log))
r = f(1)
print(r[0], r[1], r[2], r[3], r[4], r[5])
r = f(2)
print(r[0], r[1], r[2], r[3], r[4], r[5])
r = f(3, [0])
print(r[0], r[1], r[2], r[3], r[4], r[5])
r = f(4, d=[0])
print(r[0], r[1], r[2], r[3], r[4], r[5])
r = f(5)
print(r[0], r[1], r[2], r[3], r[4], r[5])
print(len(log), sorted(log)[0], sorted(log)[1])
'''))
    out.append(('mutdef2', 'mutable-default', '''
log = []
def L(v):
    log.append(v)
    return [v]
g = lambda a, b=L(52), *s, e=L(55), **k: (b.append(a), e.append(a), (len(b), len(e), b[len(b) - 1], e[len(e) - 1], len(s), len(k)))[2]
print(len(log))
r = g(1)
print(r[0], r[1], r[2], r[3], r[4], r[5])
r = g(2, z=1)
print(r[0], r[1], r[2], r[3], r[4], r[5])
r = g(3, [7], 8, 9)
print(r[0], r[1], r[2], r[3], r[4], r[5])
r = g(4)
print(r[0], r[1], r[2], r[3], r[4], r[5])
print(len(log))
'''))
    out.append(('mutdef3', 'default-at-definition', '''
x = 1
def f(a=x, *, d=x + 10):
    return (a, d)
x = 2
r = f()
print(r[0], r[1])
def mk():
    def g(b=x, *s, e=x * 100):
        return (b, e)
    return g
g1 = mk()
x = 3
g2 = mk()
print(g1()[0], g1()[1], g2()[0], g2()[1])
d = {}
def h(k=d):
    k[str(len(k))] = 1
    return len(k)
print(h(), h(), h({}), h(), len(d))
'''))
    for kind, define in (('def', 'def f(*s):\n    return s\ndef g(a, *s, **k):\n    return (a, s, k)\n'),
                         ('lambda', 'f = lambda *s: s\ng = lambda a, *s, **k: (a, s, k)\n')):
        out.append(('retain-' + kind, 'retained-varargs', define + '''
t = f(1, 2, 3)
u = f(4, 5, 6, 7)
w = [10, 11, 12, 13, 14, 15]
x = 100 + 200
print(t[0], t[1], t[2], len(t))
print(u[0], u[1], u[2], u[3], len(u))
r1 = g(1, 2, 3, z=4)
r2 = g(5, 6, 7, 8, y=9)
w = [20, 21, 22, 23, 24, 25, 26]
print(r1[0], r1[1][0], r1[1][1], len(r1[1]), r1[2]["z"], len(r1[2]))
print(r2[0], r2[1][0], r2[1][1], r2[1][2], len(r2[1]), r2[2]["y"], len(r2[2]))
src = [31, 32]
t2 = f(*src)
src.append(33)
src[0] = 0
print(t2[0], t2[1], len(t2))
m = {"p": 1}
def h(**k):
    return k
k1 = h(**m)
m["q"] = 2
k1["r"] = 3
print(len(k1), len(m), sorted(k1)[0], sorted(k1)[1], sorted(m)[1])
acc = []
for i in range(4):
    acc.append(f(i, i + 1))
print(acc[0][0], acc[0][1], acc[1][0], acc[2][1], acc[3][0], acc[3][1])
'''))
    # calls that reach a Python function THROUGH a Go builtin (map/filter/sorted/max/min key functions): the argument tuple the
    # builtin builds must be bound exactly like a direct call, and a retained *a must keep its own values
    out.append(('viabuiltin1', 'call-through-builtin', '''
def keep(*a):
    return a
def keep1(x, *a):
    return (x, a)
def show(t):
    print(len(t))
    for e in t:
        print(e)
r = list(map(keep, [1, 2, 3]))
for t in r:
    show(t)
r = list(map(keep, [1, 2], [30, 40]))
for t in r:
    show(t)
r = list(map(keep1, "abc", [10, 20, 30], [7, 8, 9]))
for t in r:
    print(t[0])
    show(t[1])
r = list(map(keep, []))
print(len(r))
kept = []
def key(*a, **k):
    kept.append((a, k))
    return a[0]
print(sorted([3, 1, 2], key=key)[0])
print(max([3, 1, 2], key=key))
print(min([3, 1, 2], key=key))
for a, k in kept:
    print(len(a), a[0], len(k))
f = list(filter(keep, [0, 1, 2]))
print(len(f))
def gen_keep(*a):
    yield a
gs = list(map(gen_keep, [5, 6]))
for g in gs:
    for t in g:
        show(t)
'''))
    # keyword / positional duplicates handed to Go builtins that take keywords: TypeError, never silent dropping
    out.append(('builtinkwdup', 'builtin-keyword-duplicate', '''
def t(f):
    try:
        f()
        print("accepted")
    except TypeError:
        print("TypeError")
t(lambda: int("12", x="99"))
t(lambda: complex(1, real=5))
t(lambda: complex(1, 2, imag=5))
t(lambda: str(5, object=6))
t(lambda: sorted([1], iterable=[2]))
t(lambda: enumerate([1], iterable=[2]))
t(lambda: enumerate([1], 0, start=2))
t(lambda: round(1.5, number=2))
t(lambda: round(1.5, 1, ndigits=2))
t(lambda: int("12", 10, base=10))
t(lambda: print(1, sep="", sep2=""))
t(lambda: sorted([1], key=None, key2=None))
t(lambda: max([1], key=None, keyx=1))
t(lambda: int(x="12", y=1))
t(lambda: len(obj=[1]))
t(lambda: abs(x=1))
'''))
    # the default tables of a function object replaced after its definition (shorter, equal, LONGER than the parameter list: defaults stay right-aligned)
    out.append(('defaults-reassigned', 'defaults-reassigned', '''
def t(f):
    try:
        print(f())
    except TypeError:
        print("TypeError")
def f(a, b=2, c=3):
    return (a, b, c)
def g(a=1, *s, k=1, **kw):
    return (a, s, k, sorted(kw))
h = lambda a, b=5: (a, b)
for d in [(), (9,), (8, 9), (7, 8, 9), (6, 7, 8, 9), (5, 6, 7, 8, 9)]:
    f.__defaults__ = d
    g.__defaults__ = d
    h.__defaults__ = d
    t(lambda: f())
    t(lambda: f(1))
    t(lambda: f(1, 2))
    t(lambda: f(c=0))
    t(lambda: f(1, c=0))
    t(lambda: f(b=1))
    t(lambda: f(*[1]))
    t(lambda: g())
    t(lambda: g(1, 2))
    t(lambda: g(k=3))
    t(lambda: h())
    t(lambda: h(1))
    print(f.__defaults__)
for kd in [{"k": 7}, {}, {"k": 1, "zz": 2}]:
    g.__kwdefaults__ = kd
    t(lambda: g())
    t(lambda: g(k=0))
    print(g.__kwdefaults__ == kd)
'''))
    return [({'id': i, 'src': s.lstrip('\n')}, feat) for i, feat, s in out]


def many_argument_programs():
    """calls and definitions with about 255 arguments.  Python 3.4 allows at most 255 arguments in a call and 255 parameters in a definition
    (SyntaxError 'more than 255 arguments' beyond; CPython >= 3.7 has no limit).  Up to 255 every argument must arrive; beyond, the program must be
    refused at compile time - the one thing that must not happen is a call that runs and binds something else."""
    out = []
    pre = 'def f(*a, **k):\n    return (len(a), sum(a), len(k), sum(k[n] for n in k))\ndef g(*a, **k):\n    return "g-was-called"\n'
    for n in (200, 254, 255, 256, 257, 300, 511, 512, 513):
        out.append(('pos', n, pre + 'print(f(' + ', '.join(str(i) for i in range(n)) + '))\n'))
        out.append(('kw', n, pre + 'print(f(' + ', '.join('k%d=%d' % (i, i) for i in range(n)) + '))\n'))
        out.append(('pos+kw', n, pre + 'print(f(' + ', '.join(str(i) for i in range(n - 3)) + ', x=1, y=2, z=3))\n'))
        out.append(('pos-then-callable', n, pre + 'def c(*a, **k):\n    return (len(a), len(k), "c-was-called")\nprint(c(' + ', '.join(str(i) for i in range(n - 3)) + ', g, "k", 99))\n'))
        out.append(('pos+star', n, pre + 'print(f(' + ', '.join(str(i) for i in range(n)) + ', *[7, 8]))\n'))
        out.append(('def-params', n, 'def h(' + ', '.join('a%d' % i for i in range(n)) + '):\n    return a0 + a%d\nprint(h(*range(%d)))\n' % (n - 1, n)))
        out.append(('def-defaults', n, 'def h(' + ', '.join('a%d=%d' % (i, i) for i in range(n)) + '):\n    return a0 + a%d\nprint(h(), h(5))\n' % (n - 1)))
        out.append(('def-kwonly', n, 'def h(*, ' + ', '.join('a%d=%d' % (i, i) for i in range(n)) + '):\n    return a0 + a%d\nprint(h(), h(a0=5))\n' % (n - 1)))
        out.append(('def-closure-over-late-param', n, 'def h(' + ', '.join('a%d' % i for i in range(n)) + '):\n    return lambda: a%d\nprint(h(*range(%d))())\n' % (n - 1, n)))
        out.append(('lambda-params', n, 'h = lambda ' + ', '.join('a%d=1' % i for i in range(n)) + ': a0 + a%d\nprint(h())\n' % (n - 1)))
    return [{'id': 'many-%s-%d' % (k, n), 'kind': k, 'n': n, 'src': src} for k, n, src in out]


# ------------------------------------------------------------------------------------------------
# embedding boundary

GO_SIGS = ['0', '1', 'a', 'k']     # func(self) / func(self,arg) / func(self,args) / func(self,args,kwargs)
GO_KW = ['x', 'y']
GO_VALS = ['1', '"s2"', 'None', '4', '5', '6']


def go_describe(tok, inst_desc):
    if tok == 'i':
        return inst_desc
    if tok == 'None':
        return 'None'
    if tok.startswith('"'):
        return 's:' + tok.strip('"')
    return 'i:' + tok


def go_model(gosig, via, posv, kw, dupkw, inst_desc):
    """Expected: ('TypeError', None) or ('ok', record)."""
    if dupkw:
        return 'TypeError', None, 'dup-callsite'
    posv = list(posv)
    if via == 'cls':
        if not posv:
            return 'TypeError', None, 'no-receiver'
        recv, posv = posv[0], posv[1:]
    elif via == 'inst':
        recv = inst_desc
    else:
        recv = 'module:verifmod'
    name = ('f' if via == 'mod' else 'm') + gosig
    if kw and gosig != 'k':
        return 'TypeError', None, 'keywords-to-nokw'
    if gosig == '0' and posv:
        return 'TypeError', None, 'surplus'
    if gosig == '1' and len(posv) != 1:
        return 'TypeError', None, 'surplus' if len(posv) > 1 else 'missing'
    rec = {'fn': name, 'self': recv}
    if gosig != '0':
        rec['args'] = posv
    if gosig == 'k':
        rec['kw'] = [[n, kw[n]] for n in sorted(kw)]
    return 'ok', rec, 'ok'


def cls_defect_predicts(gosig, e, got_line, got_recs):
    """Known finding: a Go method fetched through the class is called like a module function - receiver = the method's
    (nil) module, and the explicit instance stays in the positional arguments. True iff the observation is exactly that."""
    outcome, rec, _ = go_model(gosig, 'mod', e['posv'], e['kw'], e['dup'], '')
    if outcome == 'TypeError':
        return got_line == 'TypeError' and not got_recs
    rec = dict(rec)
    rec['fn'] = 'm' + gosig
    rec['self'] = 'nilmodule'
    return got_line == rec['fn'] and got_recs == [rec]


def build_go_programs(tier, r):
    """One program per (via, go signature): all call shapes. Returns (cases, expectations)."""
    cases = []
    expect = {}
    ksubs = subsets(GO_KW)
    maps = [None, (), ('x',), ('y', 'w')]
    stars = [None, ('list', 0), ('list', 1), ('tuple', 2), ('gen', 1), ('gen', 2)]
    for via in ('mod', 'inst', 'cls'):
        for gosig in GO_SIGS:
            tagv = 7 if via == 'inst' else 9
            inst_desc = 'VT#%d' % tagv
            callee = {'mod': 'verifmod.f', 'inst': 'i.m', 'cls': 'VT.m'}[via] + gosig
            lines = ['import verifmod\nVT = verifmod.VT\nM = verifmod.mark\ni = VT(%d)\n' % tagv]
            exps = []
            n = 0
            for npos in range(4):
                for kws in ksubs:
                    for st in stars:
                        for mp, recv in [(m_, rv) for m_ in maps for rv in (('explicit', 'star', 'none') if via == 'cls' else (None,))]:
                            vals = list(GO_VALS)
                            ptoks = vals[:npos]
                            stoks = vals[3:3 + st[1]] if st else []
                            if recv == 'explicit':
                                ptoks = ['i'] + ptoks
                            elif recv == 'star':
                                # receiver supplied as the first element of *seq
                                if ptoks or not stoks:
                                    continue
                                stoks = ['i'] + stoks[1:]
                            elif recv == 'none':
                                # no receiver at all (never a non-instance receiver: that is not what the property is about)
                                if ptoks or stoks:
                                    continue
                            parts = list(ptoks)
                            if st:
                                if st[0] == 'list':
                                    parts.append('*[' + ', '.join(stoks) + ']')
                                elif st[0] == 'tuple':
                                    parts.append('*(' + ''.join(t + ', ' for t in stoks) + ')')
                                else:
                                    parts.append('*(v for v in [' + ', '.join(stoks) + '])')
                            kw = {}
                            for j, kn in enumerate(kws):
                                parts.append('%s=%d' % (kn, 70 + j))
                                kw[kn] = 'i:%d' % (70 + j)
                            dup = False
                            if mp is not None:
                                parts.append('**{' + ', '.join("'%s': %d" % (kn, 80 + j) for j, kn in enumerate(mp)) + '}')
                                for j, kn in enumerate(mp):
                                    if kn in kw:
                                        dup = True
                                    kw[kn] = 'i:%d' % (80 + j)
                            posv = [go_describe(t, inst_desc) for t in ptoks + stoks]
                            outcome, rec, cls = go_model(gosig, via, posv, kw, dup, inst_desc)
                            expr = '%s(%s)' % (callee, ', '.join(parts))
                            lines.append('M(%d)\ntry:\n    print(%s)\nexcept TypeError:\n    print("TypeError")\n' % (n, expr))
                            exps.append({'n': n, 'expr': expr, 'outcome': outcome, 'rec': rec, 'class': cls, 'posv': posv, 'kw': dict(kw), 'dup': dup,
                                         'shape': 'pos%d|kw%d|%s|%s' % (len(ptoks), len(kws), 'star-' + st[0] if st else '-', '-' if mp is None else 'map%d' % len(mp))})
                            n += 1
            cid = 'go_%s_%s' % (via, gosig)
            cases.append({'id': cid, 'src': ''.join(lines)})
            expect[cid] = (via, gosig, exps)
    return cases, expect


def build_go_direct():
    """Calls made from Go through py.GetAttrString + py.Call."""
    calls = []
    exps = []

    def jv(tok):
        if tok == 'None':
            return {'t': 'none'}
        if tok.startswith('"'):
            return {'t': 'str', 'cps': [ord(c) for c in tok.strip('"')]}
        return {'t': 'int', 'v': tok}
    for via, prefix in (('mod', 'mod.f'), ('inst', 'inst.m'), ('cls', 'cls.m')):
        for gosig in GO_SIGS:
            for npos in range(4):
                for kwv in (None, (), ('x',), ('x', 'y')):
                    toks = GO_VALS[:npos]
                    kw = {}
                    kwj = {}
                    for j, kn in enumerate(kwv or ()):
                        kw[kn] = 'i:%d' % (90 + j)
                        kwj[kn] = {'t': 'int', 'v': str(90 + j)}
                    calls.append({'target': prefix + gosig, 'args': [jv(t) for t in toks], 'kwargs': kwj, 'kwnil': kwv is None})
                    posv = [go_describe(t, 'VT#77') for t in toks]
                    if via == 'cls':
                        posv = ['VT#77'] + posv
                    outcome, rec, cls = go_model(gosig, via, posv, kw, False, 'VT#77')
                    exps.append({'target': prefix + gosig, 'via': via, 'gosig': gosig, 'outcome': outcome, 'rec': rec, 'class': cls, 'posv': posv, 'kw': dict(kw), 'dup': False,
                                 'shape': 'pos%d|%s' % (npos, 'kwnil' if kwv is None else 'kw%d' % len(kwv))})
    return calls, exps


KEEP_SRC = '''import verifmod
%s
t = K(1, 2, 3)
u = K(4, 5, 6, 7)
w = [10, 11, 12, 13, 14, 15]
x = 100 + 200
print(t[0] == 1, t[1] == 2, t[2] == 3, len(t))
print(u[0] == 4, u[1] == 5, u[2] == 6, u[3] == 7, len(u))
'''
KEEP_EXPECT = 'True True True 3\nTrue True True True 4\n'

GO_CANARY = 'import verifmod\nM = verifmod.mark\nM(1)\nprint(verifmod.fa(1, "s2", None))\nM(2)\ni = verifmod.VT(3)\nprint(i.ma(i))\ntry:\n    M()\nexcept TypeError:\n    print("TypeError")\n'


def split_log(log):
    """log -> {mark n: [records...]}"""
    out = {}
    cur = None
    for rec in log:
        if 'mark' in rec:
            cur = rec['mark']
            out.setdefault(cur, [])
        elif cur is not None:
            out[cur].append(rec)
        else:
            out.setdefault(-1, []).append(rec)
    return out


def norm_rec(rec):
    d = {k: v for k, v in rec.items() if k != 'kwnil'}
    return d


# ------------------------------------------------------------------------------------------------

def run(tier, rep):
    r = rng(PID, 'py')
    nontriv = set()
    extra = {'oracle_disagreement': 0, 'py_calls': 0, 'py_programs': 0, 'py_signatures': 0, 'clean_calls': 0, 'tainted_calls': 0,
             'outcome_classes': {}, 'go_calls_from_python': 0, 'go_calls_from_go': 0, 'go_records_seen': 0}
    rep.extra = extra
    # ---- canary -------------------------------------------------------------------------------
    can = [{'id': 'canary%d' % i, 'src': s} for i, s in enumerate(CANARY)]
    cres, _ = run_vrun('exec', can)
    cor = oracle_exec(can)
    for c in can:
        g, o = cres.get(c['id']) or {}, cor.get(c['id']) or {}
        if g.get('out') != o.get('out') or g.get('exc') or o.get('exc') or 'out' not in g:
            rep.broke('canary mismatch: %s gpython=%s cpython=%s' % (short(c['src'], 80), short(g, 200), short(o, 200)))
            return
    gcan, _ = run_vrun('gocall', [{'id': 'gocanary', 'src': GO_CANARY}])
    g = gcan.get('gocanary') or {}
    want_log = [{'mark': 1}, {'fn': 'fa', 'self': 'module:verifmod', 'args': ['i:1', 's:s2', 'None']}, {'mark': 2}, {'fn': 'ma', 'self': 'VT#3', 'args': ['VT#3']}]
    if g.get('out') != 'fa\nma\nTypeError\n' or [norm_rec(x) for x in g.get('log', [])] != want_log:
        rep.broke('gocall canary mismatch: %s' % short(g, 400))
        return

    # ---- (i) Python level ---------------------------------------------------------------------
    progs = build_py_programs(tier, r)
    cases = [p[0] for p in progs]
    extra['py_programs'] = len(cases)
    gres, _ = run_vrun('exec', cases, timeout_case=60)
    ores = oracle_exec(cases)
    sigtags = set()
    feature_clean = {}
    samples = []
    for case, sig, chunk in progs:
        cid = case['id']
        g = gres.get(cid)
        o = ores.get(cid)
        base = 'C04|py|%s|%s' % (sig.kind, sig.tag())
        if o is None or o.get('oracle_failed') or o.get('exc') or o.get('cerr'):
            rep.inconc('oracle failed on %s: %s' % (cid, short(o, 200)))
            continue
        if g is None or g.get('timeout') or g.get('wall_timeout'):
            rep.inconc('no gpython result for %s' % cid)
            continue
        rep.evaluations += len(chunk)
        extra['py_calls'] += len(chunk)
        sigtags.add((sig.kind, sig.tag()))
        if g.get('panic') or g.get('crash') or g.get('harness_panic'):
            rep.violation(base + '|panic', {'case': case, 'got': {k: short(v, 600) for k, v in g.items()}})
            continue
        if g.get('cerr'):
            rep.violation(base + '|compile-error', {'case': {'id': cid, 'src': sig.header()}, 'got': {k: short(v) for k, v in g.items()}})
            continue
        glines = g.get('out', '').split('\n')[:-1]
        olines = o.get('out', '').split('\n')[:-1]
        if len(olines) != len(chunk):
            rep.inconc('oracle line count on %s' % cid)
            continue
        escaped = g.get('exc')
        for idx, cs in enumerate(chunk):
            cls, mline = model(sig, cs)
            if mline != olines[idx]:
                extra['oracle_disagreement'] += 1
                continue
            tn = taint(sig, cs)
            extra['outcome_classes'][cls] = extra['outcome_classes'].get(cls, 0) + 1
            if tn:
                extra['tainted_calls'] += 1
            else:
                extra['clean_calls'] += 1
                feature_clean[sig.tag()] = feature_clean.get(sig.tag(), 0) + 1
            key = (sig.kind, sig.tag(), cs.key())
            if cs.npos + len(cs.kws) + (1 if cs.star else 0) + (1 if cs.mapk else 0) >= 2:
                nontriv.add(key)
            if idx >= len(glines):
                dev = 'escaped:%s' % escaped if escaped else 'missing-output'
                got = None
            else:
                got = glines[idx]
                if got == mline:
                    if len(samples) < 4 and r.random() < 0.00005:
                        samples.append({'signature': '%s f(%s)' % (sig.kind, sig.params()), 'call': cs.render(), 'printed': got})
                    continue
                if got == 'TypeError':
                    dev = 'TypeError-instead-of-value'
                elif mline == 'TypeError':
                    dev = 'value-instead-of-TypeError'
                else:
                    dev = 'wrong-binding'
            if tn and got is not None and got != gap_prediction(sig, cs):
                tn = None   # not what the known defect predicts: report as an ordinary deviation
            sgn = 'C04|py|taint=%s|dev=%s|%s|%s|expected=%s' % (tn or 'none', dev, sig.kind, sig.tag(), cls)
            mini = {'id': 'x', 'src': sig.header() + call_block(cs.render())}
            rep.violation(sgn, {'case': mini, 'signature_text': '%s f(%s)' % (sig.kind, sig.params()), 'call': cs.render(), 'expected': mline, 'got': got,
                                'escaped_exception': escaped, 'program': cid})
            if got is None:
                break   # the rest of the program did not run
    extra['py_signatures'] = len(sigtags)
    zero_clean = [t for (_, t) in sigtags if not feature_clean.get(t)]
    if zero_clean:
        rep.broke('signatures with zero clean calls: %s' % zero_clean[:5])

    # ---- special families -----------------------------------------------------------------------
    sp = special_programs()
    scases = [c for c, _ in sp]
    sg, _ = run_vrun('exec', scases)
    so = oracle_exec(scases)
    for c, feat in sp:
        g, o = sg.get(c['id']), so.get(c['id'])
        if not o or o.get('exc') or o.get('cerr') or o.get('oracle_failed'):
            rep.broke('oracle failed on special program %s: %s' % (c['id'], short(o, 300)))
            continue
        if g is None or g.get('timeout'):
            rep.inconc('no result for %s' % c['id'])
            continue
        ol = o['out'].split('\n')[:-1]
        rep.evaluations += len(ol)
        base = 'C04|py|special|%s' % feat
        if g.get('panic') or g.get('crash') or g.get('harness_panic'):
            rep.violation(base + '|panic', {'case': c, 'got': {k: short(v, 600) for k, v in g.items()}})
            continue
        gl = g.get('out', '').split('\n')[:-1]
        for i, line in enumerate(ol):
            nontriv.add(('special', c['id'], i))
            if i >= len(gl) or gl[i] != line:
                rep.violation(base + '|%s' % ('escaped:%s' % g.get('exc') if i >= len(gl) else 'wrong-value'),
                              {'case': c, 'line': i + 1, 'expected': line, 'got': gl[i] if i < len(gl) else None, 'exc': g.get('exc'), 'excmsg': g.get('excmsg')})
                break

    # ---- calls and definitions around the 255-argument limit of the 3.4 byte code --------------------------
    mp = many_argument_programs()
    mg, _ = run_vrun('exec', [{'id': c['id'], 'src': c['src']} for c in mp], timeout_case=60)
    mo = oracle_exec([{'id': c['id'], 'src': c['src']} for c in mp])
    extra['many_argument_programs'] = 0
    for c in mp:
        g, o = mg.get(c['id']), mo.get(c['id']) or {}
        if g is None or g.get('timeout') or o.get('oracle_failed') or o.get('exc') or o.get('cerr'):
            rep.inconc('many-argument program %s: no result' % c['id'])
            continue
        rep.evaluations += 1
        extra['many_argument_programs'] += 1
        nontriv.add(('many', c['kind'], c['n']))
        w = {'case': {'id': c['id'], 'src': c['src'][:3000]}, 'arguments': c['n'], 'expected_when_accepted': o.get('out'), 'got': {k: short(v, 600) for k, v in g.items() if k in ('out', 'exc', 'excmsg', 'cerr', 'panic', 'stack')}}
        base = 'C04|py|many-arguments|%s|%s' % (c['kind'], 'le255' if c['n'] <= 255 else 'gt255')
        if g.get('panic') or g.get('crash'):
            rep.violation(base + '|panic', w)
        elif g.get('cerr'):
            if c['n'] <= 255 or 'SyntaxError' not in str(g.get('cerr')):
                rep.violation(base + '|refused:%s' % str(g.get('cerr'))[:40], w)
        elif g.get('exc') or g.get('out') != o.get('out'):
            # accepted, ran, and did something else than binding every argument
            rep.violation(base + '|%s' % ('escaped:%s' % g.get('exc') if g.get('exc') else 'wrong-binding'), w)
        # accepted and bound correctly beyond 255: more than 3.4 promises, but nothing is dropped or misdelivered

    # ---- receiver of module-level Go callables when several contexts are alive (direct mode gorecv) ------------
    import subprocess, shutil, os as _os
    rd = common.scratch_dir('vrun-gorecv-')
    try:
        outp = _os.path.join(rd, 'out.json')
        try:
            subprocess.run([common.build(), '-mode', 'gorecv', '-out', outp], stdout=subprocess.DEVNULL, stderr=subprocess.DEVNULL, env=common.go_env(), timeout=300, cwd=rd)
            ro = json.load(open(outp))
        except Exception as e_:
            ro = {'error': repr(e_)}
    finally:
        shutil.rmtree(rd, ignore_errors=True)
    if not ro.get('receiver_observations'):
        rep.inconc('gorecv probe: %s' % short(ro, 300))
    else:
        rep.evaluations += ro['receiver_observations']
        extra['go_receiver_observations_with_three_live_contexts'] = ro['receiver_observations']
        nontriv.add(('gorecv', ro['orders']))
        seen_ = set()
        for v in ro.get('violations') or []:
            what = re.sub(r'\d+', 'N', v['what'])[:110]
            if what in seen_:
                continue
            seen_.add(what)
            rep.violation('C04|go|several-live-contexts|%s' % what, {'mode': 'gorecv', 'order of context use': v['order'], 'what': v['what']})

    # ---- (ii) embedding boundary ------------------------------------------------------------------
    gcases, gexp = build_go_programs(tier, r)
    dcalls, dexps = build_go_direct()
    gcases.append({'id': 'go_direct', 'src': 'import verifmod\n', 'gocalls': dcalls})
    keepcases = [{'id': 'go_keep_mod', 'src': KEEP_SRC % 'K = verifmod.keep'},
                 {'id': 'go_keep_inst', 'src': KEEP_SRC % 'i = verifmod.VT(1)\nK = i.keep'}]
    gr, _ = run_vrun('gocall', gcases + keepcases, timeout_case=60)
    for case in gcases:
        cid = case['id']
        g = gr.get(cid)
        if g is None or g.get('timeout') or g.get('wall_timeout'):
            rep.inconc('no gocall result for %s' % cid)
            continue
        if cid == 'go_direct':
            continue
        via, gosig, exps = gexp[cid]
        base = 'C04|go|via=%s|gosig=%s' % (via, gosig)
        rep.evaluations += len(exps)
        extra['go_calls_from_python'] += len(exps)
        if g.get('panic') or g.get('crash') or g.get('harness_panic') or g.get('cerr'):
            rep.violation(base + '|panic', {'case': case, 'vrun_mode': 'gocall', 'got': {k: short(v, 600) for k, v in g.items()}})
            continue
        glines = g.get('out', '').split('\n')[:-1]
        bymark = split_log(g.get('log', []))
        extra['go_records_seen'] += sum(len(v) for v in bymark.values())
        for e in exps:
            n = e['n']
            nontriv.add(('go', via, gosig, e['shape'], e['class']))
            want_line = ('TypeError' if e['outcome'] == 'TypeError' else e['rec']['fn'])
            want_recs = [] if e['outcome'] == 'TypeError' else [e['rec']]
            got_line = glines[n] if n < len(glines) else None
            got_recs = [norm_rec(x) for x in bymark.get(n, [])]
            if got_line == want_line and got_recs == want_recs:
                continue
            if got_line is None:
                dev = 'escaped:%s' % g.get('exc')
            elif want_line == 'TypeError' and got_line != 'TypeError':
                dev = 'accepted-instead-of-TypeError'
            elif want_line != 'TypeError' and got_line == 'TypeError':
                dev = 'TypeError-instead-of-call'
            elif got_recs != want_recs:
                if got_recs and want_recs and got_recs[0].get('self') != want_recs[0].get('self'):
                    dev = 'wrong-receiver'
                elif want_line == 'TypeError' and got_recs:
                    dev = 'callee-ran-then-TypeError'
                else:
                    dev = 'wrong-arguments'
            else:
                dev = 'wrong-return'
            if via == 'cls' and cls_defect_predicts(gosig, e, got_line, got_recs):
                dev = 'receiver-not-taken-from-first-positional'
            mini = {'id': 'x', 'src': 'import verifmod\nVT = verifmod.VT\nM = verifmod.mark\ni = VT(%d)\nM(0)\ntry:\n    print(%s)\nexcept TypeError:\n    print("TypeError")\n' % (7 if via == 'inst' else 9, e['expr'])}
            rep.violation('C04|go|via=%s|dev=%s|gosig=%s|expected=%s' % (via, dev, gosig, e['class']), {'case': mini, 'vrun_mode': 'gocall', 'call': e['expr'], 'expected': {'line': want_line, 'records': want_recs},
                                                                              'got': {'line': got_line, 'records': got_recs}})
            if got_line is None:
                break
    # calls from Go
    g = gr.get('go_direct')
    if g is not None and not g.get('timeout'):
        gores = g.get('go') or []
        if g.get('panic') or g.get('crash') or g.get('harness_panic') or len(gores) != len(dexps):
            rep.violation('C04|go|pycall|panic', {'case': {'id': 'go_direct', 'src': 'import verifmod\n', 'gocalls': dcalls}, 'vrun_mode': 'gocall', 'got': {k: short(v, 600) for k, v in g.items() if k != 'go'}})
        else:
            rep.evaluations += len(dexps)
            extra['go_calls_from_go'] = len(dexps)
            for call, e, got in zip(dcalls, dexps, gores):
                nontriv.add(('pycall', e['via'], e['gosig'], e['shape'], e['class']))
                base = 'C04|go|via=%s|pycall|gosig=%s' % (e['via'], e['gosig'])
                want_recs = [] if e['outcome'] == 'TypeError' else [e['rec']]
                got_recs = [norm_rec(x) for x in got.get('log', [])]
                extra['go_records_seen'] += len(got_recs)
                wit = {'case': {'id': 'x', 'src': 'import verifmod\n', 'gocalls': [call]}, 'vrun_mode': 'gocall', 'expected': {'outcome': e['outcome'], 'records': want_recs}, 'got': got}
                if got.get('panic') or got.get('harness_error') or got.get('lookup_exc'):
                    rep.violation(base + '|panic' if got.get('panic') else base + '|lookup-failed', wit)
                    continue
                dev = None
                if e['outcome'] == 'TypeError':
                    if got.get('exc') != 'TypeError':
                        dev = 'accepted-instead-of-TypeError' if not got.get('exc') else 'wrong-exception'
                    elif got_recs:
                        dev = 'callee-ran-then-TypeError'
                elif got.get('exc'):
                    dev = '%s-instead-of-call' % got.get('exc')
                elif got_recs != want_recs:
                    dev = 'wrong-receiver' if (got_recs and got_recs[0].get('self') != want_recs[0].get('self')) else 'wrong-arguments'
                elif got.get('ret') != 's:' + e['rec']['fn']:
                    dev = 'wrong-return'
                if dev is None:
                    continue
                if e['via'] == 'cls' and cls_defect_predicts(e['gosig'], e, 'TypeError' if got.get('exc') == 'TypeError' else (got.get('ret') or '')[2:], got_recs):
                    dev = 'receiver-not-taken-from-first-positional'
                rep.violation('C04|go|via=%s|pycall|dev=%s|gosig=%s|expected=%s' % (e['via'], dev, e['gosig'], e['class']), wit)
    # retained argument tuple
    for kc in keepcases:
        g = gr.get(kc['id'])
        if g is None or g.get('timeout'):
            rep.inconc('no result for %s' % kc['id'])
            continue
        rep.evaluations += 2
        nontriv.add(('keep', kc['id']))
        via = kc['id'].split('_')[-1]
        if g.get('panic') or g.get('crash') or g.get('harness_panic'):
            rep.violation('C04|go|keep|via=%s|panic' % via, {'case': kc, 'vrun_mode': 'gocall', 'got': {k: short(v, 600) for k, v in g.items()}})
        elif g.get('out') != KEEP_EXPECT:
            rep.violation('C04|go|keep|via=%s|args-tuple-changed-after-call' % via, {'case': kc, 'vrun_mode': 'gocall', 'expected': KEEP_EXPECT, 'got': g.get('out'), 'exc': g.get('exc')})

    rep.nontrivial = nontriv
    rep.samples = samples + [{'go_call': gexp['go_inst_k'][2][37]['expr'], 'expected_record': gexp['go_inst_k'][2][37]['rec']}]
    rep.rule = ('Python level: signatures = {0,1,2 positional params, each with/without default (defaults trailing)} x {0,1,2 keyword-only, each with/without default} x +-*s x +-**k '
                'x {def, lambda} = 336; calls = <=3 explicit positionals x any subset of keyword names {a,b,d,e,z} (z never a parameter; a/b duplicate a positional) x {no *seq, *seq of 0..2 elements '
                'as list/tuple/generator} x {no **map, **{...} over any subset of the names}. thorough: the whole product for every signature (star kind rotating; full star-kind product on 12 sampled signatures); '
                'quick: def signatures with <=1 keyword-only parameter get every (positional count, keyword set) with sampled *seq/**map spellings, the rest seeded samples. '
                'Embedding boundary: 4 Go signatures x {module function, bound through instance, through class with explicit receiver} x (0..3 positionals x subsets of 2 keywords x 6 *seq forms x 4 **map forms) from Python source, '
                'and x (0..3 positionals x {nil, empty, 1, 2 kwargs}) through py.Call from Go. '
                'non-trivial = distinct (signature, call shape) with at least two argument sources (Python level); distinct (via, Go signature, call shape, expected class) at the boundary')
    rep.assumptions = ['CPython %s binding == Python 3.4 binding on the generated fragment (no positional-only, no PEP 448 calls); cross-checked by an independent model, disagreements dropped and counted' % '.'.join(map(str, __import__('sys').version_info[:3])),
                       'class access to a Go method with an explicit instance follows method-descriptor semantics: first positional is the receiver',
                       'only exception types are compared; **mapping is always a dict display']
