"""Programs in which a way out of a block (continue / break / return / an exception) is PENDING while a finally body or a with-exit runs,
and that body itself runs loops with their own ways out, or suspends a generator.  Shared by C02 (paths vs CPython) and C12 (verifier +
depths at run time).  Also every way out of every clause of every try layout directly inside a loop."""

PRE = '''class CM:
    def __init__(self, n):
        self.n = n
    def __enter__(self):
        print("enter", self.n)
        return self
    def __exit__(self, a, b, c):
        print("exit", self.n, a is None)
        return False
'''

OUTER_EXITS = {'none': 'pass', 'continue': 'continue', 'break': 'break', 'return': 'return 5', 'raise': 'raise ValueError'}
INNER_EXITS = {'none': 'pass', 'continue': 'continue', 'break': 'break', 'raise-caught': 'raise KeyError'}


def ind(lines, n):
    return ['    ' * n + l for l in lines]


def inner_construct(kind, iexit):
    """lines of a loop that runs inside the finally body"""
    ex = INNER_EXITS[iexit]
    if kind == 'for-try-finally':
        return ['for j in [0, 1, 2]:', '    try:', '        try:', '            if j == 1:', '                ' + ex, '        except KeyError:', '            print("caught", j)',
                '        print("inner", j)', '    finally:', '        print("fin-inner", j)']
    if kind == 'while-try-finally':
        return ['j = 0', 'while j < 3:', '    j += 1', '    try:', '        try:', '            if j == 2:', '                ' + ex, '        except KeyError:', '            print("caught", j)',
                '        print("inner", j)', '    finally:', '        print("fin-inner", j)']
    if kind == 'for-with':
        return ['for j in [0, 1, 2]:', '    with CM(j):', '        try:', '            if j == 1:', '                ' + ex, '        except KeyError:', '            print("caught", j)', '        print("inner", j)']
    if kind == 'for-plain':
        return ['for j in [0, 1, 2]:', '    try:', '        if j == 1:', '            ' + ex, '    except KeyError:', '        print("caught", j)', '    print("inner", j)']
    raise AssertionError(kind)


def programs():
    out = []
    # (1) an exit pending across a finally body / with-exit that runs loops with exits of their own
    for oloop in ('for', 'while'):
        for otry in ('try-finally', 'try-except-finally', 'with-try-finally'):
            for oexit, ostmt in OUTER_EXITS.items():
                for ikind in ('for-try-finally', 'while-try-finally', 'for-with', 'for-plain'):
                    for iexit in INNER_EXITS:
                        body = ['if i == 1:', '    ' + ostmt, 'print("body", i)']
                        fin = inner_construct(ikind, iexit) + ['print("fin-outer", i)']
                        if otry == 'try-finally':
                            blk = ['try:'] + ind(body, 1) + ['finally:'] + ind(fin, 1)
                        elif otry == 'try-except-finally':
                            blk = ['try:'] + ind(body, 1) + ['except KeyError:', '    print("never")', 'finally:'] + ind(fin, 1)
                        else:
                            blk = ['with CM(9):', '    try:'] + ind(body, 2) + ['    finally:'] + ind(fin, 2)
                        if oloop == 'for':
                            loop = ['for i in [0, 1, 2]:'] + ind(blk, 1)
                        else:
                            loop = ['i = -1', 'while i < 2:', '    i += 1'] + ind(blk, 1)
                        src = PRE + 'def f():\n' + ''.join(l + '\n' for l in ind(loop + ['print("after-loop")', 'return "end"'], 1))
                        src += 'try:\n    print(f())\nexcept ValueError:\n    print("ValueError")\n'
                        out.append({'id': 'pend-%s-%s-%s-%s-%s' % (oloop, otry, oexit, ikind, iexit), 'src': src, 'family': 'pending-exit-across-finally', 'outer': oexit, 'inner': ikind + ':' + iexit})
    # (2) a generator suspended inside a finally body / with body while an exit is pending
    for oloop in ('for', 'while'):
        for oexit, ostmt in OUTER_EXITS.items():
            for where in ('finally', 'finally-twice', 'with-body', 'except-then-finally'):
                body = ['if i == 1:', '    ' + ostmt, 'yield ("body", i)']
                if where == 'finally':
                    blk = ['try:'] + ind(body, 1) + ['finally:', '    yield ("fin", i)']
                elif where == 'finally-twice':
                    blk = ['try:'] + ind(body, 1) + ['finally:', '    yield ("fin", i)', '    yield ("fin2", i)']
                elif where == 'with-body':
                    blk = ['try:', '    with CM(i):'] + ind(body, 2) + ['finally:', '    yield ("fin", i)']
                else:
                    blk = ['try:'] + ind(body, 1) + ['except KeyError:', '    yield "never"', 'finally:', '    yield ("fin", i)']
                if oloop == 'for':
                    loop = ['for i in [0, 1, 2]:'] + ind(blk, 1)
                else:
                    loop = ['i = -1', 'while i < 2:', '    i += 1'] + ind(blk, 1)
                src = PRE + 'def g():\n' + ''.join(l + '\n' for l in ind(loop + ['yield "end"'], 1))
                src += 'it = g()\nfor k in range(12):\n    try:\n        print(next(it))\n    except StopIteration:\n        print("stop")\n        break\n    except ValueError:\n        print("ValueError")\n'
                out.append({'id': 'pendgen-%s-%s-%s' % (oloop, oexit, where), 'src': src, 'family': 'generator-suspended-with-exit-pending', 'outer': oexit, 'inner': where})
    # (3) every way out of every clause of every try layout directly inside a loop
    layouts = {'except': ('body', 'except'), 'except-else': ('body', 'except', 'else'), 'finally': ('body', 'finally'), 'except-finally': ('body', 'except', 'finally'),
               'except-else-finally': ('body', 'except', 'else', 'finally'), 'with': ('body',)}
    for oloop in ('for', 'while'):
        for lay, clauses in layouts.items():
            for clause in clauses:
                for ex in ('continue', 'break', 'return 7'):
                    if clause == 'finally' and ex == 'continue':
                        continue                         # illegal in Python 3.4
                    for raises in ((False, True) if 'except' in clauses else (False,)):
                        if clause == 'except' and not raises or clause == 'else' and raises:
                            continue
                        exit_l = ['if i == 1:', '    ' + ex]
                        bl = (['raise KeyError'] if raises else []) if clause != 'body' else exit_l + (['raise KeyError'] if raises else [])
                        b = ['print("body", i)'] + bl
                        if lay == 'with':
                            blk = ['with CM(i):'] + ind(b, 1)
                        else:
                            blk = ['try:'] + ind(b, 1)
                            if 'except' in clauses:
                                blk += ['except KeyError:'] + ind(['print("handler", i)'] + (exit_l if clause == 'except' else []), 1)
                            if 'else' in clauses:
                                blk += ['else:'] + ind(['print("else", i)'] + (exit_l if clause == 'else' else []), 1)
                            if 'finally' in clauses:
                                blk += ['finally:'] + ind(['print("finally", i)'] + (exit_l if clause == 'finally' else []), 1)
                        blk += ['print("after-try", i)']
                        if oloop == 'for':
                            loop = ['for i in [0, 1, 2]:'] + ind(blk, 1) + ['else:', '    print("loop-else")']
                        else:
                            loop = ['i = -1', 'while i < 2:', '    i += 1'] + ind(blk, 1) + ['else:', '    print("loop-else")']
                        src = PRE + 'def f():\n' + ''.join(l + '\n' for l in ind(loop + ['return "end"'], 1)) + 'print(f())\nprint(f())\n'
                        out.append({'id': 'clause-%s-%s-%s-%s-%s' % (oloop, lay, clause, ex.split(' ')[0], 'r' if raises else 'n'), 'src': src, 'family': 'exit-from-clause', 'outer': ex.split(' ')[0], 'inner': lay + ':' + clause})
    return out


def outside_loop_programs():
    """break / continue where no loop encloses them but a try / with / class / def does (inside and outside an outer loop that a def or class
    cuts off): the compiler must refuse them - a code object with BREAK_LOOP / CONTINUE_LOOP and no loop block cannot be executed."""
    out = []
    wrappers = {'try-finally': 'try:\n    %s\nfinally:\n    pass\n', 'finally-clause': 'try:\n    pass\nfinally:\n    %s\n', 'try-except': 'try:\n    %s\nexcept Exception:\n    pass\n',
                'except-clause': 'try:\n    pass\nexcept Exception:\n    %s\n', 'else-clause': 'try:\n    pass\nexcept Exception:\n    pass\nelse:\n    %s\n', 'with': 'with CM(1):\n    %s\n',
                'if': 'if True:\n    %s\n', 'plain': '%s\n', 'nested-try': 'try:\n    try:\n        %s\n    finally:\n        pass\nexcept Exception:\n    pass\n'}

    def ind(t, n):
        return ''.join('    ' * n + l + '\n' for l in t.split('\n') if l)
    for st in ('break', 'continue'):
        for wn, w in wrappers.items():
            body = w % st
            for ctx in ('module', 'def', 'class', 'def-in-loop', 'class-in-loop', 'lambda-default-in-loop'):
                if ctx == 'module':
                    src = body
                elif ctx == 'def':
                    src = 'def f():\n' + ind(body, 1) + 'f()\n'
                elif ctx == 'class':
                    src = 'class C:\n' + ind(body, 1)
                elif ctx == 'def-in-loop':
                    src = 'for i in [1, 2]:\n    def f():\n' + ind(body, 2) + '    f()\n'
                elif ctx == 'class-in-loop':
                    src = 'for i in [1, 2]:\n    class C:\n' + ind(body, 2)
                else:
                    src = 'while False:\n    def f(a=1):\n' + ind(body, 2)
                out.append({'id': 'noloop-%s-%s-%s' % (st, wn, ctx), 'src': PRE + src})
    return out


def handler_clause_programs():
    """except clauses whose class expression is not (only) exception classes: a tuple member that is no exception class makes the clause raise
    TypeError when an exception reaches it - whether or not another member matches, wherever in the tuple the bad member stands."""
    out = []
    clauses = ['(ValueError, 42)', '(42, ValueError)', '(KeyError, 42)', '42', '(ValueError, None)', '(ValueError, "s")', '(ValueError, object)', '(ValueError, int, KeyError)', '(KeyError, ValueError, 1.5)',
               '((ValueError, 42),)', '(ValueError, (KeyError, 42))', '()', '(ValueError,)', 'NotExc', '(Exception, NotExc)', '(NotExc, Exception)', '[ValueError]', '(LookupError, E1, 0)', 'E1', '(E1, 7)']
    raises = ['raise ValueError("v")', 'raise KeyError("k")', 'raise E1', 'pass', 'q = 1 // 0']
    # things that cannot be raised, causes that cannot be causes
    bad_raises = ['raise 42', 'raise "s"', 'raise None', 'raise ValueError("v") from 42', 'raise ValueError("v") from None', 'raise (ValueError, 1)', 'raise NotExc', 'raise NotExc()',
                  'raise ValueError("v") from KeyError', 'raise E1 from "s"', 'raise int', 'raise KeyError("k") from E1("c")']
    combos = [(ci, cl, ri, rs) for ci, cl in enumerate(clauses) for ri, rs in enumerate(raises)]
    combos += [(100 + ci, cl, 100 + ri, rs) for ci, cl in enumerate(['(ValueError, TypeError)', 'Exception', 'ValueError', '(KeyError, 42)', 'LookupError']) for ri, rs in enumerate(bad_raises)]
    for ci, cl, ri, rs in combos:
        for _once in (0,):
            for asn in ('', ' as e'):
                src = ('class E1(ValueError):\n    pass\nclass NotExc:\n    pass\ndef f():\n    try:\n        try:\n            print("body")\n            %s\n            print("body-end")\n        except %s%s:\n            print("handler")\n'
                       '        else:\n            print("else")\n        finally:\n            print("finally")\n    except TypeError:\n        print("outer-TypeError")\n    except ValueError:\n        print("outer-ValueError")\n'
                       '    except LookupError:\n        print("outer-LookupError")\n    except ZeroDivisionError:\n        print("outer-ZeroDivisionError")\n    return "end"\nprint(f())\n' % (rs, cl, asn))
                out.append({'id': 'hclause-%d-%d-%s' % (ci, ri, 'as' if asn else 'plain'), 'src': src, 'family': 'handler-clause-validation' if ri < 100 else 'raise-of-non-exception', 'outer': rs.replace('raise ', '')[:30], 'inner': cl})
    return out
