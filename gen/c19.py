"""C19 - a module body runs once per context; all importers share the module; `import *` names; ImportError leaves
the context usable.

Monitor (source modules): every generated module logs `exec <name> <__name__>` at its top, what it can see of each of
its imports right after the import statement, and `done <name>` at its end; main imports in a chosen order with chosen
statement forms, then (phase 2) imports every module plainly, lets every module report its current view (peek), mutates
every module (append to its list, rebind its int), peeks again, prints identities (`m1.m2 is m2`, `m1.lst2 is m2.lst2`)
and finally re-imports everything in other forms (no body may run again).  Oracle: CPython running the same files.
Go modules are covered by vrun mode `gomod` (see harness/cmd/vrun/gomod.go) when that mode is present.
"""
import itertools
import common
from common import rng, run_vrun, oracle_exec, short

PID = 'C19'

FORMS = ['import', 'as', 'from', 'from-as', 'star', 'func-now', 'func-late', 'from-late']
EXTRA_FORMS = ['missing-name', 'missing-module-strict', 'missing-module-loose']


def chk_def(i):
    return ('def chk%d(label, f):\n'
            '    try:\n'
            '        print(label, f())\n'
            '    except AttributeError:\n'
            '        print(label, "AttributeError")\n'
            '    except NameError:\n'
            '        print(label, "NameError")\n'
            '    except ImportError:\n'
            '        print(label, "ImportError")\n') % i


def edge_text(i, k, j, form):
    """text of edge number k of module i (0 = main) towards module j, and the peek expressions it contributes"""
    L = 'm%d:%d' % (i, k)
    c = 'chk%d' % i
    t = []
    peek = []
    handlers = ('except ImportError:\n    print("%s ImportError")\nexcept AttributeError:\n    print("%s AttributeError")\n' % (L, L))
    if form == 'import':
        t.append('try:\n    import m%d\n    print("%s ok")\n%s' % (j, L, handlers))
        t.append('%s("%s x", lambda: m%d.x%d)\n%s("%s late", lambda: m%d.late%d)\n' % (c, L, j, j, c, L, j, j))
        peek.append(('x', 'm%d.x%d' % (j, j)))
        peek.append(('n', 'len(m%d.lst%d)' % (j, j)))
    elif form == 'as':
        t.append('try:\n    import m%d as n%d_%d\n    print("%s ok")\n%s' % (j, i, k, L, handlers))
        t.append('%s("%s x", lambda: n%d_%d.x%d)\n%s("%s late", lambda: n%d_%d.late%d)\n' % (c, L, i, k, j, c, L, i, k, j))
        peek.append(('x', 'n%d_%d.x%d' % (i, k, j)))
        peek.append(('n', 'len(n%d_%d.lst%d)' % (i, k, j)))
    elif form == 'from':
        t.append('try:\n    from m%d import x%d, lst%d\n    print("%s ok")\n%s' % (j, j, j, L, handlers))
        t.append('%s("%s x", lambda: x%d)\n' % (c, L, j))
        peek.append(('x', 'x%d' % j))
        peek.append(('n', 'len(lst%d)' % j))
    elif form == 'from-as':
        t.append('try:\n    from m%d import x%d as y%d_%d, lst%d as l%d_%d\n    print("%s ok")\n%s' % (j, j, i, k, j, i, k, L, handlers))
        t.append('%s("%s x", lambda: y%d_%d)\n' % (c, L, i, k))
        peek.append(('x', 'y%d_%d' % (i, k)))
        peek.append(('n', 'len(l%d_%d)' % (i, k)))
    elif form == 'from-late':
        t.append('try:\n    from m%d import late%d\n    print("%s ok")\n%s' % (j, j, L, handlers))
        t.append('%s("%s late", lambda: late%d)\n' % (c, L, j))
        peek.append(('late', 'late%d' % j))
    elif form == 'star':
        t.append('try:\n    from m%d import *\n    print("%s ok")\n%s' % (j, L, handlers))
        for nm in ('x%d' % j, '_p%d' % j, 'late%d' % j, '_q%d' % j):
            t.append('%s("%s %s", lambda: %s)\n' % (c, L, nm, nm))
        t.append('%s("%s lst", lambda: len(lst%d))\n' % (c, L, j))
        peek.append(('x', 'x%d' % j))
        peek.append(('n', 'len(lst%d)' % j))
    elif form == 'func-now':
        t.append('def f%d_%d():\n    import m%d\n    return m%d.x%d\n' % (i, k, j, j, j))
        t.append('%s("%s call", lambda: f%d_%d())\n' % (c, L, i, k))
        peek.append(('f', 'f%d_%d()' % (i, k)))
    elif form == 'func-late':
        t.append('def f%d_%d():\n    from m%d import x%d as v\n    return v\n' % (i, k, j, j))
        peek.append(('f', 'f%d_%d()' % (i, k)))
    elif form == 'missing-name':
        t.append('try:\n    from m%d import nope%d\n    print("%s ok")\n%s' % (j, j, L, handlers))
        t.append('%s("%s nope", lambda: nope%d)\n' % (c, L, j))
    elif form == 'missing-module-strict':
        t.append('try:\n    import nomod%d\n    print("%s ok")\n%s' % (j, L, handlers))
        t.append('%s("%s after", lambda: x%d)\n' % (c, L, i) if i else 'print("%s after")\n' % L)
    elif form == 'missing-module-loose':
        t.append('try:\n    import nomod%d\n    print("%s ok")\nexcept Exception:\n    print("%s some exception")\n' % (j, L, L))
        t.append('%s("%s after", lambda: x%d)\n' % (c, L, i) if i else 'print("%s after")\n' % L)
    else:
        raise AssertionError(form)
    return ''.join(t), peek


def module_text(i, spec):
    """spec: {'all': None|'pubpriv'|'late', 'edges': [(j, form), ...]}"""
    t = ['print("exec m%d", __name__)\n' % i, chk_def(i), 'x%d = %d\n_p%d = %d\n_q%d = %d\nlst%d = [%d]\n' % (i, i, i, i + 100, i, i + 300, i, i)]
    if spec['all'] == 'pubpriv':
        t.append('__all__ = ["x%d", "_p%d", "lst%d"]\n' % (i, i, i))
    elif spec['all'] == 'late':
        t.append('__all__ = ["x%d", "lst%d", "late%d"]\n' % (i, i, i))
    peeks = []
    for k, (j, form) in enumerate(spec['edges']):
        txt, pk = edge_text(i, k, j, form)
        t.append(txt)
        peeks += [('m%d:%d %s' % (i, k, a), b) for a, b in pk]
    if spec.get('fail'):
        # the body fails after its own imports have completed: the modules it imported stay imported (their bodies never run again)
        t.append('print("failing m%d")\nimport nomodbody%d\n' % (i, i))
    t.append('late%d = %d\n' % (i, i + 200))
    t.append('def peek%d():\n' % i)
    t.append('    chk%d("m%d own", lambda: x%d + len(lst%d))\n' % (i, i, i, i))
    for lab, e in peeks:
        t.append('    chk%d("peek %s", lambda: %s)\n' % (i, lab, e))
    t.append('    return 0\n')
    t.append('print("done m%d")\n' % i)
    return ''.join(t)


def main_text(n, specs, main_edges):
    t = ['print("exec main", __name__)\n', chk_def(0)]
    for k, (j, form) in enumerate(main_edges):
        txt, _ = edge_text(0, k, j, form)
        t.append(txt)
    t.append('print("-- phase 2")\n')
    for j in range(1, n + 1):
        t.append('try:\n    import m%d\nexcept ImportError:\n    print("phase2 m%d ImportError")\n' % (j, j))
    for rnd in (1, 2):
        t.append('print("-- peek %d")\n' % rnd)
        for j in range(1, n + 1):
            t.append('chk0("peek m%d", lambda: m%d.peek%d())\n' % (j, j, j))
        if rnd == 1:
            t.append('print("-- mutate")\n')
            for j in range(1, n + 1):
                t.append('chk0("mut m%d", lambda: m%d.lst%d.append(7))\n' % (j, j, j))
                t.append('try:\n    m%d.x%d = %d\nexcept NameError:\n    print("mut NameError")\n' % (j, j, 70 + j))
    t.append('print("-- identity")\n')
    for i in range(1, n + 1):
        for k, (j, form) in enumerate(specs[i]['edges']):
            if not isinstance(j, int) or form.startswith('missing'):
                continue
            L = 'id m%d:%d' % (i, k)
            if form == 'import':
                t.append('chk0("%s", lambda: m%d.m%d is m%d)\n' % (L, i, j, j))
            elif form == 'as':
                t.append('chk0("%s", lambda: m%d.n%d_%d is m%d)\n' % (L, i, i, k, j))
            elif form in ('from', 'star'):
                t.append('chk0("%s", lambda: m%d.lst%d is m%d.lst%d)\n' % (L, i, j, j, j))
            elif form == 'from-as':
                t.append('chk0("%s", lambda: m%d.l%d_%d is m%d.lst%d)\n' % (L, i, i, k, j, j))
    t.append('print("-- reimport")\n')
    for j in range(1, n + 1):
        t.append('try:\n    import m%d as again%d\n    from m%d import lst%d as againl%d\n    print("re m%d", again%d is m%d, againl%d is m%d.lst%d)\nexcept ImportError:\n    print("re m%d ImportError")\nexcept NameError:\n    print("re m%d NameError")\n' % (j, j, j, j, j, j, j, j, j, j, j, j, j))
    t.append('print("end main")\n')
    return ''.join(t)


# ------------------------------------------------------------------------------------------------
# graph shapes: dict node -> list of targets (0 = main). Forms are assigned afterwards.
SHAPES = {
    'single':   (1, {0: [1]}),
    'twice':    (1, {0: [1, 1]}),
    'chain2':   (2, {0: [1], 1: [2]}),
    'chain3':   (3, {0: [1], 1: [2], 2: [3]}),
    'fan':      (2, {0: [1, 2]}),
    'shared':   (2, {0: [1, 2], 1: [2]}),
    'diamond':  (3, {0: [1, 2], 1: [3], 2: [3]}),
    'self':     (1, {0: [1], 1: [1]}),
    'cycle2':   (2, {0: [1], 1: [2], 2: [1]}),
    'cycle2b':  (2, {0: [1, 2], 1: [2], 2: [1]}),
    'cycle3':   (3, {0: [1], 1: [2], 2: [3], 3: [1]}),
    'diamond-cycle': (3, {0: [1, 2], 1: [3], 2: [3], 3: [1]}),
    'chain4':   (4, {0: [1], 1: [2], 2: [3], 3: [4]}),
    'two-paths': (4, {0: [1, 4], 1: [2, 3], 2: [4], 3: [4]}),
}


def build_case(cid, shape, n, graph, forms, alls, order, fail=()):
    """graph: node -> targets; forms: dict (node, k) -> form; alls: dict node -> __all__ variant; order: permutation of main's edge indices;
    fail: modules whose body raises ImportError after its imports"""
    specs = {}
    for i in range(1, n + 1):
        specs[i] = {'all': alls.get(i), 'edges': [(j, forms[(i, k)]) for k, j in enumerate(graph.get(i, []))], 'fail': i in fail}
    main_edges = [(graph[0][k], forms[(0, k)]) for k in order]
    files = {'m%d.py' % i: module_text(i, specs[i]) for i in range(1, n + 1)}
    src = main_text(n, specs, main_edges)
    used = set(forms.values())
    ef = {'0:%d' % k: f for k, (j, f) in enumerate(main_edges)}
    for i in specs:
        for k, (j, f) in enumerate(specs[i]['edges']):
            ef['%d:%d' % (i, k)] = f
    feats = {'shape': shape, 'forms': sorted(used), 'all': sorted(set(v for v in alls.values() if v)), 'n': n, 'edge_forms': ef}
    return {'id': cid, 'src': src, 'files': files}, feats


def has_cycle(graph):
    color = {}

    def dfs(u):
        color[u] = 1
        for v in graph.get(u, []):
            if not isinstance(v, int):
                continue
            if color.get(v) == 1:
                return True
            if color.get(v) is None and dfs(v):
                return True
        color[u] = 2
        return False
    return any(dfs(u) for u in list(graph) if color.get(u) is None)


CANARY = [
    ({'id': 'can0', 'src': 'print("exec main", __name__)\nimport m1\nprint(m1.x1)\n', 'files': {'m1.py': 'print("exec m1", __name__)\nx1 = 1\n'}}),
    ({'id': 'can1', 'src': chk_def(0) + 'chk0("a", lambda: 1)\nchk0("b", lambda: nope)\nimport m1\nchk0("c", lambda: m1.zz)\nchk0("d", lambda: m1.x1 is m1.x1)\n', 'files': {'m1.py': 'x1 = 1\n'}}),
    ({'id': 'can2', 'src': 'try:\n    from m1 import *\n    print("ok", x1)\nexcept ImportError:\n    print("IE")\nexcept AttributeError:\n    print("AE")\n', 'files': {'m1.py': 'x1 = 5\n'}}),
    ({'id': 'can3', 'src': 'def f():\n    import m1\n    return m1.x1\nprint(f())\n', 'files': {'m1.py': 'print("exec m1")\nx1 = 5\n'}}),
]


def run(tier, rep):
    quick = tier == 'quick'
    r = rng(PID)
    cg, _ = run_vrun('exec', CANARY, workers=2)
    co = oracle_exec(CANARY, workers=2)
    for c in CANARY:
        g, o = cg.get(c['id'], {}), co.get(c['id'], {})
        if g.get('out') != o.get('out') or g.get('exc') or o.get('exc') or g.get('cerr') or g.get('panic') or g.get('crash') or not o.get('out'):
            rep.broke('canary %s disagrees: gpython=%s cpython=%s' % (c['id'], short(g), short(o)))
            return

    cases = []
    feats = {}

    def add(shape, n, graph, forms, alls, order, fail=()):
        cid = 'g%d' % len(cases)
        c, f = build_case(cid, shape, n, graph, forms, alls, order, fail)
        f['failing_body'] = sorted(fail)
        f['cyclic'] = has_cycle(graph)
        # `from m import *` where m lists a not-yet-bound name in __all__ and may be partially initialised (reached through a cycle)
        f['star_partial'] = f['cyclic'] and any(forms[(i, k)] == 'star' and alls.get(j) == 'late' for i in graph for k, j in enumerate(graph[i]))
        cases.append(c)
        feats[cid] = f

    ALLS = [None, 'pubpriv', 'late']
    # (a) fixed shapes: exhaustive form assignment when there are <= 3 edges, sampled otherwise; every order of main's imports
    budget_per_shape = 150 if quick else 4000
    for shape, (n, graph) in SHAPES.items():
        edges = [(i, k) for i in sorted(graph) for k in range(len(graph[i]))]
        combos = None
        if len(FORMS) ** len(edges) <= budget_per_shape * 3:
            combos = list(itertools.product(FORMS, repeat=len(edges)))
            r.shuffle(combos)
            combos = combos[:budget_per_shape * 2] if not quick else combos[:max(budget_per_shape, 64)]
        else:
            combos = [tuple(r.choice(FORMS) for _ in edges) for _ in range(budget_per_shape)]
        orders = list(itertools.permutations(range(len(graph[0]))))
        for ci, combo in enumerate(combos):
            forms = dict(zip(edges, combo))
            alls = {i: ALLS[(ci + i) % 3] if 'star' in combo else r.choice(ALLS) for i in range(1, n + 1)}
            add(shape, n, graph, forms, alls, orders[ci % len(orders)])
    # (b) random graphs over 2..4 modules (+ main = <= 5 nodes), incl. self loops and cycles, random forms, random orders
    nrand = 900 if quick else 60000
    for _ in range(nrand):
        n = r.randrange(2, 5)
        graph = {}
        mains = [j for j in range(1, n + 1) if r.random() < 0.6] or [1]
        r.shuffle(mains)
        graph[0] = mains
        for i in range(1, n + 1):
            ts = [j for j in range(1, n + 1) if r.random() < (0.35 if j != i else 0.12)]
            r.shuffle(ts)
            if ts:
                graph[i] = ts[:3]
        edges = [(i, k) for i in sorted(graph) for k in range(len(graph[i]))]
        forms = {e: r.choice(FORMS) for e in edges}
        alls = {i: r.choice(ALLS) for i in range(1, n + 1)}
        order = list(range(len(graph[0])))
        add('random', n, graph, forms, alls, order)
    # (c) failures inside try/except followed by further imports: missing name, missing module (strict: except ImportError; loose: except Exception)
    nfail = 500 if quick else 20000
    base_shapes = ['chain2', 'fan', 'shared', 'diamond', 'cycle2', 'chain3']
    for t in range(nfail):
        shape = base_shapes[t % len(base_shapes)]
        n, graph0 = SHAPES[shape]
        graph = {i: list(v) for i, v in graph0.items()}
        edges = [(i, k) for i in sorted(graph) for k in range(len(graph[i]))]
        forms = {e: r.choice(FORMS) for e in edges}
        # insert a failing edge at a random position of a random node (main included)
        kind = EXTRA_FORMS[(t // len(base_shapes)) % 3]
        node = r.randrange(0, n + 1)
        lst = graph.setdefault(node, [])
        pos = r.randrange(0, len(lst) + 1)
        tgt = r.randrange(1, n + 1)
        lst.insert(pos, tgt)
        # re-key forms of that node
        old = [forms.get((node, k)) for k in range(len(lst) - 1)]
        old.insert(pos, kind)
        for k, f in enumerate(old):
            forms[(node, k)] = f
        alls = {i: r.choice(ALLS) for i in range(1, n + 1)}
        add(shape + '+' + kind, n, graph, forms, alls, list(range(len(graph[0]))))

    # (d) a module body that fails (unguarded import of a missing module) AFTER it imported other modules: the importer catches the error,
    # everything the failed body had imported stays imported exactly once, the failed module itself is imported afresh (and fails again) on re-import
    nbody = 400 if quick else 12000
    body_shapes = ['chain2', 'chain3', 'shared', 'diamond', 'cycle2', 'cycle2b', 'diamond-cycle', 'chain4', 'two-paths']
    for t in range(nbody):
        shape = body_shapes[t % len(body_shapes)]
        n, graph0 = SHAPES[shape]
        graph = {i: list(v) for i, v in graph0.items()}
        edges = [(i, k) for i in sorted(graph) for k in range(len(graph[i]))]
        forms = {e: r.choice(FORMS) for e in edges}
        cand = [i for i in range(1, n + 1) if graph.get(i)] or list(range(1, n + 1))
        fail = {r.choice(cand)}
        if r.random() < 0.15:
            fail.add(r.randrange(1, n + 1))
        alls = {i: r.choice(ALLS) for i in range(1, n + 1)}
        add(shape + '+failing-body', n, graph, forms, alls, list(range(len(graph[0]))), fail)

    # (e) a module that cannot be found at first and can later (its directory is appended to sys.path in between): the first import raises
    # ImportError, the later one finds it, runs its body exactly once and every further import shares that module
    late_forms = ['import late%d\nprint("got", late%d.v)', 'from late%d import v\nprint("got", v)', 'import late%d as L\nprint("got", L.v)', 'from late%d import *\nprint("got", v)',
                  'def f():\n    import late%d\n    return late%d.v\nprint("got", f())', 'from late%d import v as w\nprint("got", w)']
    k = 0
    for first in late_forms:
        for second in late_forms:
            for via in ('main', 'helper'):
                k += 1
                n = k
                def blk(form, tag):
                    body = (form.replace('%d', str(n)))
                    return 'try:\n' + ''.join('    ' + l + '\n' for l in body.split('\n')) + 'except ImportError:\n    print("%s ImportError")\n' % tag
                helper = 'print("exec helper")\n' + blk(second, 'helper')
                src = ('import sys\nprint("exec main")\n' + blk(first, 'first') + blk(first, 'again-missing') +
                       'for p in list(sys.path):\n    sys.path.append(p + "/sub")\n' +
                       (blk(second, 'second') if via == 'main' else 'import helper%d\n' % n) + blk(first, 'third') + blk(second, 'fourth') +
                       'import late%d as Z\nZ.lst.append(1)\nimport late%d as Y\nprint("same", Y is Z, len(Y.lst))\n' % (n, n))
                files = {'sub/late%d.py' % n: 'print("exec late")\nv = %d\nlst = []\n' % n, 'helper%d.py' % n: helper, 'sub/other.py': 'x = 1\n'}
                cid = 'g%d' % len(cases)
                cases.append({'id': cid, 'src': src, 'files': files})
                feats[cid] = {'shape': 'late-findable', 'forms': ['late'], 'all': [], 'n': 1, 'edge_forms': {}, 'cyclic': False, 'star_partial': False, 'failing_body': []}

    # (g) entries of sys.path that are not directories (a regular file, a missing directory, an empty string, a file inside a file): they are skipped -
    # a module further along the path is found, a missing module is ImportError
    for bi, bad in enumerate(['"notadir.py"', '"notadir.py/deeper"', '"missingdir"', '"missingdir/x/y"', '"sub/other.py"', '"."']):
        for form in ('import late%d\nprint("got", late%d.v)', 'from late%d import v\nprint("got", v)'):
            for missing in ('import nosuch_mod', 'from nosuch_mod import a'):
                n = 900 + bi
                body = form.replace('%d', str(n))
                src = ('import sys\nprint("exec main")\nsys.path[0:0] = [%s]\nfor p in list(sys.path):\n    sys.path.append(p + "/sub")\ntry:\n%sexcept ImportError:\n    print("ImportError")\ntry:\n    %s\n    print("imported?")\nexcept ImportError:\n    print("missing ImportError")\n'
                       'import late%d as Z\nprint("same", Z.v)\n' % (bad, ''.join('    ' + l + '\n' for l in body.split('\n')), missing, n))
                files = {'sub/late%d.py' % n: 'print("exec late")\nv = %d\n' % n, 'notadir.py': 'print("exec notadir")\n', 'sub/other.py': 'x = 1\n'}
                cid = 'g%d' % len(cases)
                cases.append({'id': cid, 'src': src, 'files': files})
                feats[cid] = {'shape': 'path-entry-not-a-directory', 'forms': ['late'], 'all': [], 'n': 1, 'edge_forms': {}, 'cyclic': False, 'star_partial': False, 'failing_body': []}

    import concurrent.futures
    with concurrent.futures.ThreadPoolExecutor(2) as ex:   # the two observations are independent: overlap them
        fg = ex.submit(run_vrun, 'exec', cases, None, 30)
        fo = ex.submit(oracle_exec, cases, max(4, common.NCPU // 2))
        got, _ = fg.result()
        exp = fo.result()
    nontriv = set()
    nexec_lines = 0
    clean_forms = {}
    for c in cases:
        cid = c['id']
        f = feats[cid]
        g, o = got.get(cid), exp.get(cid)
        if o is None or o.get('oracle_failed') or o.get('cerr'):
            rep.inconc('oracle problem on %s: %s' % (cid, short(o)))
            continue
        if g is None or g.get('timeout') or g.get('wall_timeout'):
            rep.inconc('timeout/no result on %s' % cid)
            continue
        rep.evaluations += 1
        risky = sorted(x for x in f['forms'] if x in ('missing-module-strict',)) + (['star-all-names-missing'] if f['star_partial'] else [])
        tag = ('C19|risky=%s|' % '+'.join(risky)) if risky else 'C19|shape=%s|' % f['shape'].split('+')[0]
        wit = {'case': c, 'features': f, 'expected': {k: o.get(k) for k in ('out', 'exc')}, 'got': {k: short(g.get(k), 3000) for k in ('out', 'exc', 'excmsg', 'panic', 'stack', 'crash') if g.get(k)}}
        if len(c['files']) >= 2 or f['cyclic']:
            nontriv.add((f['shape'], tuple(sorted(c['files'].items())), c['src']))
        if g.get('panic') or g.get('crash') or g.get('harness_panic'):
            rep.violation(tag + 'panic', wit)
            continue
        if g.get('cerr'):
            rep.violation(tag + 'compile-error', wit)
            continue
        if (g.get('exc') or None) != (o.get('exc') or None):
            rep.violation(tag + 'exc:%s-for-%s' % (g.get('exc') or 'none', o.get('exc') or 'none'), wit)
            continue
        eo, go_ = o.get('out', ''), g.get('out', '')
        el, gl = eo.split('\n'), go_.split('\n')
        nexec_lines += sum(1 for l in el if l.startswith('exec m'))
        if not risky:
            for x in f['forms']:
                clean_forms[x] = clean_forms.get(x, 0) + 1
        if eo == go_:
            continue
        ee = sorted(l for l in el if l.startswith('exec '))
        ge = sorted(l for l in gl if l.startswith('exec '))
        if ee != ge:
            dev = 'exec-count'
        else:
            k = 0
            while k < len(el) and k < len(gl) and el[k] == gl[k]:
                k += 1
            line = el[k] if k < len(el) else (gl[k] if k < len(gl) else '')
            dev = 'stdout@' + line_class(line, f, c)
        wit['first_diff'] = [x for x in zip(el, gl) if x[0] != x[1]][:3]
        rep.violation(tag + dev, wit)
    gomod_extra = run_gomod(tier, rep, nontriv)
    pkg_stats = run_packages(tier, rep, nontriv)
    rep.nontrivial = nontriv
    missing = [x for x in FORMS + ['missing-name', 'missing-module-loose'] if not clean_forms.get(x)]
    if missing:
        rep.broke('statement forms never exercised by a case free of recorded defects: %s' % missing)
    rep.rule = ('import graphs over main + <=4 generated modules: %d fixed shapes (single, twice, chains, fan, shared, diamond, self, 2/3-cycles, diamond-cycle, two-paths) x statement form per edge '
                '(exhaustive where forms^edges is small, else seeded samples) x every order of main\'s imports; seeded random digraphs incl. self loops and cycles; failing imports '
                '(missing name, missing module caught strictly / loosely) inserted at random positions followed by further imports; module bodies that fail after having imported other modules, then re-imported; a module that is missing at the first import and findable later (sys.path grows in between). '
                'distinct non-trivial = distinct (files, main) with >=2 modules or a cycle' % len(SHAPES))
    rep.samples = [{'features': feats[c['id']], 'main_excerpt': c['src'][-400:], 'm1_excerpt': c['files'].get('m1.py', '')[:300]} for c in (cases[5], cases[len(cases) // 2])]
    rep.extra = {'graphs': len(cases), 'exec_lines_observed': nexec_lines, 'cyclic_graphs': sum(1 for f in feats.values() if f['cyclic']),
                 'go_modules': gomod_extra, 'forms_clean_counts': clean_forms, 'shapes': sorted(set(f['shape'] for f in feats.values()))[:40]}
    rep.extra['packages'] = pkg_stats
    rep.assumptions = ['CPython 3.11 import semantics for top-level source modules are the reference (no packages, no relative imports, no sys.modules manipulation)',
                       'only exception types are compared; every import and every cross-module access is wrapped, so no module body fails under the reference except the deliberately failing bodies of part (d), whose ImportError the importer catches']


# ---- (f) modules inside package directories (dotted names).  gpython's package support is a simplification (DESIGN: not compared with
# CPython); what the property demands is decided by an invariant of the run itself: no module body runs twice in one context, and every
# importer of a dotted name gets the same module object.
PKG_INITS = {'plain': '', 'imports-own-submodule-from': 'from pkg.sub import tok as subtok\n', 'imports-own-submodule': 'import pkg.sub\n', 'imports-other': 'import pkg.other\n',
             'imports-both': 'from pkg.sub import tok as subtok\nfrom pkg.other import tok as othertok\n'}
PKG_SUBS = {'plain': '', 'imports-sibling': 'import pkg.other\n', 'imports-sibling-from': 'from pkg.other import tok as otok\n', 'imports-package': 'import pkg\n'}
PKG_STMTS = ['import pkg.sub', 'from pkg.sub import tok as t1', 'import pkg', 'import pkg.sub as s2', 'from pkg.other import tok as t3', 'import pkg.other',
             'def f():\n    import pkg.sub\nf()', 'def g():\n    from pkg.sub import tok\n    return tok\ng()', 'import helper', 'from helper import htok']


def package_programs(r, n):
    out = []
    combos = [(i, s_) for i in PKG_INITS for s_ in PKG_SUBS]
    for k in range(n):
        ik, sk = combos[k % len(combos)]
        stmts = [r.choice(PKG_STMTS) for _ in range(r.randrange(1, 5))]
        if k < 2 * len(combos):
            stmts = [PKG_STMTS[(k // len(combos)) % 2]] + stmts          # the first import names the submodule directly
        main = 'print("exec main")\n'
        for st in stmts:
            main += 'try:\n' + ''.join('    ' + l + '\n' for l in st.split('\n')) + 'except Exception:\n    print("stmt-exc")\n'
        main += ('try:\n    from pkg.sub import tok as ta\n    from pkg.sub import tok as tb\n    from helper import htok as tc\n    ta.append(1)\n'
                 '    print("same", ta is tb, ta is tc, len(tb), len(tc))\nexcept Exception:\n    print("final-exc")\n')
        files = {'pkg/__init__.py': 'print("exec pkg")\n' + PKG_INITS[ik], 'pkg/sub.py': 'print("exec pkg.sub")\ntok = []\n' + PKG_SUBS[sk], 'pkg/other.py': 'print("exec pkg.other")\ntok = []\n',
                 'helper.py': 'print("exec helper")\nfrom pkg.sub import tok as htok\n'}
        out.append({'id': 'pk%d' % k, 'src': main, 'files': files, 'init': ik, 'sub': sk, 'stmts': stmts})
    return out


def run_packages(tier, rep, nontriv):
    r = rng(PID, 'packages')
    cases = package_programs(r, 200 if tier == 'quick' else 3000)
    got, _ = run_vrun('exec', [{'id': c['id'], 'src': c['src'], 'files': c['files']} for c in cases], None, 30)
    stats = {'programs': 0, 'bodies_run': 0, 'final_same_checked': 0, 'statement_exceptions': 0}
    for c in cases:
        g = got.get(c['id'])
        if g is None or g.get('timeout'):
            rep.inconc('package program %s: no result' % c['id'])
            continue
        rep.evaluations += 1
        stats['programs'] += 1
        w = {'case': {'id': c['id'], 'src': c['src'], 'files': c['files']}, 'got': {k: short(v, 1500) for k, v in g.items() if k in ('out', 'exc', 'excmsg', 'panic', 'stack', 'crash')}}
        if g.get('panic') or g.get('crash'):
            rep.violation('C19|package|init=%s|panic' % c['init'], w)
            continue
        lines = (g.get('out') or '').split('\n')
        execs = [l for l in lines if l.startswith('exec ')]
        stats['bodies_run'] += len(execs)
        stats['statement_exceptions'] += lines.count('stmt-exc')
        nontriv.add(('package', c['init'], c['sub'], tuple(c['stmts'])))
        dup = sorted({l for l in execs if execs.count(l) > 1})
        if dup:
            rep.violation('C19|package|init=%s|sub=%s|body-ran-twice:%s' % (c['init'], c['sub'], dup[0][5:]), dict(w, first_statement=c['stmts'][0]))
            continue
        same = [l for l in lines if l.startswith('same ')]
        if same:
            stats['final_same_checked'] += 1
            if same[0] != 'same True True 1 1':
                rep.violation('C19|package|init=%s|sub=%s|importers-hold-different-objects' % (c['init'], c['sub']), dict(w, first_statement=c['stmts'][0]))
    if not stats['final_same_checked']:
        rep.broke('no package program reached its final identity check')
    return stats


def line_class(line, f, c):
    """coarse class of the first differing stdout line: the statement form of the edge it reports on, or the phase"""
    import re
    m = re.match(r'(?:peek |id )?m(\d+):(\d+)', line)
    if m:
        return 'edge:' + f['edge_forms'].get('%s:%s' % (m.group(1), m.group(2)), '?')
    for p in ('exec', 'done', 'peek', 'mut', 'id', 're', 'phase2', '--', 'end'):
        if line.startswith(p):
            return p
    return 'other'


# ------------------------------------------------------------------------------------------------
# Go-implemented modules (vrun mode `gomod`): exactly one initialisation per context, one shared *py.Module

GOMODS = ['vg_plain', 'vg_src', 'vg_closed']


def gomod_program(r):
    """returns (src, files, expected stdout, set of go modules loaded). Expected output comes from a tiny model:
    every import form yields the same module object; `counter` lives in the module, one per context."""
    counter = {}
    lines, exp, loaded, files = [], [], set(), {}
    for step in range(r.randrange(3, 9)):
        G = r.choice(GOMODS)
        k = r.randrange(9)
        t = 'q%d' % step
        if k == 0:
            lines += ['import %s' % G, 'print("%s", %s.ident(%s))' % (t, G, G)]
            exp.append('%s True' % t)
        elif k == 1:
            lines += ['import %s as z%d' % (G, step), 'print("%s", z%d.ident(z%d))' % (t, step, step)]
            exp.append('%s True' % t)
        elif k == 2:
            lines += ['import %s' % G, 'import %s as y%d' % (G, step), 'print("%s", y%d is %s)' % (t, step, G)]
            exp.append('%s True' % t)
        elif k == 3 and G != 'vg_closed':
            lines += ['from %s import counter as c%d' % (G, step), 'print("%s", c%d)' % (t, step)]
            exp.append('%s %d' % (t, counter.get(G, 0)))
        elif k == 4 and G != 'vg_closed':
            lines += ['import %s' % G, '%s.counter = %s.counter + 1' % (G, G), 'print("%s", %s.counter)' % (t, G)]
            counter[G] = counter.get(G, 0) + 1
            exp.append('%s %d' % (t, counter[G]))
        elif k == 5:
            lines += ['def f%d():' % step, '    import %s' % G, '    return %s' % G, 'import %s' % G, 'print("%s", f%d() is %s, f%d().ident(%s))' % (t, step, G, step, G)]
            exp.append('%s True True' % t)
        elif k == 6:
            lines += ['from %s import *' % G, 'print("%s", ident is not None)' % t, 'try:', '    _hit', '    print("%s bound")' % t, 'except NameError:', '    print("%s NameError")' % t]
            exp += ['%s True' % t, '%s NameError' % t]
        elif k == 7:
            mn = 'gm%d' % step
            files[mn + '.py'] = 'import %s\nfrom %s import ident as their_ident\n' % (G, G)
            lines += ['import %s' % mn, 'import %s' % G, 'print("%s", %s.%s is %s, %s.%s.ident(%s))' % (t, mn, G, G, mn, G, G)]
            exp.append('%s True True' % t)
        elif k == 8 and G != 'vg_plain':
            lines += ['from %s import value as v%d' % (G, step), 'print("%s", v%d)' % (t, step)]
            exp.append('%s %d' % (t, 42 if G == 'vg_src' else 5))
        else:
            lines += ['import %s' % G, 'print("%s", %s.__name__)' % (t, G)]
            exp.append('%s %s' % (t, G))
        loaded.add(G)
    return '\n'.join(lines) + '\n', files, '\n'.join(exp) + '\n', loaded


def run_gomod(tier, rep, nontriv):
    r = rng(PID, 'gomod')
    n = 400 if tier == 'quick' else 20000
    cases, model = [], {}
    for i in range(n):
        src, files, exp, loaded = gomod_program(r)
        cid = 'gm%d' % i
        cases.append({'id': cid, 'src': src, 'files': files, 'nctx': 3})
        model[cid] = (exp, loaded)
    got, _ = run_vrun('gomod', cases, timeout_case=20)
    ninit = 0
    for c in cases:
        g = got.get(c['id'])
        exp, loaded = model[c['id']]
        if g is None or g.get('timeout') or g.get('wall_timeout'):
            rep.inconc('gomod timeout/no result on %s' % c['id'])
            continue
        rep.evaluations += 1
        nontriv.add(('gomod', c['src']))
        wit = {'case': c, 'vrun_mode': 'gomod', 'expected': {'out': exp, 'loaded': sorted(loaded)}, 'got': short(g, 2500)}
        if g.get('crash') or g.get('harness_panic'):
            rep.violation('C19|gomod|crash', wit)
            continue
        dev = None
        for ctxrec in g.get('ctxs', []):
            if ctxrec.get('panic'):
                dev = 'panic'
            elif ctxrec.get('exc') or ctxrec.get('cerr'):
                dev = 'exc:%s' % (ctxrec.get('exc') or ctxrec.get('cerr'))
            elif ctxrec.get('out') != exp:
                dev = 'stdout'
            elif sorted(k for k, v in ctxrec['loaded'].items() if v) != sorted(loaded):
                dev = 'loaded-set'
            elif any(ctxrec['inits'][m] != (1 if m in loaded else 0) for m in ('vg_src', 'vg_closed')):
                dev = 'init-count'
            elif not all(ctxrec['same'].values()):
                dev = 'module-object-differs-from-GetModule'
            elif ctxrec['closed_calls'] != (1 if 'vg_closed' in loaded else 0) or not ctxrec['closed_same']:
                dev = 'on-context-closed-calls'
            if dev:
                break
            ninit += sum(ctxrec['inits'].values())
        if len(g.get('ctxs', [])) != 3 and not dev:
            dev = 'incomplete'
        if dev:
            rep.violation('C19|gomod|%s' % dev, wit)
    return {'gomod_programs': len(cases), 'gomod_contexts': 3 * len(cases), 'gomod_body_executions_counted': ninit}
