"""C13 - indexing and slicing follow Python's sequence model for all indices.

Monitor : vrun api (py.GetItem/SetItem/DelItem/Add/Mul/Eq/Lt.../SequenceContains/SequenceList on objects built from JSON,
          operands re-dumped after the op, list results mutated to detect aliasing) + the same operations compiled from
          source (BINARY_SUBSCR / BUILD_SLICE / STORE_SUBSCR / DELETE_SUBSCR), one operation per program, elements printed.
Oracle  : a first-principles model (index normalisation, slice clipping by step sign, extended-slice assignment length
          rule, range arithmetic, lexicographic ordering) cross-validated per case against CPython executed in-process;
          a case is judged only when both agree (disagreements are counted, never blamed on gpython).
"""
import itertools
import common
from common import rng, run_vrun, short
from apicodec import Big, Sl, enc, dec, canon, show, outcome

PID = 'C13'
TYPES = ['list', 'tuple', 'str', 'stru', 'bytes', 'range', 'range3', 'rangeneg']
USTR = 'a\u00e9\u20ac\U0001f600\ufffdc'      # U+FFFD is a real character; its UTF-8 decoding equals the decoder's error value

# (type family, operation family) that gpython does not implement at all today (TypeError on the most trivial instance).
# A missing feature is not a C13 violation; each is re-probed on every run and tested normally as soon as it exists.
UNSUPPORTED_OK = {('bytes', 'getindex'), ('bytes', 'getslice'), ('bytes', 'len'), ('bytes', 'mul'), ('list', 'order'), ('tuple', 'order')}


def fits(v):
    return -2 ** 63 <= v < 2 ** 63


def lattice(tier):
    if tier == 'quick':
        return [None, -7, -2, -1, 0, 1, 2, 6, 7, 2 ** 63 - 1, -2 ** 63, 2 ** 64]
    return [None] + list(range(-9, 10)) + [2 ** 31, 2 ** 63 - 1, -(2 ** 63 - 1), 2 ** 63, -2 ** 63, 2 ** 64, -2 ** 64]


def mkseq(T, n):
    if T == 'list':
        return [10 + i for i in range(n)]
    if T == 'tuple':
        return tuple(10 + i for i in range(n))
    if T == 'str':
        return 'abcdef'[:n]
    if T == 'stru':
        return USTR[:n]
    if T == 'bytes':
        return bytes(range(65, 65 + n))
    if T == 'range':
        return range(n)
    if T == 'range3':
        return range(5, 5 + 3 * n, 3)
    if T == 'rangeneg':
        return range(n - 1, -1, -1)
    raise AssertionError(T)


def fam(T):
    return 'str' if T == 'stru' else ('range' if T.startswith('range') else T)


# ------------------------------------------------------------------------------------------------
# first-principles model

class MExc(Exception):
    def __init__(self, name):
        self.name = name


def range_elems(a, b, c):
    out = []
    x = a
    while (x < b) if c > 0 else (x > b):
        out.append(x)
        x += c
    return out


def elems(v):
    if isinstance(v, range):
        return range_elems(v.start, v.stop, v.step)
    if isinstance(v, str):
        return [ch for ch in v]
    if isinstance(v, bytes):
        return [b for b in v]
    return list(v)


def rebuild(like, items):
    if isinstance(like, list):
        return list(items)
    if isinstance(like, tuple):
        return tuple(items)
    if isinstance(like, str):
        return ''.join(items)
    if isinstance(like, bytes):
        return bytes(items)
    raise AssertionError(like)


def as_index(v):
    if isinstance(v, Big):
        return v.v
    if isinstance(v, bool):
        return int(v)
    if isinstance(v, int):
        return v
    raise MExc('TypeError')


def m_index(n, i):
    i = as_index(i)
    if i < 0:
        i += n
    if i < 0 or i >= n:
        raise MExc('IndexError')
    return i


def m_slice(n, sl):
    a, b, c = sl.a
    step = 1 if c is None else as_index(c)
    if step == 0:
        raise MExc('ValueError')
    a = None if a is None else as_index(a)
    b = None if b is None else as_index(b)
    if step > 0:
        lo, hi = 0, n
        da, db = lo, hi
    else:
        lo, hi = -1, n - 1
        da, db = hi, lo

    def clip(v, d):
        if v is None:
            return d
        if v < 0:
            v += n
        return min(max(v, lo), hi)
    s, e = clip(a, da), clip(b, db)
    idx = []
    i = s
    while (i < e) if step > 0 else (i > e):
        idx.append(i)
        i += step
    return s, e, step, idx


def lexcmp(a, b):
    for x, y in zip(a, b):
        if x != y:
            return -1 if x < y else 1
    return (len(a) > len(b)) - (len(a) < len(b))


def model(op, args):
    """returns ('val', canon) | ('relems', tuple) | ('exc', name)"""
    try:
        return _model(op, args)
    except MExc as e:
        return ('exc', e.name)


def _model(op, args):
    s = args[0]
    if op == 'len':
        return ('val', canon(len(elems(s))))
    if op == 'iterlist':
        return ('val', canon(elems(s)))
    if op == 'getindex':
        es = elems(s)
        return ('val', canon(es[m_index(len(es), args[1])]))
    if op == 'getslice':
        es = elems(s)
        _, _, _, idx = m_slice(len(es), args[1])
        picked = [es[k] for k in idx]
        if isinstance(s, range):
            return ('relems', tuple(picked))
        return ('val', canon(rebuild(s, picked)))
    if op == 'setindex':
        out = list(s)
        out[m_index(len(out), args[1])] = args[2]
        return ('val', canon(out))
    if op == 'delindex':
        out = list(s)
        k = m_index(len(out), args[1])
        return ('val', canon(out[:k] + out[k + 1:]))
    if op == 'setslice':
        rhs = list(s) if args[2] is SELF else list(args[2])
        st, e, step, idx = m_slice(len(s), args[1])
        if step == 1:
            if e < st:
                e = st
            return ('val', canon(list(s[:st]) + rhs + list(s[e:])))
        if len(rhs) != len(idx):
            raise MExc('ValueError')
        out = list(s)
        for k, v in zip(idx, rhs):
            out[k] = v
        return ('val', canon(out))
    if op == 'delslice':
        _, _, _, idx = m_slice(len(s), args[1])
        dead = set(idx)
        return ('val', canon([x for k, x in enumerate(s) if k not in dead]))
    if op == 'add':
        t = args[1]
        if isinstance(s, range) or isinstance(t, range) or type(s) is not type(t):
            raise MExc('TypeError')
        return ('val', canon(rebuild(s, elems(s) + elems(t))))
    if op in ('mul', 'rmul'):
        seq, n = (args[0], args[1]) if op == 'mul' else (args[1], args[0])
        if isinstance(seq, range):
            raise MExc('TypeError')
        n = as_index(n)
        es = elems(seq)
        out = []
        for _ in range(max(0, n) if es else 0):
            out += es
        return ('val', canon(rebuild(seq, out)))
    if op == 'contains':
        x = args[1]
        if isinstance(s, str):
            if not isinstance(x, str):
                raise MExc('TypeError')
            es, xs = elems(s), elems(x)
            return ('val', canon(any(es[i:i + len(xs)] == xs for i in range(len(es) - len(xs) + 1))))
        if isinstance(s, bytes):
            if isinstance(x, bytes):
                es, xs = elems(s), elems(x)
                return ('val', canon(any(es[i:i + len(xs)] == xs for i in range(len(es) - len(xs) + 1))))
            if isinstance(x, (int, Big)) and not isinstance(x, bool):
                v = as_index(x)
                if not 0 <= v < 256:
                    raise MExc('ValueError')
                return ('val', canon(v in elems(s)))
            if isinstance(x, bool):
                return ('val', canon(int(x) in elems(s)))
            raise MExc('TypeError')
        xv = x.v if isinstance(x, Big) else x
        num = (int, float)  # bool is an int; numbers compare by value across types
        return ('val', canon(any((isinstance(e, num) and isinstance(xv, num) and e == xv) or (type(e) is type(xv) and e == xv) for e in elems(s))))
    if op in ('eq', 'ne', 'lt', 'le', 'gt', 'ge'):
        t = args[1]
        same = fam_of(s) == fam_of(t)
        if op in ('eq', 'ne'):
            r = same and elems(s) == elems(t)
            return ('val', canon(r if op == 'eq' else not r))
        if not same or isinstance(s, range):
            raise MExc('TypeError')
        c = lexcmp(elems(s), elems(t))
        return ('val', canon({'lt': c < 0, 'le': c <= 0, 'gt': c > 0, 'ge': c >= 0}[op]))
    raise AssertionError(op)


def fam_of(v):
    return type(v).__name__


class _Self:
    def __repr__(self):
        return '<the list itself>'


SELF = _Self()


# ------------------------------------------------------------------------------------------------
# CPython in-process

def real(v):
    if isinstance(v, Big):
        return v.v
    if isinstance(v, Sl):
        return slice(*[real(x) for x in v.a])
    if isinstance(v, list):
        return list(v)
    return v


def cpy(op, args):
    try:
        a = [real(x) for x in args]
        s = a[0]
        if op == 'len':
            r = len(s)
        elif op == 'iterlist':
            r = list(s)
        elif op in ('getindex', 'getslice'):
            r = s[a[1]]
            if isinstance(r, range):
                return ('relems', tuple(r))
        elif op in ('setindex', 'setslice'):
            s[a[1]] = s if args[2] is SELF else a[2]
            r = s
        elif op in ('delindex', 'delslice'):
            del s[a[1]]
            r = s
        elif op == 'add':
            r = s + a[1]
        elif op in ('mul', 'rmul'):
            r = s * a[1]
        elif op == 'contains':
            r = a[1] in s
        elif op == 'eq':
            r = s == a[1]
        elif op == 'ne':
            r = s != a[1]
        elif op == 'lt':
            r = s < a[1]
        elif op == 'le':
            r = s <= a[1]
        elif op == 'gt':
            r = s > a[1]
        elif op == 'ge':
            r = s >= a[1]
        else:
            raise AssertionError(op)
        return ('val', canon(r))
    except (IndexError, ValueError, TypeError, OverflowError, MemoryError) as e:
        return ('exc', type(e).__name__)


# ------------------------------------------------------------------------------------------------
# feature classes for signatures

def idx_class(v, n):
    pre = ''
    if isinstance(v, Big):
        pre, v = 'bigrep-', v.v
    if isinstance(v, bool):
        return 'bool'
    if not isinstance(v, int):
        return 'nonindex'
    if not fits(v):
        return pre + 'huge'
    if abs(v) >= 2 ** 62:
        return pre + 'edge'
    return pre + ('in' if -n <= v < n else 'out')


def part_class(v):
    if v is None:
        return 'none'
    if isinstance(v, Big):
        v = v.v
    if isinstance(v, bool):
        return 'bool'
    if not isinstance(v, int):
        return 'nonindex'
    if not fits(v):
        return 'huge'
    return 'edge' if abs(v) >= 2 ** 62 else 'int'


def slice_class(sl, n, rhs=None):
    a, b, c = sl.a
    pc = [part_class(x) for x in (a, b, c)]
    cv = c.v if isinstance(c, Big) else c
    if pc[2] in ('none',):
        st = 'none'
    elif pc[2] in ('nonindex', 'huge', 'bool'):
        st = pc[2]
    else:
        cv = int(cv)
        st = 'zero' if cv == 0 else ('1' if cv == 1 else ('pos' if cv > 0 else 'neg'))
        if pc[2] == 'edge':
            st += '-edge'
    if 'nonindex' in pc[:2]:
        bd = 'nonindex'
    elif 'huge' in pc[:2]:
        bd = 'huge'
    else:
        bd = 'plain'
        try:
            s, e, step, idx = m_slice(n, sl)
            if not idx:
                bd = 'reversed' if ((step > 0 and s > e) or (step < 0 and s < e)) else 'empty'
        except MExc:
            pass
        if 'edge' in pc[:2]:
            bd += '+edge'
    if rhs == 'self':
        return 'step=%s|rhs=self|bounds=%s' % (st, bd)
    return 'step=%s|bounds=%s%s' % (st, bd, '' if rhs is None else '|rhs=other')


def case_class(op, args):
    s = args[0] if op != 'rmul' else args[1]
    n = len(elems(s)) if not isinstance(s, (int, Big, float, type(None))) else 0
    if op in ('getindex', 'setindex', 'delindex'):
        return 'idx=' + idx_class(args[1], n)
    if op in ('getslice', 'delslice'):
        return slice_class(args[1], n)
    if op == 'setslice':
        return slice_class(args[1], n, 'self' if args[2] is SELF else 'other')
    if op in ('mul', 'rmul'):
        k = args[1] if op == 'mul' else args[0]
        if k == -2 ** 63 and not isinstance(k, Big):
            return 'count=edge-min'
        return 'count=' + idx_class(k, 1).replace('nonindex', 'NONINDEX').replace('in', 'small').replace('out', 'int').replace('NONINDEX', 'nonindex')
    if op == 'add':
        return 'same-type' if type(args[0]) is type(args[1]) else 'mixed-type'
    if op == 'contains':
        return 'needle=' + type(args[1].v if isinstance(args[1], Big) else args[1]).__name__
    if op in ('eq', 'ne', 'lt', 'le', 'gt', 'ge'):
        return 'same-type' if type(args[0]) is type(args[1]) else 'mixed-type'
    return '-'


class SigBase:
    """signature = C13|<area>|<class of the index/slice/operand>|<deviation>|type=<T>|<api/src>   (area = 'huge-index' when a member of the
    index/slice lies outside the signed 64-bit range, else <type family>.<operation>), so that one known finding can name an area + class prefix."""

    def __init__(self, head, tail):
        self.head, self.tail = head, tail

    def __add__(self, dev):
        return self.head + dev + self.tail


def sigbase(T, op, cls, mode):
    opn = 'mul' if op == 'rmul' else op
    if 'huge' in cls:
        return SigBase('C13|huge-index|', '|op=%s|%s|type=%s|%s' % (opn, cls, T, mode))
    if opn == 'mul' and mode == 'src' and cls == 'count=edge-min':
        cls = 'count=bigrep-edge-min'  # the literal -9223372036854775808 is -(2**63): gpython's compiler leaves it in the BigInt representation
    if 'bigrep' in cls and opn == 'mul':
        return SigBase('C13|bigrep-count|', '|op=%s|%s|type=%s|%s' % (opn, cls, T, mode))
    return SigBase('C13|%s.%s|%s|' % (fam(T), opn, cls), '|type=%s|%s' % (T, mode))


def opfam(op):
    return 'order' if op in ('lt', 'le', 'gt', 'ge') else ('mul' if op == 'rmul' else op)


APIOP = {'getindex': 'getitem', 'getslice': 'getitem', 'setindex': 'setitem', 'setslice': 'setitem', 'delindex': 'delitem', 'delslice': 'delitem',
         'rmul': 'mul'}
MUTATING = ('setindex', 'setslice', 'delindex', 'delslice')


# ------------------------------------------------------------------------------------------------
# source rendering (one operation per program; ints and ASCII only on stdout)

def lit(v):
    if isinstance(v, Big):
        return lit(v.v)
    if v is None:
        return 'None'
    if isinstance(v, bool):
        return 'True' if v else 'False'
    if isinstance(v, int):
        return '(%d)' % v if v < 0 else '%d' % v
    if isinstance(v, float):
        return repr(v)
    if isinstance(v, str):
        return "'" + ''.join(c if ' ' <= c <= '~' and c not in "\\'" else '\\U%08x' % ord(c) for c in v) + "'"
    if isinstance(v, bytes):
        return "b'" + ''.join('\\x%02x' % b for b in v) + "'"
    if isinstance(v, list):
        return '[' + ', '.join(lit(x) for x in v) + ']'
    if isinstance(v, tuple):
        return '(' + ''.join(lit(x) + ', ' for x in v) + ')'
    if isinstance(v, range):
        return 'range(%s, %s, %s)' % (lit(v.start), lit(v.stop), lit(v.step))
    raise AssertionError(v)


def sub(k):
    if isinstance(k, Sl):
        a, b, c = k.a
        txt = ('' if a is None else lit(a)) + ':' + ('' if b is None else lit(b))
        if c is not None:
            txt += ':' + lit(c)
        return txt
    return lit(k)


EXCS = ['IndexError', 'ValueError', 'TypeError', 'OverflowError']
SHOW = ('def show(r):\n'
        '    if isinstance(r, str):\n'
        '        print("str")\n'
        '        for x in r:\n'
        '            print(ord(x))\n'
        '    elif isinstance(r, int):\n'
        '        print("int")\n'
        '        print(r)\n'
        '    else:\n'
        '        print("seq")\n'
        '        for x in r:\n'
        '            print(x)\n'
        '    print("end")\n')


def render(op, args):
    s = args[0]
    pre = SHOW + 's = %s\n' % lit(s)
    if op == 'len':
        body = 'show(len(s))'
    elif op == 'iterlist':
        body = 'show(s)'
    elif op in ('getindex', 'getslice'):
        body = 'show(s[%s])' % sub(args[1])
    elif op == 'setindex':
        body = 's[%s] = %s\n    show(s)' % (sub(args[1]), lit(args[2]))
    elif op == 'setslice':
        body = 's[%s] = %s\n    show(s)' % (sub(args[1]), 's' if args[2] is SELF else lit(args[2]))
    elif op in ('delindex', 'delslice'):
        body = 'del s[%s]\n    show(s)' % sub(args[1])
    elif op == 'add':
        body = 'show(s + %s)' % lit(args[1])
    elif op == 'mul':
        body = 'show(s * %s)' % lit(args[1])
    elif op == 'rmul':
        pre = SHOW + 's = %s\n' % lit(args[1])
        body = 'show(%s * s)' % lit(args[0])
    elif op == 'contains':
        body = 'show(1 if %s in s else 0)' % lit(args[1])
    else:
        sym = {'eq': '==', 'ne': '!=', 'lt': '<', 'le': '<=', 'gt': '>', 'ge': '>='}[op]
        body = 'show(1 if s %s %s else 0)' % (sym, lit(args[1]))
    src = pre + 'try:\n    ' + body + '\n' + ''.join('except %s:\n    print("%s")\n' % (e, e) for e in EXCS)
    # also make sure the operand survived a non-mutating operation
    if op not in MUTATING and op != 'rmul' and not isinstance(s, (range, bytes)):
        src += 'show(s)\n'
    return src


def show_lines(c):
    """Expected stdout lines of show(value) for a canonical value."""
    t = c[0]
    if t == 'str':
        return ['str'] + [str(x) for x in c[1]] + ['end']
    if t in ('int', 'bool'):
        return ['int', str(int(c[1])), 'end']
    if t in ('list', 'tuple'):
        return ['seq'] + [str(x[1]) for x in c[1]] + ['end']
    if t == 'bytes':
        return ['seq'] + [str(b) for b in bytes.fromhex(c[1])] + ['end']
    raise AssertionError(c)


def expected_out(op, args, exp):
    if exp[0] == 'exc':
        lines = [exp[1]]
    elif exp[0] == 'relems':
        lines = ['seq'] + [str(x) for x in exp[1]] + ['end']
    else:
        lines = show_lines(exp[1])
    if op not in MUTATING and op != 'rmul' and not isinstance(args[0], (range, bytes)):
        lines += show_lines(canon(args[0]))
    return '\n'.join(lines) + '\n'


# ------------------------------------------------------------------------------------------------

def gen_cases(tier, r, types=None, lengths=None, extras=True):
    """list of (T, op, args, flags) for the given sequence types x lengths (default: all); extras = the range-pair,
    and random-tail parts, which do not depend on (type, length)"""
    L = lattice(tier)
    ints = [v for v in L if v is not None]
    small = [None, -7, -2, -1, 0, 1, 2, 6]
    rhs_lists = [[], [90], [90, 91], [90, 91, 92]]
    out = []

    def add(T, op, args, **flags):
        out.append((T, op, args, flags))
    for T in (TYPES if types is None else types):
        for n in (range(0, 7) if lengths is None else lengths):
            s = mkseq(T, n)
            islist = T == 'list'
            add(T, 'len', [s])
            add(T, 'iterlist', [s], alias=True)
            # --- single index
            idxs = list(ints) + [Big(v) for v in ints if fits(v)] + [True, False, 1.0, '1', None, 0.0]
            for i in idxs:
                add(T, 'getindex', [s, i])
                if islist:
                    add(T, 'setindex', [s, i, 99])
                    add(T, 'delindex', [s, i])
            # --- slices: full lattice cube
            cube = itertools.product(L, L, L)
            if tier == 'quick' and T in ('stru', 'range3', 'rangeneg', 'bytes') and n not in (0, 2, 5):
                cube = []
            for a, b, c in cube:
                bigify = r.random() < 0.06
                if bigify:
                    a, b, c = [Big(x) if (x is not None and fits(x) and r.random() < 0.7) else x for x in (a, b, c)]
                sl = Sl(a, b, c)
                add(T, 'getslice', [s, sl], alias=islist, iter=fam(T) == 'range')
                if islist:
                    add(T, 'delslice', [s, sl])
                    if tier == 'quick':
                        # the length that fits the slice (if <= 3), one other length, and the list itself for a third of the slices
                        try:
                            k = len(m_slice(n, sl)[3])
                        except MExc:
                            k = 0
                        ks = {min(k, 3), r.randrange(4)}
                        for k in sorted(ks):
                            add(T, 'setslice', [s, sl, rhs_lists[k]])
                        if r.random() < 0.34:
                            add(T, 'setslice', [s, sl, SELF])
                    else:
                        for rhs in rhs_lists:
                            add(T, 'setslice', [s, sl, rhs])
                        add(T, 'setslice', [s, sl, SELF])
            # --- slices with bool / forced-big / non-index members
            for a, b, c in itertools.product(small, small, [None, -2, -1, 1, 2]):
                sl = Sl(*[Big(x) if x is not None else None for x in (a, b, c)])
                add(T, 'getslice', [s, sl], alias=islist, iter=fam(T) == 'range')
                if islist and n in (0, 3, 6):
                    add(T, 'delslice', [s, sl])
                    add(T, 'setslice', [s, sl, [90, 91]])
            for sl in (Sl(False, True, None), Sl(True, None, None), Sl(None, None, True), Sl(None, True, True), Sl(1.0, None, None), Sl(None, 2.0, None),
                       Sl(None, None, 1.0), Sl('0', None, None), Sl(None, None, '1'), Sl(None, 1.5, None)):
                add(T, 'getslice', [s, sl], iter=fam(T) == 'range')
                if islist:
                    add(T, 'delslice', [s, sl])
                    add(T, 'setslice', [s, sl, [90]])
            if islist:
                # other iterables on the right-hand side
                for sl in (Sl(1, 3, None), Sl(None, None, 2), Sl(None, None, -1), Sl(2, 2, None), Sl(4, 1, None)):
                    for rhs in ((90, 91), 'xy', range(2), b'AB', (), range(3), 'xyz'):
                        add(T, 'setslice', [s, sl, rhs])
            # --- concatenation
            for m in range(0, 4):
                for T2 in ([T] if n not in (2, 5) else TYPES):
                    if fam(T2) == fam(T) and T2 != T and fam(T) != 'str':
                        continue
                    add(T, 'add', [s, mkseq(T2, m)], alias=islist)
            # --- repetition (huge counts only where the result is small)
            counts = [-2 ** 63, -3, -1, 0, 1, 2, 3, True, False, Big(2), Big(-1), 2.0, '2', None]
            if n == 0 and T in ('list', 'tuple', 'bytes'):
                counts += [2 ** 63 - 1, 2 ** 62]
            for k in counts:
                add(T, 'mul', [s, k], alias=islist)
                add(T, 'rmul', [k, s], alias=islist)
            # --- membership
            es = elems(s)
            if fam(T) == 'str':
                needles = ['', 'zz', 5, None] + ([es[0], es[-1], ''.join(es[-2:]), ''.join(es), ''.join(es) + 'q', es[0] + es[-1]] if es else [])
            elif T == 'bytes':
                needles = [0, 200, 256, -1, b'', b'zz', 'A', True, Big(65)] + ([es[0], es[-1], bytes(es[-2:]), bytes(es)] if es else [])
            else:
                needles = [99, -1, 'x', None, True, Big(10), Big(0), 10.0] + ([es[0], es[-1], Big(es[-1])] if es else [])
            for x in needles:
                add(T, 'contains', [s, x])
            # --- equality and ordering
            if fam(T) != 'range':
                others = [mkseq(T, n), mkseq(T, max(0, n - 1)), mkseq(T, min(6, n + 1))]
                if es:
                    e = es[-1]
                    up = chr(ord(e) + 1) if isinstance(e, str) else e + 1
                    dn = chr(ord(e) - 1) if isinstance(e, str) else e - 1
                    others += [rebuild(s, es[:-1] + [up]), rebuild(s, es[:-1] + [dn]), rebuild(s, [up] + es[1:]), rebuild(s, es[:-1] + [up] + es[-1:])]
                others += [mkseq('tuple' if T == 'list' else 'list', n), mkseq('bytes' if fam(T) == 'str' else 'str', n)]
                if T == 'stru':
                    others += ['a\u00ff', 'a\uffff', 'a\U00010000', '\uffffa', '\U0001f600']
                for t in others:
                    for op in ('eq', 'ne', 'lt', 'le', 'gt', 'ge'):
                        add(T, op, [s, t])
    if not extras:
        return out
    # ranges compare as sequences
    rs = [range(0), range(5, 5), range(3, 0), range(1), range(0, 1, 5), range(0, 1, 7), range(2), range(0, 2, 1), range(0, 3, 2), range(0, 4, 2), range(0, 4, 3),
          range(1, 3), range(3), range(0, 3, 1), range(2, -1, -1), range(2, 0, -1), range(0, -3, -1), range(0, 6, 2), range(0, 5, 2), range(1, 6, 2), range(4, -2, -2),
          range(0, 2 ** 62, 2 ** 61), range(0, 2 ** 62 + 1, 2 ** 61), range(-2 ** 62, 2 ** 62, 2 ** 62)]
    for x in rs:
        for y in rs:
            for op in ('eq', 'ne', 'lt'):
                add('range', op, [x, y])
        add('range', 'len', [x])
        add('range', 'iterlist', [x])
        for i in (0, 1, 2, -1, -2, 3, -3):
            add('range', 'getindex', [x, i])
        for sl in (Sl(None, None, -1), Sl(1, None, None), Sl(None, -1, None), Sl(None, None, 2), Sl(-1, None, -2), Sl(5, 0, -1), Sl(None, None, 2 ** 63 - 1), Sl(None, None, -2 ** 63)):
            add('range', 'getslice', [x, sl], iter=True)
        for e in (0, 1, 2, 3, 4, 5, -1, 2 ** 61, 2 ** 62):
            add('range', 'contains', [x, e])
    # a random tail with longer sequences
    ntail = 2000 if tier == 'quick' else 40000
    pick = [None, 0, 1, 2, 3, -1, -2, -3]
    for _ in range(ntail):
        T = r.choice(TYPES)
        n = r.randrange(7, 40)
        s = mkseq(T, n) if T not in ('str', 'stru') else ''.join(r.choice('abcxyz' + (USTR if T == 'stru' else '')) for _ in range(n))
        if T == 'bytes':
            s = bytes(r.randrange(256) for _ in range(n))

        def rv():
            k = r.random()
            if k < 0.2:
                return None
            if k < 0.8:
                return r.randrange(-n - 3, n + 4)
            return r.choice([2 ** 63 - 1, -2 ** 63, 2 ** 64, -2 ** 64, n, -n, n - 1, -n - 1])
        st = r.choice([None, 1, -1, 2, -2, 3, -3, 5, -7, n, -n, rv()])
        sl = Sl(rv(), rv(), st)
        k = r.random()
        if T == 'list' and k < 0.3:
            add(T, 'delslice', [s, sl])
        elif T == 'list' and k < 0.6:
            m = r.randrange(0, 6)
            try:
                if st not in (None, 1) and r.random() < 0.7:
                    m = len(m_slice(n, sl)[3])
            except MExc:
                pass
            add(T, 'setslice', [s, sl, [90 + i for i in range(m)] if r.random() < 0.9 else SELF])
        elif k < 0.9:
            add(T, 'getslice', [s, sl], alias=T == 'list', iter=fam(T) == 'range')
        else:
            add(T, 'getindex', [s, rv() or 0])
    return out


def probe_cases():
    """Most trivial instance of every (type family, op family) that may legitimately be unimplemented."""
    out = {}
    for (tf, of) in sorted(UNSUPPORTED_OK):
        s = mkseq(tf, 2)
        if of == 'getindex':
            out[(tf, of)] = ('getindex', [s, 0])
        elif of == 'getslice':
            out[(tf, of)] = ('getslice', [s, Sl(None, None, None)])
        elif of == 'len':
            out[(tf, of)] = ('len', [s])
        elif of == 'mul':
            out[(tf, of)] = ('mul', [s, 1])
        elif of == 'order':
            out[(tf, of)] = ('lt', [s, s])
    return out


def api_case(cid, op, args, flags):
    c = {'id': cid, 'op': APIOP.get(op, op), 'args': [({'ref': 0} if a is SELF else enc(a)) for a in args]}
    if flags.get('alias'):
        c['alias'] = True
    if flags.get('iter'):
        c['iter'] = True
    if flags.get('build'):
        c['build'] = flags['build']
    if flags.get('twice'):
        c['twice'] = True
    return c


CANARY = [
    ('s = [10, 11, 12]\nprint(s[1])\nprint(len(s))\n', '11\n3\n'),
    ('s = "abc"\nfor x in s:\n    print(ord(x))\n', '97\n98\n99\n'),
    ('try:\n    print([1][5])\nexcept IndexError:\n    print("IndexError")\n', 'IndexError\n'),
    ('s = [1, 2, 3]\ns[0] = 7\ndel s[1]\nfor x in s:\n    print(x)\n', '7\n3\n'),
    ('print(1 if 2 in (1, 2) else 0)\nprint(1 if isinstance("a", str) else 0)\nprint(1 if isinstance(3, int) else 0)\n', '1\n1\n1\n'),
    (SHOW + 'show([1, 2])\nshow("ab")\nshow(5)\nshow(range(2))\nshow((3,))\n', 'seq\n1\n2\nend\nstr\n97\n98\nend\nint\n5\nend\nseq\n0\n1\nend\nseq\n3\nend\n'),
]


# membership asked of an ITERATOR over a sequence (after k items were taken): it consumes the iterator up to the match - it is not answered from the sequence behind it
ITER_MEMBERSHIP_PROG = 'def chk(name, mk, needles):\n    for k in (0, 1, 2):\n        for nd in needles:\n            it = iter(mk())\n            try:\n                for j in range(k):\n                    next(it)\n            except StopIteration:\n                pass\n            try:\n                r = nd in it\n            except TypeError:\n                r = "TypeError"\n            print(name, k, nd, r, list(it))\nchk("range10", lambda: range(10), [0, 3, 9, 10, -1])\nchk("range-step", lambda: range(0, 10, 2), [0, 4, 5, 8])\nchk("range-neg", lambda: range(5, 0, -1), [5, 3, 0])\nchk("range-empty", lambda: range(0), [0])\nchk("list", lambda: [10, 11, 12, 13], [10, 12, 99])\nchk("tuple", lambda: (10, 11, 12, 13), [10, 12, 99])\nchk("str", lambda: "abcd", ["a", "c", "z"])\nchk("enumerate", lambda: enumerate("ab"), [(0, "a"), (1, "b"), (2, "c")])\nchk("zip", lambda: zip("ab", "cd"), [("a", "c"), ("b", "d"), ("x", "y")])\nchk("map", lambda: map(str, [1, 2, 3]), ["1", "3", "9"])\nchk("gen", lambda: (x * x for x in range(5)), [0, 4, 5, 16])\nit = iter(range(5))\nprint(3 in it, 3 in it, list(it))\nit = iter([1, 2, 3, 4])\nprint(2 in it, 1 in it, list(it))\n'


def directed_program_check(rep, nontriv):
    case = {'id': 'membership-of-iterator', 'src': ITER_MEMBERSHIP_PROG}
    e = common.oracle_exec([case]).get(case['id']) or {}
    g = (run_vrun('exec', [case], timeout_case=30)[0]).get(case['id'])
    if g is None or e.get('oracle_failed') or e.get('exc') or e.get('cerr'):
        rep.inconc('membership-of-iterator program: no result / oracle failed')
        return 0
    el, gl = (e.get('out') or '').split('\n')[:-1], (g.get('out') or '').split('\n')
    for k, x in enumerate(el):
        rep.evaluations += 1
        nontriv.add(('membership-of-iterator', k))
        y = gl[k] if k < len(gl) else None
        if x != y:
            rep.violation('C13|membership-of-iterator|%s|%s' % (x.split(' ')[0], 'panic' if g.get('panic') or g.get('crash') else ('escaped:%s' % g.get('exc') if y is None and g.get('exc') else 'wrong-result')),
                          {'case': case, 'expected': x, 'got': y, 'exc': g.get('exc'), 'excmsg': g.get('excmsg'), 'panic': g.get('panic')})
            break
    return len(el)


def run(tier, rep):
    import time, gc
    gc.disable()  # millions of small acyclic objects; the collector only costs time here
    tstart = time.time()
    r = rng(PID)
    # ---------------- canary ----------------
    can = [{'id': 'k%d' % i, 'src': s} for i, (s, _) in enumerate(CANARY)]
    cres, _ = run_vrun('exec', can, workers=2)
    cor = common.oracle_exec(can, workers=2)
    for c, (_, want) in zip(can, CANARY):
        g = cres.get(c['id'], {})
        if g.get('out') != want or cor.get(c['id'], {}).get('out') != want or g.get('exc') or g.get('panic'):
            rep.broke('canary %s failed: gpython=%s cpython=%s' % (c['id'], short(g), short(cor.get(c['id']))))
            return
    apican = [api_case('k0', 'getindex', [[10, 11, 12], 1], {}), api_case('k1', 'len', [(1, 2)], {}), api_case('k2', 'getslice', ['abc', Sl(1, None, None)], {})]
    ares, _ = run_vrun('api', apican, workers=1)
    want = [canon(11), canon(2), canon('bc')]
    for c, w in zip(apican, want):
        if outcome(ares.get(c['id'])) != ('val', w):
            rep.broke('api canary %s failed: %s' % (c['id'], short(ares.get(c['id']))))
            return
    # ---------------- feature probe ----------------
    probes = probe_cases()
    pc = [api_case('p%d' % i, op, args, {}) for i, (k, (op, args)) in enumerate(sorted(probes.items()))]
    pres, _ = run_vrun('api', pc, workers=1)
    unsupported = set()
    for c, k in zip(pc, sorted(probes)):
        o = outcome(pres.get(c['id']))
        if o[0] == 'exc' and o[1] in ('TypeError', 'AttributeError'):
            unsupported.add(k)
    # ---------------- cases ----------------
    import time
    t0 = time.time()
    tm = rep.extra.setdefault('timing_s', {})
    tm['canary_and_probe'] = round(t0 - tstart, 1)
    # quick: one group. thorough: one group per (type, length) so that memory stays bounded (~150k cases per group).
    groups = [(None, None, True)] if tier == 'quick' else [([], [], True)] + [([T], [n], False) for T in TYPES for n in range(0, 7)]
    nsrc = 6000 if tier == 'quick' else 90000
    disagree = 0
    skipped_unsupported = 0
    napi = 0
    nontriv = set()
    feat_clean = {}
    samples = []
    progs, pinfo = [], {}
    for gi, (gtypes, glens, gextras) in enumerate(groups):
        raw = gen_cases(tier, r, gtypes, glens, gextras)
        # the same list operand with another construction history: the backing array of a list that was built by append() or
        # shortened by del has spare capacity, which an in-place operation may wrongly reuse
        hist = []
        for hi, (T, op, args, flags) in enumerate(raw):
            if T != 'list' or op not in ('setslice', 'delslice', 'setindex', 'delindex', 'add', 'mul', 'getslice'):
                continue
            if tier == 'quick' and not (op == 'setslice' and (len(args[1].a) < 3 or args[1].a[2] in (None, 1))) and hi % 8:
                continue
            for b in (('append', 'shrunk') if tier != 'quick' or op == 'setslice' else (('append', 'shrunk')[(hi // 8) % 2],)):
                hist.append((T, op, args, dict(flags, build=b)))
        raw += hist
        # immutable operands (and lists) with another history too: the leading slice of a longer parent, a value built from an iterator; the
        # operation is run a second time with another right operand and the FIRST result is read again (results must not share storage)
        hist2 = []
        for hi, (T, op, args, flags) in enumerate(raw):
            if T not in ('tuple', 'bytes', 'list', 'str', 'stru') or op not in ('add', 'mul', 'getslice', 'eq', 'contains') or flags.get('build'):
                continue
            if tier == 'quick' and op == 'getslice' and hi % 16:
                continue
            for b in ('sliced', 'grown'):
                hist2.append((T, op, args, dict(flags, build=b, twice=op in ('add', 'mul'))))
        raw += hist2
        cases, info = [], {}
        for (T, op, args, flags) in raw:
            tf = fam(T)
            if (tf, opfam(op)) in unsupported:
                skipped_unsupported += 1
                continue
            m = model(op, args)
            c = cpy(op, args)
            if m != c:
                disagree += 1
                if disagree <= 5:
                    rep.extra.setdefault('oracle_disagreement_samples', []).append({'type': T, 'op': op, 'args': short(args), 'model': short(m), 'cpython': short(c)})
                continue
            cid = 'a%d_%d' % (gi, len(cases))
            cases.append(api_case(cid, op, args, flags))
            info[cid] = (T, op, args, flags, m)
        del raw
        if not cases:
            continue
        napi += len(cases)
        res, _ = run_vrun('api', cases, timeout_case=20)
        for c in cases:
            cid = c['id']
            T, op, args, flags, exp = info[cid]
            g = res.get(cid)
            o = outcome(g)
            cls = case_class(op, args)
            base = sigbase(T, op, cls, 'api' if not flags.get('build') else 'api+built-by-' + flags['build'])
            witness = {'case': c, 'vrun_mode': 'api', 'type': T, 'op': op, 'operands': short(args), 'expected': short(exp if exp[0] != 'val' else ('val', show(exp[1]))),
                       'got': short(o if o[0] != 'val' else ('val', show(o[1])))}
            if o[0] in ('none', 'timeout'):
                rep.inconc('%s: %s %s %s' % (o[0], T, op, short(args, 80)))
                continue
            rep.evaluations += 1
            key = (T, op, cls)
            nontriv.add(hash((T, op, repr(args), flags.get('build'))))
            bad = judge_one(rep, base, witness, g, o, exp, op, args, flags)
            fc = feat_clean.setdefault(key, [0, 0])
            fc[1 if bad else 0] += 1
            if not bad and len(samples) < 6 and op in ('getslice', 'setslice', 'delslice') and r.random() < 0.0002:
                samples.append({'type': T, 'op': op, 'operands': short(args), 'result': witness['got']})
        # source candidates of this group, stratified: every (type, op, class) gets cases, the rest is filled at random
        quota = max(50, nsrc // len(groups))
        bykey = {}
        for cid in info:
            if srcable(info[cid]):
                T, op, args, flags, exp = info[cid]
                bykey.setdefault((T, op, case_class(op, args)), []).append(cid)
        chosen = []
        per = max(3, quota // max(1, len(bykey)) // 2)
        for k in sorted(bykey):
            lst = bykey[k]
            r.shuffle(lst)
            chosen += lst[:per]
        rest = [cid for k in sorted(bykey) for cid in bykey[k][per:]]
        r.shuffle(rest)
        chosen += rest[:max(0, quota - len(chosen))]
        for cid in chosen:
            T, op, args, flags, exp = info[cid]
            pr = {'id': 's' + cid, 'src': render(op, args)}
            progs.append(pr)
            pinfo[pr['id']] = (T, op, args, expected_out(op, args, exp))
        del cases, info, res
    rep.extra['oracle_disagreement'] = disagree
    rep.extra['skipped_unsupported_cases'] = skipped_unsupported
    rep.extra['unsupported_feature_pairs'] = sorted('%s.%s' % k for k in unsupported)
    tm['api_done'] = round(time.time() - t0, 1)
    rep.extra['api_cases'] = napi
    rep.extra['groups'] = len(groups)
    rep.extra['feature_classes'] = len(feat_clean)
    rep.extra['feature_classes_without_a_clean_case'] = sorted('%s|%s|%s' % k for k, v in feat_clean.items() if v[0] == 0)[:60]
    # ---------------- hang candidate (documented in FINDINGS): '' * huge ----------------
    if ('str', 'mul') not in unsupported:
        hc = [api_case('h0', 'mul', ['', 2 ** 62], {})]
        hres, _ = run_vrun('api', hc, workers=1, timeout_case=5)
        o = outcome(hres.get('h0'))
        rep.evaluations += 1
        if o[0] in ('none', 'timeout'):
            rep.inconc("timeout: '' * 2**62 did not return within 5 s (CPython: '' immediately)")
        elif o != ('val', canon('')):
            rep.violation('C13|api|type=str|op=mul|count=huge-empty|wrong', {'case': hc[0], 'vrun_mode': 'api', 'got': short(o)})
    # ---------------- compiled-source variant ----------------
    tm['hang_probe'] = round(time.time() - t0, 1)
    por = common.oracle_exec(progs)
    tm['src_oracle'] = round(time.time() - t0, 1)
    pres, _ = run_vrun('exec', progs, timeout_case=20)
    tm['src_vrun'] = round(time.time() - t0, 1)
    src_dis = 0
    for p in progs:
        T, op, args, want = pinfo[p['id']]
        o = por.get(p['id'], {})
        if o.get('out') != want or o.get('exc') or o.get('cerr'):
            src_dis += 1
            if src_dis <= 3:
                rep.extra.setdefault('oracle_disagreement_samples', []).append({'src': p['src'][-200:], 'model_out': want, 'cpython': short(o)})
            continue
        g = pres.get(p['id'])
        cls = case_class(op, args)
        base = sigbase(T, op, cls, 'src')
        if g is None or g.get('timeout') or g.get('wall_timeout'):
            rep.inconc('source program %s: no result: %s' % (p['id'], short(p['src'][len(SHOW):], 200)))
            continue
        rep.evaluations += 1
        nontriv.add(hash(('src', T, op, repr(args))))
        witness = {'case': p, 'vrun_mode': 'exec', 'expected': want, 'got': {k: short(v) for k, v in g.items() if k in ('out', 'exc', 'excmsg', 'cerr', 'panic', 'crash')}}
        if g.get('panic') or g.get('crash') or g.get('harness_panic'):
            rep.violation(base + 'panic', witness)
        elif g.get('cerr'):
            rep.violation(base + 'compile-error', witness)
        elif g.get('exc'):
            rep.violation(base + 'uncaught:%s' % g['exc'], witness)
        elif g.get('out') != want:
            gl, wl = g.get('out', '').split('\n'), want.split('\n')
            kind = 'wrong-value'
            if gl and gl[0] in EXCS and wl[0] not in EXCS:
                kind = 'exc-instead-of-value:' + gl[0]
            elif gl and wl[0] in EXCS and gl[0] not in EXCS:
                kind = 'value-instead-of-exc:' + wl[0]
            elif gl and wl[0] in EXCS and gl[0] in EXCS:
                kind = 'wrong-exc:%s-for-%s' % (gl[0], wl[0])
            rep.violation(base + kind, witness)
    tm['src_judge'] = round(time.time() - t0, 1)
    rep.extra['oracle_disagreement_src'] = src_dis
    rep.extra['source_programs'] = len(progs)
    tm['end'] = round(time.time() - t0, 1)
    directed_program_check(rep, nontriv)
    rep.nontrivial = nontriv
    rep.samples = samples + [{'source_program': progs[0]['src'][len(SHOW):]}] if progs else samples
    rep.rule = ('exhaustive: sequence type in {list, tuple, str (ASCII), str (1-4 byte code points), bytes, range(n), range(5,5+3n,3), range(n-1,-1,-1)} x length 0..6 x '
                '(start, stop, step) in lattice^3 (lattice = %d values: None, small ints around the lengths, +-(2^63-1), +-2^63, +-2^64) x {get slice; for lists also del slice and set slice with '
                'RHS of length 0..3 and RHS = the list itself}; every index of the lattice as Int, forced BigInt, bool, float/str/None for get/set/del item; + (all length pairs, mixed types), '
                '* and reflected * (negative, zero, bool, BigInt, non-int and - for empty operands - huge counts), len, in, ==, !=, <, <=, >, >=, iteration; range equality over %d^2 range pairs; list operands of the mutating operations, + , * and slicing also built by append() and by shortening a longer list (spare capacity); tuple/bytes/str/list operands of +, *, slicing, ==, in also as the leading slice of a longer parent (which must stay intact) and built from an iterator, with + and * run a second time with another right operand and the first result read again; '
                'seeded random tail with lengths 7..39; a stratified sample of the same operations compiled from source, one per program. '
                'distinct non-trivial = distinct (type, operation, index/slice/other operands) tuples judged (api) plus distinct source programs judged' % (len(lattice(tier)), 24))
    rep.assumptions = ['CPython %s in-process and the first-principles model must agree before a case is judged' % '.'.join(map(str, __import__('sys').version_info[:3])),
                       'feature pairs in UNSUPPORTED_OK that raise TypeError on their most trivial instance are missing features, not violations: %s' % sorted(unsupported),
                       'repetition counts outside the signed 64-bit range are not generated (CPython raises OverflowError there by implementation limit)',
                       "'' * 2**62 is run once with a 5 s watchdog; not returning is reported as inconclusive"]


def srcable(rec):
    T, op, args, flags, exp = rec
    # gpython's VM cannot iterate bytes (`for x in b'..'` raises TypeError: a missing feature), so bytes values cannot be
    # printed element-wise; only bytes operations with an int/bool result are compiled from source
    if T == 'bytes' or any(isinstance(a, bytes) for a in args):
        return op in ('contains', 'eq', 'ne', 'lt', 'le', 'gt', 'ge')
    return True


def judge_one(rep, base, witness, g, o, exp, op, args, flags):
    """Compare one api observation with the expectation. Returns True when a deviation was reported."""
    if o[0] == 'panic':
        rep.violation(base + 'panic', witness)
        return True
    if exp[0] == 'exc':
        if o[0] == 'exc':
            if o[1] == exp[1]:
                bad = False
            else:
                rep.violation(base + 'wrong-exc:%s-for-%s' % (o[1], exp[1]), witness)
                bad = True
        else:
            rep.violation(base + 'value-instead-of-exc:%s' % exp[1], witness)
            bad = True
        # operands must be intact after a failed operation as well
        return check_after(rep, base, witness, g, op, args, None) or bad
    if o[0] == 'exc':
        rep.violation(base + 'exc-instead-of-value:%s' % o[1], witness)
        return True
    bad = False
    if op in MUTATING:
        # the value of the operation is None; the list is operand 0 as re-dumped afterwards
        if o[1] != ('none',):
            rep.violation(base + 'wrong-return', witness)
            bad = True
        return check_after(rep, base, witness, g, op, args, exp[1]) or bad
    if exp[0] == 'relems':
        v = o[1]
        items = g.get('iter')
        if v[0] != 'range':
            rep.violation(base + 'wrong-result-type', witness)
            bad = True
        elif items is None or g.get('iter_exc'):
            rep.violation(base + 'iteration-failed', witness)
            bad = True
        else:
            got = tuple(dec(x) for x in items)
            witness['got_elements'] = short([show(x) for x in got])
            if got != tuple(('int', x) for x in exp[1]):
                rep.violation(base + 'wrong-value', witness)
                bad = True
            elif v[4] != len(exp[1]):
                rep.violation(base + 'wrong-len-of-result', witness)
                bad = True
    elif o[1] != exp[1]:
        dev = 'wrong-value'
        if o[1][0] != exp[1][0]:
            dev = 'wrong-result-type'
        elif '"t": "nil"' in str(o[1]):
            dev = 'nil-element'
        rep.violation(base + dev, witness)
        bad = True
    return check_after(rep, base, witness, g, op, args, None) or bad


def check_after(rep, base, witness, g, op, args, mutated):
    """Operands re-dumped after the op must equal what went in (operand 0 of a mutating op must equal `mutated`);
    a list result that is then mutated by the harness must leave every operand intact."""
    bad = False
    if g.get('parent_after') is not None and g.get('parent_after') != g.get('parent_want'):
        witness['parent_after'] = short(g.get('parent_after'))
        rep.violation(base + 'parent-of-sliced-operand-changed', witness)
        return True
    if g.get('first_again') is not None and g.get('first_again') != g.get('first_before'):
        witness['first_result'] = short([g.get('first_before'), g.get('first_again')])
        rep.violation(base + 'earlier-result-changed-by-later-operation', witness)
        return True
    after = g.get('after')
    if after is None:
        return False
    for i, a in enumerate(args):
        if a is SELF:
            continue
        want = canon(a)
        if i == 0 and op in MUTATING:
            if mutated is None:
                pass  # failed mutation: the list must be unchanged (checked below with want)
            else:
                want = mutated
        got = dec(after[i])
        if got != want:
            witness['after'] = short([show(dec(x)) for x in after])
            rep.violation(base + ('wrong-value' if (i == 0 and op in MUTATING and mutated is not None) else 'operand-changed'), witness)
            bad = True
            break
    am = g.get('after_mut')
    if am is not None and not bad:
        for i, a in enumerate(args):
            if am[i] == 'same-object' or dec(am[i]) != canon(a):
                witness['after_mutating_result'] = short(am)
                rep.violation(base + 'result-aliases-operand', witness)
                bad = True
                break
    return bad
