"""C20 - line-at-a-time interactive input is equivalent to running the file.

Monitor: vrun mode `repl` (harness/cmd/vrun/repl.go): a fresh context, repl.New(ctx) with a recording UI; the physical
lines of a generated session are fed one at a time; after every line the mode reports the UI events (SetPrompt/Print),
the prompt in force, the sys.stdout delta, what was written to os.Stderr (tracebacks) and a snapshot of the session
module's globals (ints, strings, bools, None; other values by type name).
Oracles:
 (A) self-reference inside gpython: the same statements, each compiled whole in `single` mode and run one after the
     other in ONE other fresh context (same Go mode, field `ref`) + the generator's knowledge of statement boundaries
     (prompt rule, nothing may happen on a line that cannot complete a statement, everything must have happened on the
     last line of a statement);
 (B) CPython running the same statements in `single` mode with a recording sys.displayhook: decides the echo rule
     (repr echoed, bound to `_`, nothing for None).  (B) is only judged on the echo / `_`; any other disagreement between
     gpython-whole and CPython is counted as oracle_disagreement (it belongs to another property) and ends the session's (B) part.
"""
import json
import common
from common import rng, run_vrun, oracle_exec, short

PID = 'C20'
NORMAL, CONT = '>>> ', '... '

DRIVER = r'''
import sys, io, json, builtins
STMTS = %s
def snap(g):
    out = {}
    d = dict(g)
    if hasattr(builtins, '_') and '_' not in d:
        d['_'] = builtins._
    for k in sorted(d):
        if k[:2] == '__':
            continue
        v = d[k]
        if v is None:
            out[k] = 'n'
        elif isinstance(v, bool):
            out[k] = 'b:' + str(v)
        elif isinstance(v, int):
            out[k] = 'i:' + str(v)
        elif isinstance(v, str):
            out[k] = 's:' + v
        elif isinstance(v, list):
            out[k] = 't:list/' + str(len(v))
        else:
            out[k] = 't:' + type(v).__name__
    return out
def session(stmts):
    g = {'__name__': '__main__'}
    res = []
    echo = []
    def hook(v):
        if v is None:
            return
        builtins._ = None
        echo.append(repr(v))
        builtins._ = v
    old_hook, old_out = sys.displayhook, sys.stdout
    if hasattr(builtins, '_'):
        del builtins._
    sys.displayhook = hook
    try:
        for st in stmts:
            del echo[:]
            buf = io.StringIO()
            sys.stdout = buf
            rec = {}
            try:
                try:
                    code = compile(st, '<stdin>', 'single')
                except SyntaxError as e:
                    rec['cerr'] = type(e).__name__
                except ValueError as e:
                    rec['cerr'] = type(e).__name__
                else:
                    try:
                        exec(code, g)
                    except BaseException as e:
                        rec['exc'] = type(e).__name__
            finally:
                sys.stdout = old_out
            rec['ev'] = list(echo)
            rec['out'] = buf.getvalue()
            rec['g'] = snap(g)
            res.append(rec)
    finally:
        sys.displayhook = old_hook
        sys.stdout = old_out
        if hasattr(builtins, '_'):
            del builtins._
    return res
print(json.dumps(session(STMTS)))
'''


# ------------------------------------------------------------------------------------------------
# statement generator.  A statement is {'lines': [...physical lines incl. the terminating blank...], 'text': source for
# whole compilation, 'tags': set of feature tags, 'kind': primary tag}

class Gen:
    def __init__(self, r):
        self.r = r
        self.funcs = []
        self.classes = []
        self.nf = 0
        self.col0 = False
        self.wsline = False

    # ---- simple statements -------------------------------------------------------------------
    def simple(self, allow_err=True, in_func=False):
        r = self.r
        p = r.random()
        if p < 0.30:
            return r.choice(['n = n + 1', 'n += 2', 's = s + "b"', 't = n * 2', 'a, b = n, s', 'n = n + len(s)', 't = t + 1 if n > 3 else 0']), 'assign'
        if p < 0.50:
            c = ['n', 'n + 1', 's', 's + "x"', 'len(s)', 'n > 2', '(n)', 'n * 3 - 1', '"q" * 2', '_']
            if self.funcs:
                c += ['%s(n)' % f for f in self.funcs[-2:]]
            return r.choice(c), 'expr-value'
        if p < 0.62:
            c = ['None', 'print(n)', 'print(s, n)', 'print("p")']
            return r.choice(c), 'expr-none'
        if p < 0.66:
            return 'pass', 'pass'
        if p < 0.76:
            return r.choice(['n += 1; n', 'n; s', 'print(n); n += 1', 'n += 1; s = s + "c"; n', 'None; n']), 'semicolons'
        if p < 0.88 and allow_err:
            return r.choice(['1 // 0', 'undefined_name', 's + 1', 'raise KeyError("k")', '[1][5]', 'n.nope', 'n += 1; 1 // 0; n += 100', 'print(n); undefined_name']), 'runtime-error'
        return r.choice(['n = n + 3', 'n -= 1', 's = "r"']), 'assign'

    SYNTAX_ERRORS = ['print("unexpected EOF while parsing"))', 'x = "EOF while scanning triple-quoted string literal" +* 2', 'n = = 1', '1 +* 2', ')', 'n s', 'def', 'if', 'print(n))', 'for', 'else:', 'n +* 1', 'a b c', '1 = n', 'n = 1 +', 'n +', 'x = )', 'class', 'import']

    def stmt_simple(self):
        txt, kind = self.simple()
        r = self.r
        tags = {kind}
        if r.random() < 0.15:
            txt += '  # c'
            tags.add('trailing-comment')
        return {'lines': [txt], 'text': txt + '\n', 'tags': tags, 'kind': kind}

    def stmt_syntax_error(self):
        txt = self.r.choice(self.SYNTAX_ERRORS)
        kind = 'syntax-error-eof-like' if txt in ('n = 1 +', 'n +') else 'syntax-error'
        return {'lines': [txt], 'text': txt + '\n', 'tags': {kind}, 'kind': kind}

    def stmt_multiline_simple(self):
        r = self.r
        k = r.randrange(9)
        tags = set()
        if k == 0:
            lines = ['t = [n,', '     2,', '     len(s)]']
            kind = 'bracket'
        elif k == 1:
            lines = ['print(n,', '      s)']
            kind = 'bracket'
        elif k == 2:
            lines = ['(n +', ' 1)']
            kind = 'bracket-expr-value'
        elif k == 3:
            lines = ['d = {"a": n,', '', '     "b": 2}'] if r.random() < 0.5 else ['t = (n,', '     # inner comment', '     3)']
            kind = 'bracket-blank-or-comment-inside'
        elif k == 4:
            q = r.choice(["'''", '"""'])
            lines = ['s = ' + q + 'a', 'b' + q]
            kind = 'triple-quoted'
        elif k == 5:
            q = r.choice(["'''", '"""'])
            lines = ['s = ' + q + 'a', '', 'b', '', 'c' + q]
            kind = 'triple-quoted-blank-inside'
        elif k == 6:
            # also splits whose first physical line would be a complete statement without the backslash
            lines = r.choice([['n = n + \\', '    5'], ['n = n \\', '    + 5'], ['t = n \\', '* 2 \\', '+ 1'], ['s = s \\', '+ "k"'], ['n \\', '+ 1'], ['print(n) \\', '; n += 1'], ['n += 1 \\', '  ; t = 5']])
            kind = 'backslash'
        elif k == 7:
            q = r.choice(["'''", '"""'])
            lines = ['len(' + q + 'a', '', 'bc' + q + ')']
            kind = 'triple-quoted-expr-value'
        else:
            lines = ['n = (n +', '     1); s = s + "m"']
            kind = 'bracket'
        tags.add(kind)
        return {'lines': lines + [''], 'text': '\n'.join(lines) + '\n', 'tags': tags, 'kind': kind}

    # ---- compound statements -----------------------------------------------------------------
    def body(self, depth, ind, in_func=False, allow_err=True, want_echo=True):
        """list of physical lines (already indented) forming a block"""
        r = self.r
        out = []
        for _ in range(r.randrange(1, 3)):
            if depth < 2 and r.random() < 0.25:
                out += self.compound_lines(depth + 1, ind, in_func)[0]
            else:
                txt, kind = self.simple(allow_err=allow_err and r.random() < 0.3, in_func=in_func)
                if in_func and kind in ('assign', 'semicolons'):
                    txt = r.choice(['v = a + 1', 'print(a)', 'a', 'v = 2'])   # no global rebinding inside functions
                out.append(ind + txt + ('  # c' if r.random() < 0.08 else ''))
            if r.random() < 0.1:
                out.append(ind + '# comment line')
            # a physical line of nothing but white space inside a block: ignored (it is not the empty line that ends the statement)
            if r.random() < 0.08:
                out.append(r.choice([ind, '  ', ind + '  ', '\t', ' ']))
                self.wsline = True
            # physical lines that start in column 0 although the block goes on: a comment, the tail of a bracketed expression, the tail of a
            # triple-quoted string.  None of them ends the block.
            if r.random() < 0.10:
                out.append('# comment in column 0')
                self.col0 = True
            # a completely empty physical line inside brackets inside the block: the statement is not over, the block is not over
            if r.random() < 0.07:
                out += r.choice([[ind + 'u = [n,', '', ind + '     2]'], [ind + 'print(n,', '', ind + '      s)'], [ind + 'u = {"a": n,', '', '"b": 2}'], [ind + 'u = (n +', '', '', ind + ' 1)']])
                self.col0 = True
            if r.random() < 0.08:
                out += r.choice([[ind + 'u = [n,', '2]'], [ind + 'u = (n +', '1)'], [ind + 'u = """a', 'b"""'], [ind + "u = '''a", '', "b'''"], [ind + 'print(n,', '# inner', 's)']])
                self.col0 = True
        return out

    def compound_lines(self, depth, ind, in_func=False):
        r = self.r
        k = r.randrange(7 if depth == 0 and not in_func else 5)
        sub = ind + '    '
        tags = set()
        L = []
        if k == 0:
            L.append(ind + 'if n %% %d == 0:' % r.randrange(1, 4))
            L += self.body(depth, sub, in_func)
            for _ in range(r.randrange(0, 3)):
                L.append(ind + 'elif n %% %d == %d:' % (r.randrange(2, 5), r.randrange(0, 2)))
                L += self.body(depth, sub, in_func)
                tags.add('elif')
            if r.random() < 0.6:
                L.append(ind + 'else:')
                L += self.body(depth, sub, in_func)
                tags.add('else')
            kind = 'if'
        elif k == 1:
            v = 'i' if depth == 0 else 'j' if depth == 1 else 'k'
            L.append(ind + 'for %s in range(%d):' % (v, r.randrange(0, 4)))
            L += self.body(depth, sub, in_func)
            if r.random() < 0.3:
                L.append(sub + 'if %s == 1:' % v)
                L.append(sub + '    ' + r.choice(['break', 'continue']))
                tags.add('break-continue')
            if r.random() < 0.4:
                L.append(ind + 'else:')
                L += self.body(depth, sub, in_func)
                tags.add('loop-else')
            kind = 'for'
        elif k == 2:
            w = 'w%d' % depth
            L.append(ind + '%s = 0' % w) if False else None
            L.append(ind + 'while n %% %d != 0:' % r.randrange(2, 5))
            L.append(sub + ('n += 1' if not in_func else 'break'))
            if r.random() < 0.5:
                L.append(sub + r.choice(['print(n)', 'n', 's = s + "w"'] if not in_func else ['pass']))
            if r.random() < 0.4:
                L.append(ind + 'else:')
                L += self.body(depth, sub, in_func, allow_err=False)
                tags.add('loop-else')
            kind = 'while'
        elif k == 3:
            L.append(ind + 'try:')
            L += self.body(depth, sub, in_func)
            if r.random() < 0.5:
                L.append(sub + r.choice(['1 // 0', 'undefined_name', 'raise KeyError("k")']))
                tags.add('raises-in-try')
            handlers = r.sample(['ZeroDivisionError', 'NameError', 'KeyError'], r.randrange(0, 3))
            for h in handlers:
                L.append(ind + 'except %s:' % h)
                L += self.body(depth, sub, in_func, allow_err=False)
                tags.add('except')
            if handlers and r.random() < 0.4:
                L.append(ind + 'else:')
                L += self.body(depth, sub, in_func, allow_err=False)
                tags.add('try-else')
            if not handlers or r.random() < 0.4:
                L.append(ind + 'finally:')
                L += self.body(depth, sub, in_func, allow_err=False)
                tags.add('finally')
            kind = 'try'
        elif k == 4:
            L.append(ind + 'if n > 1: ' + r.choice(['n += 1', 'print(n)', 'n']))
            kind = 'one-line-compound-nested'
        elif k == 5:
            self.nf += 1
            name = 'f%d' % self.nf
            L.append(ind + 'def %s(a):' % name)
            L += self.body(depth, sub, True, allow_err=False)
            L.append(sub + r.choice(['return a + 1', 'return None', 'return "z"', 'pass']))
            self.funcs.append(name)
            kind = 'def'
        else:
            self.nf += 1
            name = 'C%d' % self.nf
            L.append(ind + 'class %s:' % name)
            L.append(sub + 'k = %d' % self.nf)
            L.append(sub + 'def m(self, a):')
            L.append(sub + '    return a + self.k')
            if r.random() < 0.5:
                L.append(sub + 'def __repr__(self):')
                L.append(sub + '    return "R" + str(_ is None)')
                tags.add('repr-reads-underscore')
            self.classes.append((name, 'repr-reads-underscore' in tags))
            kind = 'class'
        L = [x for x in L if x is not None]
        tags.add(kind)
        return L, tags, kind

    def stmt_compound(self):
        self.col0 = False
        self.wsline = False
        L, tags, kind = self.compound_lines(0, '')
        if self.col0:
            tags = tags | {'column-0-line-inside-block'}
        if self.wsline:
            tags = tags | {'whitespace-only-line-inside-block'}
        if len(L) == 1:
            return {'lines': L, 'text': L[0] + '\n', 'tags': tags | {'one-line-compound'}, 'kind': 'one-line-compound'}
        if self.r.random() < 0.06 and '' not in L:
            # (not when a blank line sits inside the statement: the error is then legitimately reported there and the rest is read as new input)
            # a syntax error in the middle of a multi-line statement: reported at the latest on the blank line, nothing executed
            pos = self.r.randrange(1, len(L))
            ind = L[pos][:len(L[pos]) - len(L[pos].lstrip())]
            L = L[:pos] + [ind + 'n = = 1'] + L[pos:]
            tags = tags | {'compound-syntax-error'}
            kind = 'compound-syntax-error'
            if self.funcs and self.funcs[-1] == 'f%d' % self.nf:
                self.funcs.pop()
            if self.classes and self.classes[-1][0] == 'C%d' % self.nf:
                self.classes.pop()
        return {'lines': L + [''], 'text': '\n'.join(L) + '\n\n', 'tags': tags, 'kind': kind}

    def stmt_one_line_compound(self):
        r = self.r
        txt = r.choice(['if n > 0: n += 1', 'for i in range(3): n += i', 'while n % 3 != 0: n += 1', 'if n: n', 'for i in range(2): i', 'if n < 0: n = 0', 'for i in range(2): print(i)'])
        return {'lines': [txt], 'text': txt + '\n', 'tags': {'one-line-compound'}, 'kind': 'one-line-compound'}

    def stmt_use_class(self):
        name, has_repr = self.r.choice(self.classes)
        txt = self.r.choice(['%s().m(n)' % name, 'o = %s()' % name, '%s.k' % name] + (['%s()' % name] if has_repr else []))
        kind = 'echo-user-repr' if txt.endswith('()') and has_repr and not txt.startswith('o =') else 'expr-value'
        return {'lines': [txt], 'text': txt + '\n', 'tags': {kind}, 'kind': kind}

    def session(self):
        r = self.r
        stmts = [{'lines': ['n = %d' % r.randrange(0, 4)], 'text': 'n = %d\n' % 0, 'tags': {'assign'}, 'kind': 'assign'},
                 {'lines': ['s = "a"'], 'text': 's = "a"\n', 'tags': {'assign'}, 'kind': 'assign'},
                 {'lines': ['t = 0'], 'text': 't = 0\n', 'tags': {'assign'}, 'kind': 'assign'}]
        stmts[0]['text'] = stmts[0]['lines'][0] + '\n'
        stmts.append({'lines': ['n + 10'], 'text': 'n + 10\n', 'tags': {'expr-value'}, 'kind': 'expr-value'})   # binds `_` before anything reads it
        for _ in range(r.randrange(5, 12)):
            p = r.random()
            if p < 0.34:
                st = self.stmt_simple()
            elif p < 0.44:
                st = self.stmt_syntax_error()
            elif p < 0.58:
                st = self.stmt_multiline_simple()
            elif p < 0.64:
                st = self.stmt_one_line_compound()
            elif p < 0.70 and self.classes:
                st = self.stmt_use_class()
            else:
                st = self.stmt_compound()
            stmts.append(st)
        # a final probe of the state through the echo
        stmts.append({'lines': ['n'], 'text': 'n\n', 'tags': {'expr-value'}, 'kind': 'expr-value'})
        return stmts


def incomplete_prefix(lines, j):
    """True when lines[0..j] cannot be a complete statement (so the continuation prompt is mandatory)"""
    txt = '\n'.join(lines[:j + 1]) + '\n'
    try:
        import warnings
        with warnings.catch_warnings():
            warnings.simplefilter('ignore')
            compile(txt, '<x>', 'exec', dont_inherit=True)
        return False
    except SyntaxError:
        return True
    except Exception:
        return False


def build_session(cid, r):
    g = Gen(r)
    stmts = g.session()
    lines = []
    owner = []   # per physical line: (statement index or None, is_last_line, must_continue)
    for k, st in enumerate(stmts):
        if k > 4 and r.random() < 0.18:
            filler = r.choice(['', '# a comment', '', '   # indented comment', '   ', '\t', ' \t '])
            lines.append(filler)
            owner.append((None, True, False))
        n = len(st['lines'])
        errst = 'compound-syntax-error' in st['tags']
        for j, l in enumerate(st['lines']):
            last = j == n - 1
            must = (not last) and (not errst) and incomplete_prefix(st['lines'], j)
            lines.append(l)
            owner.append((k, last, must))
    case = {'id': cid, 'lines': lines, 'stmts': [st['text'] for st in stmts]}
    return case, stmts, owner


CANARY_LINES = ['n = 1', 'n', 'print("p", n)', 'None', 'if n:', '    n += 1', '', 'n', '1 // 0', 'n = = 2', 'n']
CANARY_STMTS = ['n = 1\n', 'n\n', 'print("p", n)\n', 'None\n', 'if n:\n    n += 1\n\n', 'n\n', '1 // 0\n', 'n = = 2\n', 'n\n']


def fam(e):
    return 'NameError' if e == 'UnboundLocalError' else (e or None)


def prints(ev):
    return [e[1] for e in ev if e[0] == 'print']


def run(tier, rep):
    quick = tier == 'quick'
    r = rng(PID)
    # ---- canary: the mode works, the reference works, CPython driver works --------------------
    can = {'id': 'can', 'lines': CANARY_LINES, 'stmts': CANARY_STMTS}
    cg, _ = run_vrun('repl', [can], workers=1)
    co = oracle_exec([{'id': 'can', 'src': DRIVER % json.dumps(CANARY_STMTS)}], workers=1)
    g = cg.get('can', {})
    try:
        o = json.loads(co['can']['out'])
    except Exception:
        rep.broke('CPython driver failed on the canary: %s' % short(co.get('can')))
        return
    ok = (len(g.get('lines', [])) == len(CANARY_LINES) and len(g.get('ref', [])) == len(CANARY_STMTS) and not g.get('panic')
          and prints(g['lines'][1]['ev']) == ['1'] and g['lines'][2]['out'] == 'p 1\n' and g['lines'][4]['p'] == CONT and g['lines'][6]['p'] == NORMAL
          and g['lines'][7]['g'].get('n') == 'i:2' and 'ZeroDivisionError' in g['lines'][8]['err'] and prints(g['lines'][9]['ev'])[0].startswith('Compile error')
          and g['ref'][1]['ev'] == [['print', '1']] and g['ref'][6].get('exc') == 'ZeroDivisionError' and g['ref'][7].get('cerr') == 'SyntaxError'
          and o[1]['ev'] == ['1'] and o[6].get('exc') == 'ZeroDivisionError' and o[7].get('cerr') == 'SyntaxError' and o[8]['g'].get('n') == 'i:2')
    if not ok:
        rep.broke('canary session not observed as expected: %s / %s' % (short(g, 1500), short(o, 600)))
        return

    nsess = 5000 if quick else 60000
    cases, meta = [], {}
    for i in range(nsess):
        c, stmts, owner = build_session('s%d' % i, rng(PID, 'sess%d' % i))
        cases.append(c)
        meta[c['id']] = (stmts, owner)
    import concurrent.futures
    ocases = [{'id': c['id'], 'src': DRIVER % json.dumps(c['stmts'])} for c in cases]
    with concurrent.futures.ThreadPoolExecutor(2) as ex:
        fg = ex.submit(run_vrun, 'repl', cases, None, 30)
        fo = ex.submit(oracle_exec, ocases, max(4, common.NCPU // 2))
        got, _ = fg.result()
        exp = fo.result()

    nontriv = set()
    kinds_clean = {}
    n_lines = n_stmts = n_must = n_either = 0
    disagree = {}
    judgedB = 0
    printexpr_leak = 0
    for c in cases:
        cid = c['id']
        stmts, owner = meta[cid]
        g = got.get(cid)
        if g is None or g.get('timeout') or g.get('wall_timeout'):
            rep.inconc('timeout/no result on %s' % cid)
            continue
        rep.evaluations += 1
        wit = {'case': c, 'vrun_mode': 'repl'}
        if g.get('crash') or g.get('harness_panic'):
            rep.violation('C20|session|crash', dict(wit, got=short(g, 2000)))
            continue
        if g.get('panic'):
            k = owner[min(g.get('panic_line', 0), len(owner) - 1)][0]
            kind = stmts[k]['kind'] if k is not None else 'filler'
            rep.violation('C20|%s|panic' % kind, dict(wit, got={'panic': g.get('panic'), 'stack': g.get('stack'), 'line': c['lines'][min(g.get('panic_line', 0), len(c['lines']) - 1)]}))
            continue
        L = g.get('lines', [])
        ref = g.get('ref', [])
        if len(L) != len(c['lines']) or len(ref) != len(stmts) or g.get('ref_panic'):
            rep.violation('C20|session|incomplete-observation', dict(wit, got=short(g, 1500)))
            continue
        if len(set(st['kind'] for st in stmts)) >= 3 and any(len(st['lines']) > 1 for st in stmts):
            nontriv.add(tuple(c['lines']))
        # ---------------- (A) line-at-a-time vs whole statements -------------------------------
        prev_g = {}
        acc = {'pr': [], 'out': '', 'err': ''}
        viol = None
        for i, (k, last, must) in enumerate(owner):
            rec = L[i]
            n_lines += 1
            if rec.get('printexpr_not_restored'):
                printexpr_leak += 1
            if k is None:
                if rec['p'] != NORMAL or prints(rec['ev']) or rec['out'] or rec['err'] or rec['g'] != prev_g:
                    viol = ('filler', 'blank-or-comment-line-had-an-effect', i, None)
                    break
                continue
            st = stmts[k]
            acc['pr'] += prints(rec['ev'])
            acc['out'] += rec['out']
            acc['err'] += rec['err']
            if not last:
                if must:
                    n_must += 1
                    if rec['p'] != CONT:
                        viol = (st['kind'], 'normal-prompt-while-incomplete', i, None)
                        break
                    if acc['pr'] or acc['out'] or acc['err'] or rec['g'] != prev_g:
                        viol = (st['kind'], 'effect-before-statement-complete', i, None)
                        break
                else:
                    n_either += 1
                continue
            n_stmts += 1
            rf = ref[k]
            dev = None
            cerrs = [p for p in acc['pr'] if p.startswith('Compile error')]
            echo = [p for p in acc['pr'] if not p.startswith('Compile error')]
            if rec['p'] != NORMAL:
                dev = 'continuation-prompt-after-statement-end'
            elif rf.get('cerr') and not cerrs:
                dev = 'syntax-error-not-reported'
            elif not rf.get('cerr') and cerrs:
                dev = 'spurious-compile-error'
            elif rf.get('cerr') and rf['cerr'] not in cerrs[0]:
                dev = 'compile-error-type-differs'
            elif echo != prints(rf['ev']):
                dev = 'echo-differs-from-whole-statement'
            elif acc['out'] != rf['out']:
                dev = 'stdout-differs-from-whole-statement'
            elif rf.get('exc') and rf['exc'] not in acc['err']:
                dev = 'runtime-error-not-reported'
            elif not rf.get('exc') and acc['err']:
                dev = 'spurious-traceback'
            elif rec['g'] != rf['g']:
                dev = 'state-differs-from-whole-statement'
            if dev:
                viol = (st['kind'], dev, i, k)
                break
            prev_g = rec['g']
            acc = {'pr': [], 'out': '', 'err': ''}
        if viol:
            kind, dev, i, k = viol
            w = dict(wit, line_index=i, line=c['lines'][i], observed_line=L[i], previous_globals=prev_g)
            if k is not None:
                w['statement'] = stmts[k]['text']
                w['whole_statement_reference'] = ref[k]
                w['accumulated'] = acc
            rep.violation('C20|%s|%s' % (kind, dev), w)
            continue
        for st in stmts:
            for t in st['tags']:
                kinds_clean[t] = kinds_clean.get(t, 0) + 1
        # ---------------- (B) echo rule vs CPython ---------------------------------------------
        o = exp.get(cid)
        try:
            cp = json.loads(o['out'])
            assert len(cp) == len(stmts)
        except Exception:
            rep.inconc('CPython driver problem on %s: %s' % (cid, short(o)))
            continue
        tainted = False      # gpython's `_` currently differs from CPython's because of the recorded None-binding defect
        reported = False
        import re
        for k, st in enumerate(stmts):
            rf, cr = ref[k], cp[k]
            g_wo = {a: b for a, b in rf['g'].items() if a != '_'}
            c_wo = {a: b for a, b in cr['g'].items() if a != '_'}
            if bool(rf.get('cerr')) != bool(cr.get('cerr')) or fam(rf.get('exc')) != fam(cr.get('exc')) or g_wo != c_wo or rf['out'] != cr['out']:
                disagree[st['kind']] = disagree.get(st['kind'], 0) + 1
                break
            uses_us = bool(re.search(r'(?<![A-Za-z0-9_"])_(?![A-Za-z0-9_"])', st['text'])) or st['kind'] == 'echo-user-repr'
            may_none = bool(re.search(r'print\(|None|f\d+\(', st['text']))
            known_w = dict(wit, statement=st['text'], gpython_echo=prints(rf['ev']), cpython_echo=cr['ev'], gpython_underscore=rf['g'].get('_'), cpython_underscore=cr['g'].get('_'))
            if prints(rf['ev']) != cr['ev']:
                if uses_us and (tainted or may_none):
                    if not reported:
                        rep.violation('C20|expr-none-value|underscore-bound-to-None', known_w)
                        reported = True
                    tainted = rf['g'].get('_') != cr['g'].get('_')
                    continue
                rep.violation('C20|%s|echo-rule' % st['kind'], known_w)
                break
            judgedB += 1
            if rf['g'].get('_') != cr['g'].get('_'):
                if rf['g'].get('_') == 'n' and may_none or (tainted and not prints(rf['ev'])) or (tainted and uses_us):
                    if not reported:
                        rep.violation('C20|expr-none-value|underscore-bound-to-None', known_w)
                        reported = True
                    tainted = True
                    continue
                rep.violation('C20|%s|underscore-binding' % st['kind'], known_w)
                break
            tainted = False
    rep.nontrivial = nontriv
    rep.rule = ('seeded sessions of 9..15 statements (simple, expression statements with None / non-None values, semicolon lists, run-time errors, syntax errors, multi-line brackets, '
                'triple-quoted strings with blank lines inside, backslash continuation, if/elif/else, for/while with else, try/except/else/finally, def, class, nested to depth 3, '
                'one-line compounds, comments, blank and white-space-only lines between statements, white-space-only lines inside blocks) fed one physical line at a time with a blank line after each multi-line statement. '
                'distinct non-trivial = distinct line sequences with >=3 statement kinds and >=1 multi-line statement')
    s0 = cases[3]
    rep.samples = [{'lines': s0['lines']}, {'lines': cases[len(cases) // 2]['lines']}]
    rep.extra = {'sessions': len(cases), 'physical_lines': n_lines, 'statements_judged_vs_whole': n_stmts, 'lines_where_continuation_prompt_mandatory': n_must,
                 'lines_where_either_prompt_accepted': n_either, 'statements_judged_vs_cpython_echo': judgedB, 'oracle_disagreement': disagree,
                 'feature_counts_in_clean_sessions': kinds_clean, 'lines_after_which_vm_PrintExpr_was_not_restored': printexpr_leak}
    rep.assumptions = ['a multi-line statement is always followed by one blank line (the protocol named by the property); either prompt is accepted on a non-final line whose prefix is already a complete statement',
                       'tracebacks are observed through os.Stderr (swapped for a scratch file around REPL.Run); only the exception type name is searched in them',
                       'CPython 3.11 `single` mode + sys.displayhook is the reference for the echo rule only; other differences between gpython-whole and CPython are counted as oracle_disagreement']
    if not quick or True:
        need = ['bracket', 'triple-quoted-blank-inside', 'if', 'for', 'while', 'try', 'def', 'class', 'expr-value', 'expr-none', 'runtime-error', 'syntax-error', 'one-line-compound', 'semicolons', 'backslash']
        miss = [k for k in need if not kinds_clean.get(k)]
        if miss:
            rep.broke('statement kinds never seen in a session free of deviations: %s' % miss)
