"""C05 - generators are lazy and resumable; iteration ends only on StopIteration.
Monitor: vrun exec (event trace printed by producers and consumers, exception family); oracle: CPython.

(a) cross product consumer x producer x fault: every consumer of iterables is run on every producer kind; the producer
    logs each step and raises {nothing, KeyError, ZeroDivisionError, a user-defined exception} at position p in 0..n.
    The consumer runs inside try/except clauses that print the exception family; afterwards one more next(it, default)
    shows whether the producer was left exhausted / over-consumed.
(b) generator state machines: several live generators (locals, loops, try/except/finally, yield from chains with
    return values) driven by every interleaving of next()/send(v) of bounded length; every operation prints the
    yielded value, StopIteration (+ its value) or the exception family."""
import itertools, time
import common
from common import rng, run_vrun, oracle_exec, short

PID = 'C05'
N = 3

FAMS = ['KeyError', 'ZeroDivisionError', 'StopIteration', 'ValueError', 'TypeError', 'IndexError', 'RuntimeError', 'AttributeError', 'NameError', 'Exception']

# ---------------------------------------------------------------------------------------------
# (a) consumers x producers x faults

SHAPE_EL = {'int': 'i + 1', 'str': 'K[i]', 'pair': '(K[i], i + 1)'}
SHAPE_PV = {'int': 'def pv(v):\n    print("v", v)\n', 'str': 'def pv(v):\n    print("v", v)\n', 'pair': 'def pv(v):\n    print("v", v[0], v[1])\n'}
SHAPE_DFLT = {'int': '-1', 'str': '"D"', 'pair': '["D", -1]'}     # a list: `tuple is tuple` panics in gpython (reported; not this property)
SHAPE_NOTIN = {'int': '99', 'str': '"zz"', 'pair': '("zz", 0)'}
SHAPE_CAND = {'int': '[1, 2, 3, 4, 5]', 'str': 'K', 'pair': '[]'}

FAULTS = {'none': None, 'KeyError': 'raise KeyError', 'ZeroDivisionError': 'q = 1 // 0', 'user': 'raise UE', 'TypeError': 'raise FE'}

PRELUDE = '''K = ["a", "b", "c", "d", "e", "f"]
DFLT = %(dflt)s
NOTIN = %(notin)s
CAND = %(cand)s
FE = TypeError("producer-fault")
%(ue)sdef el(i):
    return %(el)s
def fault(i):
    if i == %(p)d:
        %(fault)s
%(pv)sdef show(x):
    print("len", len(x))
    i = 0
    while i < len(x):
        pv(x[i])
        i = i + 1
def showset(s):
    print("len", len(s))
    i = 0
    while i < len(CAND):
        if CAND[i] in s:
            pv(CAND[i])
        i = i + 1
def showdict(d):
    print("len", len(d))
    i = 0
    while i < len(K):
        if K[i] in d:
            print("v", K[i], d[K[i]])
        i = i + 1
def drive(z, pf):
    while True:
        try:
            v = next(z)
        except StopIteration:
            print("stop")
            break
        pf(v)
def pz(v):
    pv(v[0])
    print("z", v[1])
def pz2(v):
    print("z", v[0])
    pv(v[1])
def pe(v):
    print("n", v[0])
    pv(v[1])
def idf(v):
    print("f")
    return v
def keep(v):
    print("k")
    return v != el(1)
def f3(*a):
    show(a)
def w0(x):
    yield from x
    print("w", "end")
def wv(x):
    r = yield from x
    print("w", "r", r)
'''

PRODUCERS = {
    # name: (code, shapes, fault positions allowed)
    'gen': ('''def P():
    i = 0
    while i < 3:
        print("p", i)
        fault(i)
        yield el(i)
        i = i + 1
    print("p", "end")
    fault(3)
it = P()
''', ('int', 'str', 'pair'), (0, 1, 2, 3)),
    # iter(callable, sentinel): the callable moves past the sentinel, so an iterator that does not stay exhausted is seen afterwards
    'callable-iter': ('''CNT = [0]
def nxt():
    i = CNT[0]
    print("p", i)
    CNT[0] = i + 1
    fault(i)
    if i == 3:
        print("p", "end")
        return NOTIN
    return el(i % 3)
it = iter(nxt, NOTIN)
''', ('int', 'str'), (0, 1, 2, 3)),
    'genexp': ('''def st(i):
    print("p", i)
    fault(i)
    return el(i)
it = (st(i) for i in [0, 1, 2])
''', ('int', 'str', 'pair'), (0, 1, 2)),
    'iterclass-cls': ('''class P:
    def __init__(self):
        self.i = 0
    def __iter__(self):
        return self
    def __next__(self):
        i = self.i
        print("p", i)
        self.i = i + 1
        fault(i)
        if i >= 3:
            raise StopIteration
        return el(i)
it = P()
''', ('int', 'str', 'pair'), (0, 1, 2, 3)),
    'iterclass-inst': ('''class P:
    def __init__(self):
        self.i = 0
    def __iter__(self):
        return self
    def __next__(self):
        i = self.i
        print("p", i)
        self.i = i + 1
        fault(i)
        if i >= 3:
            raise StopIteration()
        return el(i)
it = P()
''', ('int', 'str', 'pair'), (0, 1, 2, 3)),
    'iterclass-instval': ('''class P:
    def __init__(self):
        self.i = 0
    def __iter__(self):
        return self
    def __next__(self):
        i = self.i
        print("p", i)
        self.i = i + 1
        fault(i)
        if i >= 3:
            raise StopIteration(5)
        return el(i)
it = P()
''', ('int', 'str', 'pair'), (1, 3)),
    # the iterator protocol methods are inherited: found along the MRO of the object's class, not only in the class itself
    'iterclass-inherited': ('''class PB:
    def __init__(self):
        self.i = 0
    def __iter__(self):
        return self
    def __next__(self):
        i = self.i
        print("p", i)
        self.i = i + 1
        fault(i)
        if i >= 3:
            raise StopIteration
        return el(i)
class PM:
    pass
class P(PM, PB):
    pass
it = P()
''', ('int', 'str', 'pair'), (0, 1, 2, 3)),
    'iterable-inherited': ('''class PB:
    def __iter__(self):
        i = 0
        while i < 3:
            print("p", i)
            fault(i)
            yield el(i)
            i = i + 1
        print("p", "end")
        fault(3)
class P(PB):
    pass
it = P()
''', ('int', 'str', 'pair'), (0, 1, 2, 3)),
    'getitem-inherited': ('''class PB:
    def __getitem__(self, i):
        print("p", i)
        fault(i)
        if i >= 3:
            raise IndexError
        return el(i)
class P(PB):
    pass
it = iter(P())
''', ('int', 'str', 'pair'), (0, 1, 2, 3)),
    'listiter': ('it = iter([el(0), el(1), el(2)])\n', ('int', 'str', 'pair'), ()),
    'range': ('it = iter(range(1, 4))\n', ('int',), ()),
    'map': ('''def st(i):
    print("p", i)
    fault(i)
    return el(i)
it = map(st, [0, 1, 2])
''', ('int', 'str', 'pair'), (0, 1, 2)),
    'zip': ('''def G():
    i = 0
    while i < 3:
        print("p", i)
        fault(i)
        yield i + 1
        i = i + 1
    print("p", "end")
    fault(3)
it = zip(K, G())
''', ('pair',), (0, 1, 2, 3)),
    'getitem': ('''class P:
    def __getitem__(self, i):
        print("p", i)
        fault(i)
        if i >= 3:
            raise IndexError
        return el(i)
it = iter(P())
''', ('int', 'str', 'pair'), (0, 1, 2, 3)),
}

ANY = ('int', 'str', 'pair')
CONSUMERS = {
    # name: (code, shapes, mechanism)
    'for': ('for v in it:\n    pv(v)\nelse:\n    print("else")\n', ANY, 'FOR_ITER'),
    'for-break': ('for v in it:\n    pv(v)\n    break\n', ANY, 'FOR_ITER'),
    'listcomp': ('show([v for v in it])\n', ANY, 'FOR_ITER'),
    'setcomp': ('showset({v for v in it})\n', ('int', 'str'), 'FOR_ITER'),
    'dictcomp': ('showdict({v[0]: v[1] for v in it})\n', ('pair',), 'FOR_ITER'),
    'genexp': ('drive((v for v in it), pv)\n', ANY, 'FOR_ITER'),
    'unpack2': ('a, b = it\npv(a)\npv(b)\n', ANY, 'UNPACK'),
    'unpack3': ('a, b, c = it\npv(a)\npv(b)\npv(c)\n', ANY, 'UNPACK'),
    'unpack4': ('a, b, c, d = it\npv(a)\npv(b)\npv(c)\npv(d)\n', ANY, 'UNPACK'),
    'star-tail': ('a, *b = it\npv(a)\nshow(b)\n', ANY, 'UNPACK'),
    'star-head': ('*a, b = it\nshow(a)\npv(b)\n', ANY, 'UNPACK'),
    'star-mid': ('a, *b, c = it\npv(a)\nshow(b)\npv(c)\n', ANY, 'UNPACK'),
    'callstar': ('f3(*it)\n', ANY, 'CALL'),
    'callstar-after-pos': ('f3(el(4), *it)\n', ANY, 'CALL'),
    'list': ('show(list(it))\n', ANY, 'builtin'),
    'tuple': ('show(tuple(it))\n', ANY, 'builtin'),
    'set': ('showset(set(it))\n', ('int', 'str'), 'builtin'),
    'sum': ('print("v", sum(it))\n', ('int',), 'builtin'),
    'min': ('print("v", min(it))\n', ('int', 'str'), 'builtin'),
    'max': ('print("v", max(it))\n', ('int', 'str'), 'builtin'),
    'max-default': ('print("v", max(it, default=el(5)))\n', ('int', 'str'), 'builtin'),
    'min-default': ('print("v", min(it, default=DFLT))\n', ('int', 'str'), 'builtin'),
    'sorted': ('show(sorted(it))\n', ('int', 'str'), 'builtin'),
    'zip-first': ('drive(zip(it, [10, 20, 30, 40]), pz)\n', ANY, 'builtin'),
    'zip-second': ('drive(zip([10, 20], it), pz2)\n', ANY, 'builtin'),
    'map': ('drive(map(idf, it), pv)\n', ANY, 'builtin'),
    'filter': ('drive(filter(keep, it), pv)\n', ANY, 'builtin'),
    'enumerate': ('drive(iter(enumerate(it)), pe)\n', ANY, 'builtin'),
    'any': ('print("v", any(it))\n', ('int', 'str'), 'builtin'),
    'all': ('print("v", all(it))\n', ('int', 'str'), 'builtin'),
    'in-found': ('print("v", el(1) in it)\n', ANY, 'builtin'),
    'in-missing': ('print("v", NOTIN in it)\n', ANY, 'builtin'),
    'join': ('print("v", "-".join(it))\n', ('str',), 'builtin'),
    'yield-from': ('drive(w0(it), pv)\n', ANY, 'YIELD_FROM'),
    'yield-from-value': ('drive(wv(it), pv)\n', ANY, 'YIELD_FROM'),
    'next': ('pv(next(it))\npv(next(it))\npv(next(it))\npv(next(it))\n', ANY, 'builtin'),
    'next-default': ('pv(next(it, DFLT))\npv(next(it, DFLT))\npv(next(it, DFLT))\npv(next(it, DFLT))\npv(next(it, DFLT))\n', ANY, 'builtin'),
    'dict': ('showdict(dict(it))\n', ('pair',), 'builtin'),
    'list.extend': ('l = [el(5)]\nl.extend(it)\nshow(l)\n', ANY, 'builtin'),
}


def chain(ind, user):
    s = ''
    fams = (['UE'] if user else []) + FAMS
    for f in fams:
        s += '%sexcept %s as e:\n%s    print("X", "%s")\n%s    print("I", e is FE)\n' % (ind, f, ind, f, ind)
    s += '%sexcept:\n%s    print("X", "other")\n' % (ind, ind)
    return s


def prog_a(cons, prod, shape, fault, p):
    user = fault == 'user'
    pre = PRELUDE % {'dflt': SHAPE_DFLT[shape], 'notin': SHAPE_NOTIN[shape], 'cand': SHAPE_CAND[shape], 'el': SHAPE_EL[shape], 'pv': SHAPE_PV[shape],
                     'p': p if fault != 'none' else -1, 'fault': FAULTS[fault] or 'pass', 'ue': 'class UE(Exception):\n    pass\n' if user else ''}
    src = pre + PRODUCERS[prod][0]
    src += 'print("begin")\ntry:\n'
    for line in CONSUMERS[cons][0].split('\n')[:-1]:
        src += '    ' + line + '\n'
    src += '    print("X", "ok")\n' + chain('', user)
    src += 'print("after")\ntry:\n    x = next(it, DFLT)\n    if x is DFLT:\n        print("A", "exhausted")\n    else:\n        print("A", "more")\n' + chain('', user)
    return src


def outcome(out, marker='X'):
    """exception family printed by the consumer's wrapper (first X line after begin)"""
    seen = False
    for l in out.split('\n'):
        if l == 'begin':
            seen = True
        elif seen and l.startswith(marker + ' '):
            return l[len(marker) + 1:]
    return 'none'


# ---------------------------------------------------------------------------------------------
# (b) generator state machines

GENS = {
    'acc': '''def g_acc(tag):
    acc = 0
    i = 0
    while i < 2:
        print("E", tag, "y", i, acc)
        x = yield acc + i
        print("E", tag, "got", x)
        if x is not None:
            acc = acc + x
        i = i + 1
    print("E", tag, "ret", acc)
    return acc
''',
    'fin': '''def g_fin(tag):
    try:
        for i in range(2):
            print("E", tag, "y", i)
            x = yield i * 10
            print("E", tag, "got", x)
    finally:
        print("E", tag, "fin")
    print("E", tag, "end")
''',
    'exc': '''def g_exc(tag):
    i = 0
    while i < 2:
        try:
            x = yield i
            if x == 5:
                raise KeyError
            print("E", tag, "got", x)
        except KeyError:
            print("E", tag, "caught")
        finally:
            print("E", tag, "fin", i)
        i = i + 1
    print("E", tag, "raise")
    raise ZeroDivisionError
''',
    'leak': '''def g_leak(tag):
    k = 0
    try:
        x = yield 1
        print("E", tag, "got", x)
        k = 10 // (x - 5)
        x = yield 2
        print("E", tag, "got2", x, k)
    finally:
        print("E", tag, "fin", k)
''',
    'mid': '''def g_mid(tag):
    print("E", tag, "y0")
    x = yield 0
    if x == 5:
        print("E", tag, "raise")
        raise KeyError
    print("E", tag, "y1")
    x = yield 1
    print("E", tag, "got", x)
''',
    'midloop': '''def g_midloop(tag):
    i = 0
    while i < 3:
        print("E", tag, "y", i)
        x = yield i
        if x == 5:
            print("E", tag, "raise")
            raise KeyError
        i = i + 1
''',
    'yf': '''def g_yf(tag):
    yield from g_acc(tag + "i")
    print("E", tag, "mid")
    x = yield 99
    print("E", tag, "got", x)
''',
    'yfv': '''def g_yfv(tag):
    r = yield from g_acc(tag + "i")
    print("E", tag, "r", r)
    r2 = yield from g_fin(tag + "j")
    print("E", tag, "r2", r2)
    return 7
''',
    'nest': '''def g_nest(tag):
    for i in range(2):
        for j in g_acc(tag + "n"):
            print("E", tag, "in", i, j)
            x = yield i * 100 + j
            print("E", tag, "got", x)
''',
    # a return that travels through a finally block which itself yields (the return value must survive the suspension)
    'retfin': '''def g_retfin(tag):
    try:
        x = yield 1
        print("E", tag, "got", x)
        if x == 5:
            return 9
        x = yield 2
        print("E", tag, "got2", x)
    finally:
        print("E", tag, "fin")
        y = yield 3
        print("E", tag, "fingot", y)
    print("E", tag, "after")
    return 4
''',
    # a yield inside an except block: the handled exception survives the suspension (a bare raise re-raises it), also around a nested handler
    'excy': '''def g_excy(tag):
    try:
        raise KeyError(tag)
    except KeyError:
        x = yield 1
        print("E", tag, "got", x)
        try:
            raise ZeroDivisionError
        except ZeroDivisionError:
            y = yield 2
            print("E", tag, "inner", y)
        if x == 5:
            raise
        z = yield 3
        print("E", tag, "got3", z)
    print("E", tag, "end")
''',
    # delegation to an iterator that is not a generator but has send(): sent values must reach it
    'yfc': '''def g_yfc(tag):
    r = yield from SI(tag + "s")
    print("E", tag, "r", r)
    x = yield 50
    print("E", tag, "got", x)
''',
    # delegation to a builtin iterator (no send method): next() works, send(non-None) raises AttributeError
    'yfl': '''def g_yfl(tag):
    r = yield from [10, 20]
    print("E", tag, "r", r)
    x = yield 30
    print("E", tag, "got", x)
''',
}
GEN_ORDER = ['acc', 'fin', 'exc', 'leak', 'mid', 'yf', 'yfv', 'nest', 'retfin', 'yfc', 'yfl', 'excy']

DRIVER = '''def res(tag, e):
    a = e.args
    if len(a) == 0:
        print("R", tag, "stop")
    else:
        print("R", tag, "stopv", a[0])
def nx(k):
    tag = T[k]
    print("O", tag)
    try:
        v = next(G[k])
        print("R", tag, "->", v)
    except StopIteration as e:
        res(tag, e)
    except KeyError:
        print("R", tag, "KeyError")
    except ZeroDivisionError:
        print("R", tag, "ZeroDivisionError")
    except TypeError:
        print("R", tag, "TypeError")
    except ValueError:
        print("R", tag, "ValueError")
    except RuntimeError:
        print("R", tag, "RuntimeError")
    except AttributeError:
        print("R", tag, "AttributeError")
    except Exception:
        print("R", tag, "Exception")
def sd(k, v):
    tag = T[k]
    print("O", tag)
    try:
        v = G[k].send(v)
        print("R", tag, "->", v)
    except StopIteration as e:
        res(tag, e)
    except KeyError:
        print("R", tag, "KeyError")
    except ZeroDivisionError:
        print("R", tag, "ZeroDivisionError")
    except TypeError:
        print("R", tag, "TypeError")
    except ValueError:
        print("R", tag, "ValueError")
    except RuntimeError:
        print("R", tag, "RuntimeError")
    except AttributeError:
        print("R", tag, "AttributeError")
    except Exception:
        print("R", tag, "Exception")
def dr(n):
    k = 0
    while k < n:
        print("O", "drain", T[k])
        c = 0
        while c < 12:
            c = c + 1
            try:
                next(G[k])
            except StopIteration:
                break
            except Exception:
                print("R", T[k], "exception")
                break
        k = k + 1
T = ["a", "b", "c"]
class SI:
    def __init__(self, tag):
        self.tag = tag
        self.acc = 0
        self.n = 0
    def __iter__(self):
        return self
    def __next__(self):
        print("E", self.tag, "next")
        return self.step(0)
    def send(self, v):
        print("E", self.tag, "send", v)
        return self.step(v)
    def step(self, v):
        self.acc = self.acc + v
        self.n = self.n + 1
        if self.n > 2:
            raise StopIteration(self.acc)
        return self.acc
'''


def seq_src(tmpls, seq):
    s = 'G = [' + ', '.join('g_%s("%s")' % (t, 'abc'[i]) for i, t in enumerate(tmpls)) + ']\n'
    for k, op in seq:
        if op == 'n':
            s += 'nx(%d)\n' % k
        else:
            s += 'sd(%d, %d)\n' % (k, op)
    s += 'dr(%d)\nprint("==")\n' % len(tmpls)
    return s


def split_ops(block):
    """split one sequence's output into per-operation blocks (each starts with an 'O tag' line)"""
    ops = []
    for l in block.split('\n'):
        if l.startswith('O '):
            ops.append([])
        elif l and ops:
            ops[-1].append(l)
        elif l:
            ops.append([l])       # output before the first op (never expected)
    return ops


def rclass(lines):
    for l in lines:
        if l.startswith('R '):
            p = l.split(' ')
            return p[2] if len(p) > 2 else '?'
    return 'no-result'


def sequences(tier, ngen, r):
    if tier == 'quick':
        ops = [(k, o) for k in range(ngen) for o in ('n', 3, 5)]
        return list(itertools.product(ops, repeat=5))
    # thorough: every interleaving of length <= 6 over {next, send} per generator (send value alternates 3 / 5 by position),
    # plus every generator order of length 8 with 2 sampled next/send assignments each
    out = []
    for seq in itertools.product([(k, o) for k in range(ngen) for o in ('n', 's')], repeat=6):
        out.append(tuple((k, 'n' if o == 'n' else (5 if i % 2 else 3)) for i, (k, o) in enumerate(seq)))
    for order in itertools.product(range(ngen), repeat=8):
        for _ in range(2):
            out.append(tuple((k, r.choice(['n', 3, 5])) for k in order))
    return out


# ---------------------------------------------------------------------------------------------

# ---- (c) lazy built-in iterators keep working after the iterator they wrap has raised: the exception passes through unchanged and the
# next next() asks the wrapped iterator again (nothing latches except exhaustion of a generator).
RESUME_PRE = """class Flaky:
    def __init__(self, tag, n, bad, exc):
        self.tag = tag
        self.i = 0
        self.n = n
        self.bad = bad
        self.exc = exc
    def __iter__(self):
        return self
    def __next__(self):
        self.i += 1
        print("p", self.tag, self.i)
        if self.i in self.bad:
            raise self.exc
        if self.i > self.n:
            raise StopIteration
        return self.i
def idf(v):
    return v
def f2(a, b):
    return (b, a)
def odd(v):
    return v % 2
def drive(it, k):
    for j in range(k):
        try:
            v = next(it)
            print("got", v)
        except ValueError:
            print("VE")
        except KeyError:
            print("KE")
        except StopIteration:
            print("SI")
"""
RESUME_WRAPPERS = {
    'zip-first': 'zip(F, "uvwxyz")', 'zip-second': 'zip("uvwxyz", F)', 'zip-two-flaky': 'zip(F, Flaky("g", 5, (3,), KeyError("k")))', 'zip-three': 'zip([9, 8, 7, 6, 5, 4], F, "uvwxyz")',
    'map-1': 'map(idf, F)', 'map-2': 'map(f2, F, "uvwxyz")', 'filter-none': 'filter(None, F)', 'filter-pred': 'filter(odd, F)', 'enumerate': 'enumerate(F)', 'enumerate-start': 'enumerate(F, 10)',
    'iter': 'iter(F)', 'genexp': '(v for v in F)', 'callable-iter': 'iter(lambda: next(F), 4)', 'enumerate-zip': 'enumerate(zip(F, "uvwxyz"))', 'map-filter': 'map(idf, filter(None, F))',
    'zip-genexp': 'zip((v for v in F), "uvwxyz")', 'zip-map': 'zip(map(idf, F), "uvwxyz")',
}


def resume_programs():
    out = []
    for wn, w in RESUME_WRAPPERS.items():
        for bi, bad in enumerate(['(2,)', '(1,)', '(2, 3)', '(6,)', '(1, 2, 3, 4, 5)', '()']):
            for exc in ('ValueError("t")', 'KeyError("k")'):
                src = RESUME_PRE + 'F = Flaky("f", 5, %s, %s)\nit = %s\ndrive(it, 4)\ntry:\n    print("rest", list(it))\nexcept ValueError:\n    print("rest VE")\nexcept KeyError:\n    print("rest KE")\ndrive(it, 3)\nprint("end", F.i)\n' % (bad, exc, w)
                out.append({'id': 'res-%s-%d-%s' % (wn, bi, exc[0]), 'src': src, 'wrapper': wn, 'bad': bad})
    return out


# ---- (d) a generator whose resumption itself fails (the interpreter refuses to enter one more frame at the recursion limit) is finished:
# the value that was being sent must not stay behind in its frame
LIMIT_PROG = 'def g():\n    for i in range(5):\n        x = yield i\n        LOG.append(x is not None)\nLOG = []\ndef probe(n):\n    try:\n        return probe(n + 1)\n    except RuntimeError:\n        return n\ndef deep(n, it, mode):\n    if n == 0:\n        try:\n            if mode == "next":\n                return ("ok", next(it))\n            return ("ok", it.send(iter([100, 200, 300])))\n        except RuntimeError:\n            return ("RE",)\n    return deep(n - 1, it, mode)\nL = probe(0)\nfor mode in ("next", "send"):\n    found = False\n    for n in range(L - 60, L + 10):\n        it = g()\n        next(it)\n        try:\n            r = deep(n, it, mode)\n        except RuntimeError:\n            r = ("too-deep",)\n        if r == ("RE",):\n            found = True\n            del LOG[:]\n            rest = []\n            try:\n                for k in range(6):\n                    rest.append(next(it))\n            except StopIteration:\n                rest.append("stop")\n            print(mode, "resumption failed at the limit; afterwards:", rest, LOG)\n            break\n    print(mode, "found", found)\n'
LIMIT_VARIANTS = {'for-loop-holds-iterator': LIMIT_PROG,
                  'while-loop': LIMIT_PROG.replace('    for i in range(5):\n        x = yield i\n        LOG.append(x is not None)\n', '    i = 0\n    while i < 5:\n        x = yield i\n        LOG.append(x is not None)\n        i += 1\n'),
                  'try-finally': LIMIT_PROG.replace('    for i in range(5):\n        x = yield i\n        LOG.append(x is not None)\n', '    try:\n        for i in range(5):\n            x = yield i\n            LOG.append(x is not None)\n    finally:\n        LOG.append("gen-finally")\n'),
                  'yield-from': LIMIT_PROG.replace('def g():\n', 'def inner():\n    for j in range(5):\n        y = yield j\n        LOG.append(("inner", y is not None))\ndef g():\n    yield from inner()\n')}


CANARY = [
    'print("v", 1)\nprint("X", "ok")\n',
    'def g():\n    yield 1\n    yield 2\nit = g()\nprint(next(it))\nprint(next(it))\nprint(next(it, 7))\n',
    'try:\n    raise KeyError\nexcept ZeroDivisionError:\n    print("X", "ZeroDivisionError")\nexcept KeyError:\n    print("X", "KeyError")\n',
    'x = [1, 2]\ni = 0\nwhile i < len(x):\n    print("v", x[i])\n    i = i + 1\n',
    'def g():\n    x = yield 1\n    print("E", x)\nit = g()\nnext(it)\ntry:\n    it.send(4)\nexcept StopIteration as e:\n    print(len(e.args))\n',
]


def run(tier, rep):
    r = rng(PID, 'main')
    quick = tier == 'quick'
    can = [{'id': 'can%d' % i, 'src': s} for i, s in enumerate(CANARY)]
    can.append({'id': 'canA', 'src': prog_a('next-default', 'listiter', 'int', 'none', 0)})
    can.append({'id': 'canB', 'src': DRIVER + GENS['fin'] + seq_src(['fin'], [(0, 'n'), (0, 3)])})
    ce = oracle_exec(can)
    cg, _ = run_vrun('exec', can)
    for c in can:
        e, g = ce.get(c['id'], {}), cg.get(c['id'], {})
        if e.get('oracle_failed') or e.get('exc') or e.get('cerr') or any(e.get(k) != g.get(k) for k in ('out', 'exc')) or g.get('panic') or g.get('cerr'):
            rep.broke('canary %s disagrees: expected %s got %s' % (c['id'], short(e), short(g)))
    if rep.broken:
        return
    nontriv = set()
    stats = {}

    # ---------------- (a) ----------------
    cases = []
    meta = {}
    for cons, (ccode, cshapes, mech) in CONSUMERS.items():
        for prod, (pcode, pshapes, ppos) in PRODUCERS.items():
            shapes = [s for s in cshapes if s in pshapes]
            if not shapes:
                continue
            shape = shapes[0]
            variants = [('none', 0)]
            for f in ('KeyError', 'ZeroDivisionError', 'user', 'TypeError'):
                for p in ppos:
                    variants.append((f, p))
            for f, p in variants:
                cid = 'a%d' % len(cases)
                cases.append({'id': cid, 'src': prog_a(cons, prod, shape, f, p)})
                meta[cid] = (cons, prod, shape, f, p, mech)
            # the other shapes once, without fault (element type must not matter)
            for sh in shapes[1:]:
                cid = 'a%d' % len(cases)
                cases.append({'id': cid, 'src': prog_a(cons, prod, sh, 'none', 0)})
                meta[cid] = (cons, prod, sh, 'none', 0, mech)
    t0 = time.time()
    exp = oracle_exec(cases)
    t1 = time.time()
    got, _ = run_vrun('exec', cases, timeout_case=20, envx={'GOMAXPROCS': '2'})
    phase = {'a_oracle_s': t1 - t0, 'a_vrun_s': time.time() - t1, 'b_oracle_s': 0.0, 'b_vrun_s': 0.0}
    triples = set()
    clean_feat = set()
    all_feat = set()
    samples = []
    for c in cases:
        cid = c['id']
        cons, prod, shape, f, p, mech = meta[cid]
        e, g = exp.get(cid), got.get(cid)
        if e is None or e.get('oracle_failed') or g is None:
            rep.inconc('a: no result %s' % cid)
            continue
        if e.get('exc') == 'TimeoutError':
            rep.inconc('a: oracle watchdog fired inside %s' % cid)
            continue
        if e.get('cerr') or e.get('exc'):
            rep.broke('a: generator bug, CPython: %s for %s/%s/%s' % (short(e.get('exc') or e.get('cerr')), cons, prod, f))
            continue
        if g.get('timeout') or g.get('wall_timeout'):
            rep.inconc('a: timeout %s/%s/%s@%d' % (cons, prod, f, p))
            continue
        rep.evaluations += 1
        triples.add((cons, prod, f))
        fclass = {'none': 'none', 'user': 'usererr'}.get(f, 'error')
        eo = outcome(e.get('out', ''))
        if f != 'none' and 'p %d' % p in e.get('out', ''):
            nontriv.add(('a', cons, prod, shape, f, p))          # the fault position was reached in the reference run
        elif f == 'none':
            nontriv.add(('a', cons, prod, shape, f, 0))
        for feat in ('consumer=' + cons, 'producer=' + prod):
            all_feat.add(feat)
        witness = {'case': c, 'consumer': cons, 'producer': prod, 'fault': f, 'position': p, 'expected': {k: e.get(k) for k in ('out', 'exc')},
                   'got': {k: short(g.get(k), 3000) for k in ('out', 'exc', 'excmsg', 'tb', 'cerr', 'panic', 'stack', 'crash', 'log_tail') if g.get(k)}}
        # builtins are judged per consumer; the syntactic consumers per VM mechanism (one opcode implements them all)
        if fclass == 'usererr':
            base = 'C05|a|fault=user|mech=%s|cons=%s|' % (mech, cons)
            tail = '|prod=%s' % prod
        elif mech == 'builtin':
            base = 'C05|a|mech=builtin|cons=%s|fault=%s|' % (cons, fclass)
            tail = '|prod=%s' % prod
        else:
            base = 'C05|a|mech=%s|fault=%s|' % (mech, fclass)
            tail = '|cons=%s|prod=%s' % (cons, prod)
        if g.get('panic') or g.get('crash') or g.get('harness_panic'):
            rep.violation(base + 'panic' + tail, witness)
            continue
        if g.get('cerr'):
            rep.violation(base + 'cerr' + tail, witness)
            continue
        if g.get('exc'):
            rep.violation(base + 'escaped:%s' % g['exc'] + tail, witness)
            continue
        if e.get('out') == g.get('out'):
            if fclass != 'usererr':
                clean_feat.add('consumer=' + cons)
                clean_feat.add('producer=' + prod)
            if len(samples) < 3 and f == 'KeyError' and p == 1 and cons in ('sorted', 'zip-first', 'star-mid') and prod in ('gen', 'iterclass-inst', 'getitem'):
                samples.append({'part': 'a', 'consumer': cons, 'producer': prod, 'fault': '%s@%d' % (f, p), 'program': c['src'][c['src'].index('it = '):], 'trace': e.get('out')})
            continue
        go = outcome(g.get('out', ''))

        def cls(o):
            if o == 'ok' or o == 'none':
                return o
            if f not in ('none',) and (o == f or (f == 'user' and o == 'UE')):
                return 'fault'
            return o
        if eo != go:
            dev = 'exp=%s,got=%s' % (cls(eo), cls(go))
        else:
            ea = outcome(e.get('out', '').split('after\n')[-1], 'A') if 'after\n' in e.get('out', '') else '?'
            ga_ = g.get('out', '').split('after\n')
            if e.get('out', '').split('after\n')[0] == ga_[0]:
                # the consumer behaved; the producer was left in another state
                rep.violation(('C05|a|fault=user|' if fclass == 'usererr' else 'C05|a|') + 'after-state|prod=%s|fault=%s|cons=%s' % (prod, fclass, cons), witness)
                continue
            else:
                dev = 'trace(%s)' % cls(eo)
        rep.violation(base + dev + tail, witness)

    stats['a_programs'] = len(cases)
    stats['a_distinct_consumer_producer_fault_triples'] = len(triples)
    stats['a_consumers'] = len(CONSUMERS)
    stats['a_producers'] = len(PRODUCERS)
    stats['a_features_with_clean_cases'] = len(clean_feat)
    missing = sorted(all_feat - clean_feat)
    if missing:
        stats['a_features_without_any_agreeing_case'] = missing

    # ---------------- (c) lazy iterators resumed after a fault ----------------
    rp = resume_programs()
    rexp = oracle_exec(rp)
    rgot, _ = run_vrun('exec', rp, timeout_case=20)
    for c in rp:
        e, g = rexp.get(c['id']), rgot.get(c['id'])
        if e is None or e.get('oracle_failed') or g is None or g.get('timeout'):
            rep.inconc('c: no result %s' % c['id'])
            continue
        if e.get('cerr') or e.get('exc'):
            rep.broke('c: generator bug, CPython: %s for %s' % (short(e.get('exc') or e.get('cerr')), c['id']))
            continue
        rep.evaluations += 1
        nontriv.add(('c', c['wrapper'], c['bad']))
        if g.get('panic') or g.get('crash') or g.get('exc') or g.get('cerr') or g.get('out') != e.get('out'):
            el, gl = (e.get('out') or '').split('\n'), (g.get('out') or '').split('\n')
            k = next((i for i, (x, y) in enumerate(zip(el, gl + [''] * len(el))) if x != y), len(el))
            phase_ = 'before-first-fault' if not any(x in ('VE', 'KE') for x in el[:k]) else ('rest' if any(x.startswith('rest') for x in el[:k + 1]) and not any(x.startswith('rest') for x in el[:k]) else 'after-fault')
            rep.violation('C05|c|resume-after-fault|wrapper=%s|%s' % (c['wrapper'], 'panic' if g.get('panic') or g.get('crash') else ('escaped:%s' % g['exc'] if g.get('exc') else phase_)),
                          {'case': {'id': c['id'], 'src': c['src']}, 'wrapper': RESUME_WRAPPERS[c['wrapper']], 'fault_positions': c['bad'], 'expected': {k_: e.get(k_) for k_ in ('out', 'exc')},
                           'got': {k_: short(g.get(k_), 2000) for k_ in ('out', 'exc', 'excmsg', 'cerr', 'panic', 'stack') if g.get(k_)}, 'first_divergent_line': k})
    stats['c_resume_programs'] = len(rp)
    stats['c_wrappers'] = len(RESUME_WRAPPERS)

    # ---------------- (d) resumption refused at the recursion limit ----------------
    lp = [{'id': 'limit-' + k, 'src': v} for k, v in LIMIT_VARIANTS.items()]
    lexp = oracle_exec(lp)
    lgot, _ = run_vrun('exec', lp, timeout_case=120)
    for c in lp:
        e, g = lexp.get(c['id']) or {}, lgot.get(c['id'])
        if g is None or g.get('timeout') or e.get('oracle_failed') or e.get('exc') or 'found True' not in (e.get('out') or ''):
            rep.inconc('d: no result / reference run did not reach the limit: %s' % c['id'])
            continue
        rep.evaluations += 1
        nontriv.add(('d', c['id']))
        if g.get('panic') or g.get('crash') or g.get('exc') or g.get('out') != e.get('out'):
            rep.violation('C05|d|resumption-refused-at-recursion-limit|%s|%s' % (c['id'][6:], 'panic' if g.get('panic') or g.get('crash') else ('escaped:%s' % g['exc'] if g.get('exc') else 'state-afterwards')),
                          {'case': c, 'expected': e.get('out'), 'got': {k_: short(g.get(k_), 1500) for k_ in ('out', 'exc', 'excmsg', 'panic', 'stack') if g.get(k_)}})
    stats['d_limit_programs'] = len(lp)

    # ---------------- (b) ----------------
    ngen = 2 if quick else 3
    combos = list(itertools.combinations_with_replacement(GEN_ORDER, ngen))
    if not quick:
        r.shuffle(combos)
        combos = sorted(combos[:8])
    # 'midloop' raises inside a loop; re-entering it currently panics, so it gets programs of its own and one combination only
    combos.append(('acc', 'midloop') if quick else ('acc', 'fin', 'midloop'))
    plan = []                                   # (templates, sequences)
    if quick:
        short_alpha = [tuple((k, 'n' if o == 'n' else (5 if (i + k) % 2 else 3)) for i, (k, o) in enumerate(seq))
                       for seq in itertools.product([(k, o) for k in range(2) for o in ('n', 's')], repeat=5)]
        full = sequences(tier, ngen, r)
        fullfor = set(r.sample(range(len(combos) - 1), 6))
        for ci, tm in enumerate(combos):
            plan.append((tm, full if ci in fullfor else short_alpha))
    else:
        seqs = sequences(tier, ngen, r)
        for tm in combos:
            plan.append((tm, seqs))
    per_case = 150

    def prelude_b(tm):
        need = set(tm)
        if 'yf' in need or 'yfv' in need or 'nest' in need:
            need.add('acc')
        if 'yfv' in need:
            need.add('fin')
        return DRIVER + ''.join(GENS[t] for t in GEN_ORDER + ['midloop'] if t in need)
    bcases = []
    bmeta = {}
    for tm, seqs in plan:
        pre = prelude_b(tm)
        pc = 1 if 'midloop' in tm else per_case      # 'mid' generators raise mid-way: re-entering them currently panics (known), which would take the rest of a shared program down
        for i in range(0, len(seqs), pc):
            chunk = seqs[i:i + pc]
            cid = 'b%d' % len(bcases)
            bcases.append({'id': cid, 'src': pre + ''.join(seq_src(tm, s_) for s_ in chunk)})
            bmeta[cid] = (tm, chunk)
    stats['b_generator_combinations'] = len(combos)
    stats['b_sequences'] = sum(len(x[1]) for x in plan)
    stats['b_programs'] = len(bcases)
    stats['b_sequences_rerun_alone_after_abnormal_end'] = 0
    cnt = {'nops': 0}
    rclasses = {}

    def bsig(dev, tmpl, st, opn):
        # operations on a generator whose frame has raised are grouped by that state first (one known defect explains them all)
        if st == 'failed':
            return 'C05|b|state=failed|%s|tmpl=%s|op=%s' % (dev, tmpl, opn)
        return 'C05|b|%s|tmpl=%s|state=%s|op=%s' % (dev, tmpl, st, opn)

    def judge_seq(tm, seq, eblk, gblk, abnormal, src):
        """one sequence: compare operation by operation"""
        rep.evaluations += 1
        cnt['nops'] += len(seq)
        eops = split_ops(eblk)
        for (k, op), lines in zip(seq, eops):
            rc = rclass(lines)
            rclasses[rc] = rclasses.get(rc, 0) + 1
        if len({k for k, _ in seq}) > 1:
            nontriv.add(('b', tm, seq))
        if eblk == gblk and not abnormal:
            return
        gops = split_ops(gblk)
        w = {'case': {'id': 'x', 'src': src}, 'templates': tm, 'sequence': [list(x) for x in seq], 'expected': eblk, 'got': gblk}
        if abnormal:
            w['abnormal'] = abnormal
        state = {}
        allops = list(seq) + [(k_, 'drain') for k_ in range(len(tm))]
        for j, (k, op) in enumerate(allops):
            eo_ = eops[j] if j < len(eops) else []
            go_ = gops[j] if j < len(gops) else []
            st = state.get(k, 'fresh')
            erc = rclass(eo_)
            opn = {'n': 'next', 'drain': 'drain'}.get(op, 'send')
            if abnormal and j == len(gops) - 1:
                rep.violation(bsig(abnormal[0], tm[k], st, opn), dict(w, first_divergent_op=j))
                return
            if eo_ != go_:
                parts = []
                if [l for l in eo_ if l.startswith('E ')] != [l for l in go_ if l.startswith('E ')]:
                    parts.append('events')
                grc = rclass(go_)
                if erc != grc:
                    parts.append('res:%s->%s' % (erc, grc))
                elif [l for l in eo_ if l.startswith('R ')] != [l for l in go_ if l.startswith('R ')]:
                    parts.append('value')
                if rep.violation(bsig('+'.join(parts) or 'other', tm[k], st, opn), dict(w, first_divergent_op=j)):
                    return      # a new kind of deviation: later operations of this sequence may be consequences
            if op != 'drain' and st != 'failed':
                state[k] = {'->': 'suspended', 'stop': 'exhausted', 'stopv': 'exhausted'}.get(erc, 'failed' if st != 'fresh' or erc != 'TypeError' else 'fresh')
        if abnormal:
            rep.violation('C05|b|%s|tmpl=?' % abnormal[0], w)

    def abn(g):
        if g.get('panic') or g.get('crash') or g.get('harness_panic'):
            return ('panic', short(g.get('panic') or g.get('log_tail'), 300), short(g.get('stack'), 1500))
        if g.get('cerr'):
            return ('cerr', g.get('cerr'))
        if g.get('exc'):
            return ('escaped:%s' % g['exc'], g.get('excmsg'))
        return None

    def run_b(cases, metas, alone):
        redo = []
        t0 = time.time()
        exp = oracle_exec(cases)
        t1 = time.time()
        got, _ = run_vrun('exec', cases, timeout_case=60, envx={'GOMAXPROCS': '2'})
        phase['b_oracle_s'] += t1 - t0
        phase['b_vrun_s'] += time.time() - t1
        for c in cases:
            cid = c['id']
            tm, chunk = metas[cid]
            e, g = exp.get(cid), got.get(cid)
            if e is None or e.get('oracle_failed') or g is None:
                rep.inconc('b: no result %s' % cid)
                continue
            if e.get('exc') == 'TimeoutError':
                rep.inconc('b: oracle watchdog fired inside %s' % cid)
                continue
            if e.get('cerr') or e.get('exc'):
                rep.broke('b: generator bug, CPython: %s' % short(e))
                continue
            if g.get('timeout') or g.get('wall_timeout'):
                rep.inconc('b: timeout %s' % cid)
                continue
            abnormal = abn(g)
            if abnormal and not alone:
                # the program died somewhere: every sequence of this chunk is run again in a program of its own
                redo.append((tm, chunk))
                continue
            eb = e.get('out', '').split('==\n')
            gb = g.get('out', '').split('==\n')
            pre = c['src'][:c['src'].index('G = [')]
            for si, seq in enumerate(chunk):
                judge_seq(tm, seq, eb[si] if si < len(eb) else '', gb[si] if si < len(gb) else '', abnormal, pre + seq_src(tm, seq))
        return redo
    B = 1500
    redo_all = []
    for bi in range(0, len(bcases), B):
        part = bcases[bi:bi + B]
        redo_all += run_b(part, bmeta, False)
    single = []
    smeta = {}
    for tm, chunk in redo_all:
        pre = prelude_b(tm)
        for seq in chunk:
            cid = 's%d' % len(single)
            single.append({'id': cid, 'src': pre + seq_src(tm, seq)})
            smeta[cid] = (tm, [seq])
    stats['b_sequences_rerun_alone_after_abnormal_end'] = len(single)
    for bi in range(0, len(single), 20000):
        run_b(single[bi:bi + 20000], smeta, True)
    nops = cnt['nops']
    seqs = plan[0][1]
    stats['phase_seconds'] = {k: round(v, 1) for k, v in phase.items()}
    stats['b_operations'] = nops
    stats['b_result_classes_expected'] = rclasses
    samples.append({'part': 'b', 'templates': list(combos[1]), 'sequence': [list(x) for x in seqs[len(seqs) // 3]], 'program_tail': seq_src(combos[1], seqs[len(seqs) // 3])})
    rep.nontrivial = nontriv
    rep.samples = samples
    rep.extra = stats
    rep.rule = ('(a) every consumer (%d) x every producer kind (%d) x fault in {none, KeyError (class), ZeroDivisionError (raised by the VM), user-defined, TypeError (a pre-built instance whose identity the handler checks)} x every position 0..%d the producer can fail at '
                '(+ each further element shape once without fault); non-trivial = distinct (consumer, producer, shape, fault, position) whose reference run reached the fault position (or no fault). '
                '(b) %s; non-trivial = distinct (generator templates, operation sequence) that touches more than one generator'
                % (len(CONSUMERS), len(PRODUCERS), N,
                   '2 live generators, all 78 pairs of 12 templates: all 4^5 sequences of {next, send(v)} of length 5 (v alternates 3/5), and for 6 seeded pairs all 6^5 sequences of {next, send(3), send(5)}; every sequence ends by draining each generator' if quick else
                   'over 3 live generators (8 seeded template triples + one with the raising-in-a-loop template): all 6^6 sequences of {next, send} of length 6 (send value alternates 3/5) plus all 3^8 generator orders of length 8 with 2 sampled next/send(3)/send(5) assignments each'))
    rep.assumptions = ['CPython 3.11 is the reference; exception types only', 'generator bodies never raise or leak StopIteration themselves (PEP 479)',
                       'dict/set results are shown in a fixed candidate order, never in iteration order',
                       'enumerate objects are driven through iter(enumerate(..)) because gpython enumerate objects have no __next__ (reported separately)']
