"""C11 - the compile pipeline is total: code object or SyntaxError, always.
Monitor: boundary observation of (code, err) of py.Compile in worker processes (input logged before the call, recover(),
watchdog); accepted inputs are also handed to the C12 bytecode verifier. Oracle: err must be in the SyntaxError family and
carry filename/lineno/offset; never a panic, a process abort, a hang, SystemError or another internal error type."""
import os, glob, itertools, re, binascii
import common, progen
from common import rng

PID = 'C11'
FINISH_KW = {'max_inconclusive_frac': 0.002}

FRAGS = ['if', 'else', 'elif', 'for', 'while', 'def', 'class', 'return', 'yield', 'lambda', 'try', 'except', 'finally', 'with', 'as', 'import', 'from', 'global', 'nonlocal', 'del',
         'pass', 'break', 'continue', 'raise', 'assert', 'in', 'is', 'not', 'and', 'or', 'None', 'True', 'False',
         'x', 'y', 'f', '1', '0', '2.5', '1j', '"s"', "b'b'", '0x1F', '0o7', '0b1', '1e5',
         '(', ')', '[', ']', '{', '}', ',', ':', ';', '.', '...', '=', '==', '+', '-', '*', '**', '/', '//', '%', '@', '<', '>', '<=', '!=', '->', '+=', '<<', '~', '|', '&', '^',
         '\n', '\n    ', '\n\t', '\n  ', ' ', '\\\n', '#c\n',
         # malformed / hostile fragments
         '0x', '1e', '0b2', '0777', '1__0', "'", '"', "'''", '"""', "b'\\xff'", "'\\N{'", "'\\N{BOGUS}'", "'\\x4'", "'\\u12'", "b'\u00e9'", '\\', '$', '?', '!', '`',
         '\x00', '\r', '\x0c', '\t', '\u00e9', '\u20ac', '\U0001f600x', '\ufeff', '\xa0']
# byte-level fragments (invalid UTF-8 etc.), given as hex
BYTEFRAGS = ['ff', 'c3', 'e282', 'f09f98', 'c080', 'eda080', '80', 'fe']


def mutate(r, text):
    b = bytearray(text.encode('utf-8'))
    k = r.randrange(6)
    if not b:
        return bytes(b)
    for _ in range(r.randrange(1, 4)):
        if not b:
            break
        pos = r.randrange(len(b))
        if k == 0:
            del b[pos:pos + r.randrange(1, 8)]
        elif k == 1:
            b[pos:pos] = r.choice(FRAGS).encode('utf-8')
        elif k == 2:
            b[pos] = r.randrange(256)
        elif k == 3:
            j = r.randrange(len(b))
            b[pos], b[j] = b[j], b[pos]
        elif k == 4:
            b[pos:pos] = binascii.unhexlify(r.choice(BYTEFRAGS))
        else:
            # duplicate a slice (unbalances brackets/indentation)
            j = min(len(b), pos + r.randrange(1, 40))
            b[pos:pos] = b[pos:j]
    return bytes(b)


def size_stress(tier):
    S = []
    big = 3 if tier == 'quick' else 10
    # > 64 KiB of bytecode under one forward jump (if / while / try / for bodies)
    body = ''.join('    x = x + %d\n' % i for i in range(9000))
    S.append(('big-if-body', 'x = 0\nif x:\n' + body + 'else:\n    x = 1\n'))
    S.append(('big-while-body', 'x = 0\nwhile x:\n' + body))
    S.append(('big-try-body', 'x = 0\ntry:\n' + body + 'finally:\n    x = 2\n'))
    S.append(('big-for-body', 'x = 0\nfor i in ():\n' + body))
    S.append(('big-func-body', 'def f(x):\n' + body + '    return x\n'))
    S.append(('big-boolop', 'x = ' + ' and '.join('x%d' % i for i in range(30000)) + '\n'))
    S.append(('big-ifexp', 'x = ' + ''.join('a%d if c%d else ' % (i, i) for i in range(8000)) + 'z\n'))
    # > 65536 constants / names
    S.append(('many-consts', 'x = [' + ', '.join(str(i * 7 + 100000) for i in range(70000)) + ']\n'))
    S.append(('many-names', '\n'.join('n%d = 1' % i for i in range(70000)) + '\n'))
    S.append(('many-args', 'f(' + ', '.join('a%d' % i for i in range(300)) + ')\n'))
    S.append(('many-kwargs', 'f(' + ', '.join('a%d=1' % i for i in range(300)) + ')\n'))
    S.append(('many-params', 'def f(' + ', '.join('a%d' % i for i in range(300)) + '): pass\n'))
    S.append(('many-targets', ', '.join('a%d' % i for i in range(300)) + ' = x\n'))
    S.append(('many-star-targets', ', '.join('a%d' % i for i in range(300)) + ', *r = x\n'))
    # deep nesting
    for n in (100, 1000, 10000) + ((100000,) if tier == 'thorough' else ()):
        S.append(('deep-paren-%d' % n, '(' * n + '1' + ')' * n + '\n'))
        S.append(('deep-list-%d' % n, '[' * n + ']' * n + '\n'))
        S.append(('deep-unary-%d' % n, 'x = ' + '-' * n + '1\n'))
        S.append(('deep-not-%d' % n, 'x = ' + 'not ' * n + '1\n'))
        S.append(('deep-attr-%d' % n, 'x' + '.a' * n + '\n'))
        S.append(('deep-call-%d' % n, 'f' + '()' * n + '\n'))
        S.append(('deep-sub-%d' % n, 'x' + '[0]' * n + '\n'))
        S.append(('deep-binop-%d' % n, 'x = ' + '1+' * n + '1\n'))
        S.append(('deep-pow-%d' % n, 'x = ' + '2**' * n + '1\n'))
        if n <= 1000:
            S.append(('deep-lambda-%d' % n, 'x = ' + 'lambda: ' * n + '1\n'))
        S.append(('deep-unclosed-%d' % n, '(' * n + '\n'))
        S.append(('deep-compare-%d' % n, 'x = ' + '1<' * n + '1\n'))
    for n in (10, 19, 20, 21, 50, 100) + ((500,) if tier == 'thorough' else ()):
        S.append(('nest-if-%d' % n, ''.join(' ' * i + 'if x:\n' for i in range(n)) + ' ' * n + 'pass\n'))
        S.append(('nest-for-%d' % n, ''.join(' ' * i + 'for i in x:\n' for i in range(n)) + ' ' * n + 'pass\n'))
        S.append(('nest-try-%d' % n, ''.join(' ' * i + 'try:\n' for i in range(n)) + ' ' * n + 'pass\n' + ''.join(' ' * i + 'finally:\n' + ' ' * (i + 1) + 'pass\n' for i in reversed(range(n)))))
        S.append(('nest-with-%d' % n, ''.join(' ' * i + 'with x:\n' for i in range(n)) + ' ' * n + 'pass\n'))
        S.append(('nest-def-%d' % n, ''.join(' ' * i + 'def f():\n' for i in range(n)) + ' ' * n + 'pass\n'))
        S.append(('nest-class-%d' % n, ''.join(' ' * i + 'class C:\n' for i in range(n)) + ' ' * n + 'pass\n'))
        S.append(('nest-genexp-%d' % n, 'x = ' + '(' * n + 'a' + ' for a in b)' * n + '\n'))
    S.append(('long-line', 'x = "' + 'a' * 1000000 + '"\n'))
    S.append(('long-ident', 'a' * 100000 + ' = 1\n'))
    S.append(('many-lines', 'pass\n' * 200000))
    S.append(('many-blank', '\n' * 300000 + 'x=1\n'))
    S.append(('long-int', 'x = ' + '9' * 20000 + '\n'))
    S.append(('long-float', 'x = 1.' + '9' * 20000 + 'e' + '9' * 10 + '\n'))
    S.append(('dedent-stack', ''.join(' ' * i + 'if x:\n' for i in range(110)) + 'pass\n'))
    return S


def cases_for(tier):
    r = rng(PID, 'gen')
    C = []

    def add(cid, data, mode, feature, n=1, nodump=False):
        if isinstance(data, str):
            data = data.encode('utf-8', 'surrogatepass')
        C.append({'id': cid, 'src_hex': binascii.hexlify(data).decode(), 'mode': mode, 'n': n, 'verify': not nodump, 'feature': feature, 'nodump': nodump})
    modes = ['exec', 'eval', 'single']
    L = 2 if tier == 'quick' else 3
    k = 0
    for n in range(1, L + 1):
        for seq in itertools.product(FRAGS, repeat=n):
            if n == 3 and tier == 'thorough' and r.random() > 0.35:
                continue   # ~1/3 of all triples (the full set is 1.2M x 3 modes)
            text = ' '.join(seq) if r.random() < 0.5 else ''.join(seq)
            for m in modes:
                add('seq%d:%d:%s' % (n, k, m), text + ('\n' if r.random() < 0.7 else ''), m, 'short-seq')
            k += 1
    # constant expressions whose VALUE would be astronomically large: compiling is not evaluating (a compiler that folds constants has to bound what it folds)
    bigc = ['2 ** 10 ** 10', '9 ** 9 ** 9', '1 << (1 << 40)', '18446744073709551616 ** 1000000000', '(2 ** 64) ** (10 ** 9)', '-9223372036854775808 ** 9223372036854775807', '(10 ** 30) ** (10 ** 9)',
            '"a" * 10 ** 12', '[0] * 10 ** 12', 'b"x" * 2 ** 40', '(1,) * 10 ** 15', '2.0 ** 10 ** 10', '(3 ** 40) ** (7 ** 20)', '(1 << 70) << (1 << 35)', '-(2 ** 64) ** 999999999', '(2 ** 64 + 1) ** 2 ** 40',
            '0xffffffffffffffffffff ** 0xffffffff', '10 ** 10 ** 10 ** 10', '(2 ** 63) ** (2 ** 31)', '~(1 << 64) ** (1 << 33)']
    for i, e in enumerate(bigc):
        add('bigconst:%d:eval' % i, e, 'eval', 'huge-constant-expression')
        add('bigconst:%d:exec' % i, 'def never_called():\n    return ' + e + '\nx = 1\n', 'exec', 'huge-constant-expression')
        add('bigconst:%d:single' % i, 'if 0: y = ' + e + '\n', 'single', 'huge-constant-expression')
    nrand = 8000 if tier == 'quick' else 200000
    for i in range(nrand):
        n = r.randrange(3, 200 if i % 10 == 0 else 30)
        toks = [r.choice(FRAGS) for _ in range(n)]
        text = ' '.join(toks)
        data = text.encode('utf-8')
        if r.random() < 0.1:
            pos = r.randrange(len(data) + 1)
            data = data[:pos] + binascii.unhexlify(r.choice(BYTEFRAGS)) + data[pos:]
        add('rnd:%d' % i, data, r.choice(modes), 'random-seq')
    # mutations of real programs
    seeds = []
    for path in sorted(glob.glob(os.path.join(common.REPO, '**', '*.py'), recursive=True)):
        try:
            t = open(path, encoding='utf-8').read()
        except Exception:
            continue
        if len(t) < 60000:
            seeds.append(t)
    for i in range(60):
        seeds.append(progen.program(r, maxdepth=3, nstmts=3)[len(progen.PRELUDE):])
    nmut = 6000 if tier == 'quick' else 120000
    for i in range(nmut):
        s = r.choice(seeds)
        if len(s) > 3000:
            a = r.randrange(len(s) - 2000)
            a = s.rfind('\n', 0, a) + 1
            s = s[a:a + 2000]
        add('mut:%d' % i, mutate(r, s), 'exec' if r.random() < 0.8 else r.choice(modes), 'mutation')
    # grammar-aware hostile targets: every statement form that binds/deletes x every nesting of target wrappers x leaves that are
    # or are not targets (the checks of one layer must not trip over what another layer already rejected)
    leaves = ['1', 'f()', 'a + b', '"s"', 'None', '...', 'lambda: 0', 'a if b else c', 'a.b', 'a[0]', 'a', '(yield)', '-a', 'a < b', '[x for x in y]', '{}', '()', '*a', '**a', 'not a', 'a and b', "b'x'", '1.5', 'True', '__debug__', '(a)', '[]']
    wraps = ['%s', '*%s', '[%s]', '(%s,)', '(a, %s)', '[%s, a]', '*[%s]', '*(%s, a)', '(a, (b, %s))', '[*%s]', '(%s)', '%s, b', 'a, *%s', '(*%s, a)', '[[%s]]']
    forms = ['%s = v\n', 'x = %s = v\n', 'del %s\n', 'for %s in v: pass\n', '[0 for %s in v]\n', '(0 for %s in v)\n', '{0: 1 for %s in v}\n', 'with v as %s: pass\n', '%s += 1\n', 'with v as a, w as %s: pass\n',
             'for a in v:\n    for %s in w: pass\n', 'def f():\n    %s = v\n', 'class C:\n    del %s\n', 'lambda: [0 for %s in v]\n', 'try:\n    pass\nexcept E as %s:\n    pass\n', 'import m as %s\n', 'global %s\n', 'def f(%s): pass\n', 'def f(a=%s): pass\n']
    k = 0
    for fi, form in enumerate(forms):
        for w1 in wraps:
            for w2 in (wraps if tier == 'thorough' else wraps[:9]):
                for leaf in leaves:
                    if tier == 'quick' and (k * 7 + fi) % 5:   # quick: a fifth of the product (rotating with the form)
                        k += 1
                        continue
                    k += 1
                    inner = w2 % leaf
                    if w2 != '%s' and w1 not in ('%s',) and ',' in inner and not inner.startswith(('(', '[')):
                        inner = '(' + inner + ')'
                    add('tgt:%d' % k, form % (w1 % inner), 'exec', 'hostile-target')
    # full-grammar texts (the C06 generator: every statement / expression form and target form of the 3.4 grammar) in all three modes, and
    # token mutations of them: whatever the compiler does with a syntactically valid tree, it must end in a code object or a SyntaxError
    import c06
    for i in range(3000 if tier == 'quick' else 60000):
        g6 = c06.G(r)
        k6 = i % 4
        if k6 == 0:
            text, mode6 = g6.module(2, 2, r.randrange(1, 4))[0], 'exec'
        elif k6 == 1:
            text, mode6 = g6.expr(3).t, 'eval'
        elif k6 == 2:
            text, mode6 = g6.simple(2)[0][0] + '\n', 'single'
        else:
            text, mode6 = mutate(r, g6.module(2, 2, r.randrange(1, 3))[0]), 'exec'
        add('g6:%d' % i, text, mode6, 'full-grammar')
    # scope shapes: three nested scopes x what each does with the ONE name x before and after the scope nested in it (bind, read, declare global /
    # nonlocal, delete, import, augment, loop target, a nested def/class/lambda/comprehension of that name, handler name, parameter).  Valid or
    # not, each must give a code object or a SyntaxError: the symbol table and the closure hand-off of the compiler see every combination.
    acts = ['', 'x = 1', 'x', 'global x', 'nonlocal x', 'del x', 'import x', 'x += 1', 'for x in z: pass', 'def x(): pass', 'class x: pass', 'with z as x: pass',
            'x = lambda: x', '[x for x in z]', 'try:\n    pass\nexcept E as x:\n    pass', 'x = [x for y in z]', 'print(x)']
    inner_kinds = [('def', 'def h(%s):\n    %s\n'), ('class', 'class H:\n    %s\n'), ('lambda', 'h = lambda %s: %s\n'), ('listcomp', 'h = [%s for y in z]\n'), ('genexp', 'h = (%s for x in z)\n'),
                   ('dictcomp', 'h = {y: %s for y in z if x}\n'), ('method', 'def h(self, %s):\n    %s\n')]
    inner_stmts = ['x', 'return x', 'x = 2', 'global x', 'nonlocal x', 'del x', 'x += 1', 'return super().h()', 'return __class__', 'return [x for y in z]', 'return lambda: x', 'yield x', 'nonlocal x\n    x = 3']
    inner_exprs = ['x', '(x, y)', 'lambda: x', '[x for w in z]', 'x if x else 0', 'super()', '__class__', '(yield x)']
    params = ['', 'x', 'a, x=1', '*x', '**x', 'a, *, x']

    def ind(text, n=1):
        return ''.join('    ' * n + l + '\n' for l in text.split('\n') if l)

    def scope_text(kinds, pre, post, inner):
        ik, itmpl, ibody, iparam = inner
        if ik in ('def', 'method'):
            it = itmpl % (iparam, ibody)
        elif ik == 'class':
            it = itmpl % ibody.replace('return ', 'w = ').replace('yield x', 'w = x')
        elif ik == 'lambda':
            it = itmpl % (iparam, ibody)
        else:
            it = itmpl % ibody
        body = it
        for lvl in (1, 0):
            k = kinds[lvl]
            head = ('def f%d(%s):\n' % (lvl, params[(len(pre[lvl]) + lvl) % len(params)] if lvl == 1 else '')) if k == 'def' else 'class K%d:\n' % lvl
            inside = ind(pre[lvl]) + ind(body.rstrip('\n')) + ind(post[lvl])
            body = head + (inside or '    pass\n')
        return body
    combos = []
    for k0 in ('def', 'class'):
        for k1 in ('def', 'class'):
            for ik, itmpl in inner_kinds:
                bodies = inner_stmts if ik in ('def', 'class', 'method') else inner_exprs
                for ib in bodies:
                    combos.append((k0, k1, ik, itmpl, ib))
    nscope = 12000 if tier == 'quick' else 400000
    full = len(combos) * len(acts) ** 4 * len(params)
    for i in range(nscope):
        k0, k1, ik, itmpl, ib = combos[i % len(combos)] if tier == 'quick' else r.choice(combos)
        pre = [r.choice(acts), r.choice(acts)]
        post = [r.choice(acts) if r.random() < 0.5 else '', r.choice(acts) if r.random() < 0.5 else '']
        text = scope_text((k0, k1), pre, post, (ik, itmpl, ib, r.choice(params)))
        if r.random() < 0.3:
            text = r.choice(['x = 0\n', 'global x\n', 'import x\n', 'def x(): pass\n']) + text
        add('scope:%d' % i, text, 'exec', 'scope-nest')
    # the shapes the property's anchors name explicitly, always present
    for j, text in enumerate(['def f():\n    x = 1\n    class A:\n        x = 2\n        def m(self):\n            return x\n',
                              'def f(x):\n    class A:\n        x = x\n        g = lambda: x\n',
                              'def f():\n    x = 1\n    class A:\n        x = [x for y in z]\n        h = [x for y in z]\n',
                              'def f():\n    x = 1\n    class A:\n        def x(self):\n            return x\n',
                              'def f():\n    x = 1\n    class A:\n        x = 2\n        def m(self):\n            return super().m() + x\n',
                              'class A:\n    x = 1\n    class B:\n        x = 2\n        def m(self):\n            return x\n',
                              'def f():\n    x = 1\n    class A:\n        nonlocal x\n        x = 2\n        def m(self):\n            return x\n']):
        for m in ('exec', 'single'):
            add('scopefix:%d:%s' % (j, m), text + ('\n' if m == 'single' else ''), m, 'scope-nest')
    for name, text in size_stress(tier):
        add('size:' + name, text, 'exec', 'size:' + re.sub(r'-\d+$', '', name), nodump=len(text) > 200000 or 'lambda' in name or 'nest-def' in name or 'nest-class' in name)
    return C


def judge(rep, c, g, feat, counts):
    if g is None:
        rep.inconc('no result for %s' % c['id'])
        return
    w = {'case': {k: v for k, v in c.items() if k != 'src_hex'}, 'vrun_mode': 'compile', 'src_preview': binascii.unhexlify(c['src_hex'])[:300].decode('utf-8', 'replace'), 'got': {k: common.short(v, 600) for k, v in g.items()}}
    if len(c['src_hex']) < 4000:
        w['case']['src_hex'] = c['src_hex']
    if g.get('panic') or g.get('harness_panic'):
        msg = str(g.get('panic') or g.get('harness_panic'))
        rep.violation('C11|%s|panic:%s' % (feat, re.sub(r'\d+', 'N', msg)[:80]), w)
        return
    if g.get('crash'):
        tail = g.get('log_tail', '')
        kind = 'stack-overflow' if 'stack overflow' in tail or 'goroutine stack exceeds' in tail else ('out-of-memory' if 'out of memory' in tail else 'abort')
        rep.violation('C11|%s|process-%s' % (feat, kind), w)
        return
    if g.get('nil_code'):
        rep.violation('C11|%s|nil-code-nil-error' % feat, w)
        return
    e = g.get('err')
    if e is None:
        counts['accepted'] += 1
        for v in g.get('verrs') or []:
            rep.violation('C11|%s|accepted-code-ill-formed:%s' % (feat, re.sub(r'\d+', 'N', re.sub(r'code "[^"]*"', 'code', v))[:90]), dict(w, verifier=v))
        return
    counts['rejected'] += 1
    t = e.get('type')
    counts.setdefault('err:' + str(t), 0)
    counts['err:' + str(t)] += 1
    if not e.get('syntax_family'):
        rep.violation('C11|%s|error-outside-SyntaxError-family:%s' % (feat, t), w)
    elif not e.get('has_location'):
        rep.violation('C11|%s|SyntaxError-without-filename-lineno-offset' % feat, w)


def run(tier, rep):
    C = cases_for(tier)
    feat = {c['id']: c.pop('feature') for c in C}
    small = [c for c in C if not c['id'].startswith('size:')]
    big = [c for c in C if c['id'].startswith('size:')]
    res, _ = common.run_vrun('compile', small, timeout_case=20)
    # size stress: one process per few cases, generous watchdog, memory-capped by the worker's own limits
    res2, _ = common.run_vrun('compile', big, timeout_case=300, workers=8)
    res.update(res2)
    counts = {'accepted': 0, 'rejected': 0}
    timeouts = []
    nontriv = set()
    for c in C:
        g = res.get(c['id'])
        if g is not None and (g.get('timeout') or g.get('wall_timeout')):
            timeouts.append(c)
            continue
        rep.evaluations += 1
        judge(rep, c, g, feat[c['id']], counts)
        if g is not None and (g.get('err') or {}).get('type'):
            nontriv.add((feat[c['id']], g['err']['type'], g['err'].get('msg', '')[:40]))
        elif g is not None and g.get('dump_hash'):
            nontriv.add((feat[c['id']], 'ok', g['dump_hash']))
    # a timeout is a hang only if reproduced twice in a fresh, otherwise idle process
    confirmed = {}
    skipped_same_class = 0
    for c in timeouts:
        if confirmed.get(feat[c['id']], 0) >= 3:
            skipped_same_class += 1         # three hangs of this input class are already confirmed: the rest are not reproduced one by one (60 s each)
            continue
        again = 0
        for _ in range(2):
            r2, _ = common.run_vrun('compile', [c], timeout_case=600 if c['id'].startswith('size:') else 30, workers=1)
            g = r2.get(c['id'])
            if g is not None and (g.get('timeout') or g.get('wall_timeout')):
                again += 1
            elif g is not None:
                rep.evaluations += 1
                judge(rep, c, g, feat[c['id']], counts)
                break
        if again == 2:
            confirmed[feat[c['id']]] = confirmed.get(feat[c['id']], 0) + 1
            rep.evaluations += 1
            rep.violation('C11|%s|hang' % feat[c['id']], {'case': {k: v for k, v in c.items() if k != 'src_hex' or len(v) < 4000}, 'vrun_mode': 'compile', 'src_preview': binascii.unhexlify(c['src_hex'])[:300].decode('utf-8', 'replace')})
    rep.nontrivial = nontriv
    slow = sorted(((g.get('max_us', 0), k) for k, g in res.items() if isinstance(g, dict)), reverse=True)[:5]
    rep.samples = [{'id': c['id'], 'mode': c['mode'], 'text': binascii.unhexlify(c['src_hex'])[:120].decode('utf-8', 'replace'), 'result': (res.get(c['id']) or {}).get('err', {'accepted': True})} for c in (C[5000:5003] + C[-200:-198])]
    rep.rule = ('exhaustive sequences of length <= %d over a %d-fragment alphabet (keywords, operators, literals incl. malformed, indentation, control bytes, non-ASCII, BOM) in all three modes, seeded random sequences up to 200 tokens with invalid UTF-8 injected, '
                'byte/token mutations of repository .py files and generated programs, hostile assignment targets (statement form x wrappers x leaf), full-grammar texts of the C06 generator in all three modes and their mutations, nested scope shapes (3 nested def/class/lambda/comprehension scopes x what each does with one name before/after the nested scope), and size stress (>64KiB jump bodies, >65536 consts/names, nesting up to 10^4..10^5); non-trivial = distinct (feature, outcome type, message prefix or code hash)' % (2 if tier == 'quick' else 3, len(FRAGS)))
    rep.extra = dict(counts, slowest_us=slow, timeouts_first_pass=len(timeouts), cases=len(C))
    rep.assumptions = ['watchdog 20 s per compile (120 s for size stress); a timeout counts only if reproduced twice in a fresh idle process', 'accepted inputs are additionally checked by the C12 verifier (static part)']
