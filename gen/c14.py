"""C14 - strings are sequences of code points; repr round-trips through eval.

Monitor : vrun apibatch (the api mode, one batch per subject string): len, index, slice, iteration, in, find, count, startswith/endswith,
          split, join, strip/lstrip/rstrip, replace, comparisons, +, *, ord/chr through py.Call / py.GetItem ...; results as code-point
          lists. Round trip: x -> py.Repr -> py.Compile(eval) -> run -> y at Go level, y compared with x on the *encodings* (deep,
          bit-exact; gpython's == is not trusted, CPython's repr text is not used). A sample is also compiled from source
          (code points printed as ints).
Oracle  : CPython executed in-process on the same operands.
Only str methods that gpython provides *and* the property names are exercised (probed at start; `find count startswith endswith
split join strip lstrip rstrip replace` exist today; rfind/index/partition/... do not and are not named by the property).
"""
import itertools, math
import common
from common import rng, run_vrun, short
from apicodec import Big, Sl, enc, dec, canon, show, outcome

PID = 'C14'
ALPHA = ['a', 'b', '\u00e9', '\u20ac', '\U0001f600', '\ufffd', '\u0161', "'", '"', '\\', '\n', '\x00', ' ', '\u00a0', '\u0085', '\x1f']
METHODS = ['find', 'count', 'startswith', 'endswith', 'split', 'join', 'strip', 'lstrip', 'rstrip', 'replace']
EXC = (IndexError, ValueError, TypeError, OverflowError)


def real(v):
    if isinstance(v, Big):
        return v.v
    if isinstance(v, Sl):
        return slice(*[real(x) for x in v.a])
    if isinstance(v, list):
        return [real(x) for x in v]
    if isinstance(v, tuple):
        return tuple(real(x) for x in v)
    return v


def py_eval(op, args):
    a = [real(x) for x in args]
    try:
        if op.startswith('meth:'):
            r = getattr(a[0], op[5:])(*a[1:])
        elif op == 'len':
            r = len(a[0])
        elif op == 'iterlist':
            r = list(a[0])
        elif op == 'getitem':
            r = a[0][a[1]]
        elif op == 'contains':
            r = a[1] in a[0]
        elif op == 'add':
            r = a[0] + a[1]
        elif op == 'mul':
            r = a[0] * a[1]
        elif op in ('lt', 'le', 'eq', 'ne', 'gt', 'ge'):
            import operator
            r = getattr(operator, op)(a[0], a[1])
        elif op == 'call:ord':
            r = ord(a[0])
        elif op == 'call:chr':
            r = chr(a[0])
        else:
            raise AssertionError(op)
    except EXC as e:
        return ('exc', type(e).__name__)
    return ('val', canon(r))


def nonascii(v):
    if isinstance(v, str):
        return any(ord(c) > 127 for c in v)
    if isinstance(v, (list, tuple)):
        return any(nonascii(x) for x in v)
    return False


def argform(op, args):
    """Coarse, seed-independent description of the argument shape (for signatures)."""
    s = args[0]
    n = len(s) if isinstance(s, str) else 0
    rest = args[1:]
    f = []
    if op in ('meth:find', 'meth:count', 'meth:startswith', 'meth:endswith'):
        pos = rest[1:]
        # defect-bearing features first, so that a known finding can name them as a prefix
        if any(p is None for p in pos):
            f.append('none')
        if any(isinstance(p, int) and p < 0 for p in pos):
            f.append('neg')
        if isinstance(rest[0], tuple):
            f.append('tuple')
        elif rest[0] == '':
            f.append('emptyneedle')
        if any(isinstance(p, int) and p > n for p in pos):
            f.append('oob')
        f.append('args=%d' % (len(rest) - 1))
        if op in ('meth:startswith', 'meth:endswith'):
            f = ['args=%d' % (len(rest) - 1)] + f[:-1]
    elif op == 'meth:split':
        if not rest or rest[0] is None:
            f.append('nosep')
        elif rest[0] == '':
            f.append('emptysep')
        else:
            f.append('sep')
        if len(rest) > 1:
            f.append('maxsplit' + ('<0' if rest[1] < 0 else ''))
    elif op in ('meth:strip', 'meth:lstrip', 'meth:rstrip'):
        f.append('nochars' if not rest else ('none' if rest[0] is None else 'chars'))
    elif op == 'meth:replace':
        f.append('emptyold' if rest[0] == '' else 'old')
        if len(rest) > 2:
            f.append('count' + ('<0' if rest[2] < 0 else ''))
    elif op == 'meth:join':
        f.append(type(rest[0]).__name__)
    elif op == 'getitem':
        k = rest[0]
        if isinstance(k, Sl):
            st = k.a[2]
            f.append('slice-step=%s' % ('none' if st is None else ('neg' if st < 0 else 'pos')))
        else:
            f.append('index-' + ('in' if -n <= k < n else 'out'))
    elif op == 'mul':
        f.append(('bigrep-' if isinstance(rest[0], Big) else '') + 'count' + ('<=0' if real(rest[0]) <= 0 else '>0'))
    elif op == 'call:chr':
        v = args[0]
        f.append('valid' if 0 <= v <= 0x10ffff else 'invalid')
    elif op == 'call:ord':
        f.append('len%d' % min(len(args[0]), 2))
    return '+'.join(f) or '-'


def sig(op, args, dev, mode='api'):
    return 'C14|%s|%s|%s|%s|%s' % (op.replace('meth:', '').replace('call:', ''), argform(op, args), dev, 'nonascii' if any(nonascii(a) for a in args) else 'ascii', mode)


def ops_for(s, r, full):
    """All operation instances for subject string s (full) or a seeded sample of them."""
    n = len(s)
    chars = sorted(set(s))
    absent = [c for c in ALPHA if c not in s]
    ab = absent[0] if absent else 'z'
    subs2 = sorted({s[i:i + 2] for i in range(n - 1)})
    needles = chars + subs2[:3] + ['', ab, s, s + ab]
    core = [('len', [s]), ('iterlist', [s])]
    out = []
    for i in range(-n - 1, n + 1):
        out.append(('getitem', [s, i]))
    rv = [None] + list(range(-7, 8))
    for _ in range(8):
        out.append(('getitem', [s, Sl(r.choice(rv), r.choice(rv), r.choice([None, None, 1, -1, 2, -2, 3]))]))
    out += [('getitem', [s, Sl(None, None, -1)]), ('getitem', [s, Sl(1, None, None)]), ('getitem', [s, Sl(None, -1, None)]), ('getitem', [s, Sl(1, -1, None)])]
    for x in needles:
        out.append(('contains', [s, x]))
    for x in needles:
        out.append(('meth:find', [s, x]))
        out.append(('meth:count', [s, x]))
        for _ in range(3):
            a = r.randrange(-7, 8)
            out.append((r.choice(('meth:find', 'meth:count')), [s, x, a]))
            out.append((r.choice(('meth:find', 'meth:count')), [s, x, a, r.randrange(-7, 8)]))
        for a in range(0, n + 1):
            out.append(('meth:find', [s, x, a]))
        out.append(('meth:count', [s, x, r.randrange(0, n + 1), r.randrange(0, n + 2)]))
    # bounds far out of range are clipped like slice bounds, whatever their size
    HB = [2 ** 100, -(2 ** 100), 2 ** 63, -(2 ** 63) - 1, 2 ** 63 - 1, -(2 ** 63)]
    x0 = chars[0] if chars else ''
    for m in ('meth:find', 'meth:count', 'meth:startswith', 'meth:endswith'):
        out.append((m, [s, x0, r.choice(HB)]))
        out.append((m, [s, x0, r.choice(HB), r.choice(HB)]))
        out.append((m, [s, x0, 0, r.choice(HB)]))
        out.append((m, [s, x0, None, r.choice(HB)]))
    out.append(('meth:find', [s, chars[0] if chars else '', None, None]))
    out.append(('meth:count', [s, chars[0] if chars else '', None]))
    pre = sorted({s[:1], s[:2], s[-1:], s[-2:], s[1:2], '', ab, s})
    for p in pre:
        for m in ('meth:startswith', 'meth:endswith'):
            out.append((m, [s, p]))
            out.append((m, [s, p, r.randrange(-7, 8)]))
            out.append((m, [s, p, r.randrange(0, n + 1)]))
            out.append((m, [s, p, r.randrange(-7, 8), r.randrange(-7, 8)]))
            out.append((m, [s, p, r.randrange(0, n + 1), r.randrange(0, n + 2)]))
    for m in ('meth:startswith', 'meth:endswith'):
        out.append((m, [s, (ab, s[:1]), ]))
        out.append((m, [s, (s[-1:], ab)]))
        out.append((m, [s, ()]))
        out.append((m, [s, s[:1], None]))
    out.append(('meth:split', [s]))
    out.append(('meth:split', [s, None, 1]))
    out.append(('meth:split', [s, None, 0]))
    for sep in chars + subs2[:2] + [ab, '']:
        out.append(('meth:split', [s, sep]))
        out.append(('meth:split', [s, sep, r.choice((0, 1, 2, -1))]))
    parts = [r.choice(ALPHA + ['', 'ab', '\u00e9\u20ac']) for _ in range(3)]
    for k in range(0, 4):
        out.append(('meth:join', [s, parts[:k]]))
    out.append(('meth:join', [s, tuple(parts[:2])]))
    out.append(('meth:join', [s, ''.join(parts)]))
    out.append(('meth:join', [s, [parts[0], 1]]))
    for m in ('meth:strip', 'meth:lstrip', 'meth:rstrip'):
        out.append((m, [s]))
        for ch in sorted({s[:1], s[-1:], s[:1] + s[-1:], ab, ''}):
            out.append((m, [s, ch]))
        out.append((m, [s, None]))
    for old in chars + subs2[:2] + ['', ab]:
        for new in ('', 'x', '\u00e9\u20ac', old + old):
            out.append(('meth:replace', [s, old, new]))
            out.append(('meth:replace', [s, old, new, r.choice((0, 1, 2, -1))]))
    others = [s, s + 'a', s[:-1], s[:-1] + ab, ab + s[1:], s[:-1] + '\U0010ffff', s[:-1] + '\uffff', s[:-1] + '\x7f']
    for t in others:
        for op in ('lt', 'le', 'eq', 'ne', 'gt', 'ge'):
            out.append((op, [s, t]))
    for k in (0, 1, 2, 3, -1, True, Big(2)):
        out.append(('mul', [s, k]))
    out.append(('add', [s, ab]))
    out.append(('add', [s, s]))
    out.append(('add', [ab + '\u20ac', s]))
    if n == 1:
        out.append(('call:ord', [s]))
    if n in (0, 2):
        out.append(('call:ord', [s]))
    if not full:
        r.shuffle(out)
        out = out[:22]
    return core + out


def strings(tier, r):
    """(subject string, full?) pairs."""
    res = []
    maxfull = 3
    for n in range(0, maxfull + 1):
        for t in itertools.product(ALPHA, repeat=n):
            res.append((''.join(t), n <= 2))
    if tier == 'quick':
        for _ in range(2500):
            res.append((''.join(r.choice(ALPHA) for _ in range(4)), False))
        for _ in range(600):
            res.append((''.join(r.choice(ALPHA) for _ in range(r.randrange(5, 13))), False))
    else:
        for t in itertools.product(ALPHA, repeat=4):
            res.append((''.join(t), False))
        for _ in range(60000):
            res.append((''.join(r.choice(ALPHA) for _ in range(r.choice((5, 5, 6, 6, 7, 9, 14)))), False))
    return res


def has(v, pred):
    if pred(v):
        return True
    if isinstance(v, (list, tuple)):
        return any(has(x, pred) for x in v)
    return False


def rt_class(v):
    t = type(v).__name__
    if isinstance(v, (list, tuple)):
        tags = []
        if has(v, lambda x: isinstance(x, tuple) and len(x) == 1):
            tags.append('has-1-tuple')
        if has(v, lambda x: isinstance(x, float) and x == 0 and math.copysign(1, x) < 0):
            tags.append('has-negzero')
        return t + ('+' + '+'.join(tags) if tags else '')
    if isinstance(v, float):
        if v == 0 and math.copysign(1, v) < 0:
            return 'float+negzero'
        return 'float'
    if isinstance(v, str):
        return 'str'
    return t


def roundtrip_values(tier, r, strs):
    import c15
    vals = []
    fl = [x for x in c15.float_lattice(tier) if math.isfinite(x)]
    ints = [0, 1, -1, 2 ** 31, -2 ** 31, 2 ** 63 - 1, -2 ** 63, 2 ** 63, 2 ** 64, -2 ** 64 - 1, 10 ** 30, -10 ** 30, True, False, None]
    vals += fl + ints
    vals += [bytes([b]) for b in range(256)] + [b'', bytes(range(256)), b'\'"', b"it's", b'"q"', b'\\x00', b'a\nb']
    for _ in range(300):
        vals.append(bytes(r.randrange(256) for _ in range(r.randrange(2, 8))))
    atoms = fl[:40] + ints + ['a', "'", '"', '\\', '\n', '\x00', '\u00e9', '\u20ac', '\U0001f600', '\u0085', b'\x00\xff', b"'"]
    vals += [(), [], (()), ((),), [()], [[]], ([],), (1,), ('a',), (1.5,), ((1,),), [(1,)], (1, 2), [1], [1, 2], (1, (2, 3)), ((1, 2), [3, (4,)]), (b'x',), ('\U0001f600',)]
    def build(d):
        if d == 0 or r.random() < 0.35:
            return r.choice(atoms)
        k = r.choice((0, 1, 2, 2, 3))
        items = [build(d - 1) for _ in range(k)]
        return tuple(items) if r.random() < 0.5 else items
    for _ in range(1500 if tier == 'quick' else 20000):
        v = build(3)
        if isinstance(v, (list, tuple)):
            vals.append(v)
    for a in atoms:
        vals.append((a,))
        vals.append([a])
        vals.append((a, a))
    return vals


# repr of a container after an EARLIER repr of the same object failed part way (an item whose __repr__ raises or returns a non-string, removed afterwards): nothing of the failed attempt may stay behind, repr / str / eval round trip as for a fresh value
REPR_HISTORY_PROG = 'class Bad:\n    def __repr__(self):\n        raise ValueError("no repr")\nclass Odd:\n    def __repr__(self):\n        return 5\ndef attempt(label, f):\n    try:\n        f()\n        print(label, "no error")\n    except ValueError:\n        print(label, "ValueError")\n    except TypeError:\n        print(label, "TypeError")\ndef show(label, x):\n    r = repr(x)\n    print(label, r, str(x) == r, eval(r) == x)\nL = ["zé\\U0001f600\\x00", b"\\x00\\xff", (1, 2.5), [3, "q\'"], 7, -0.0]\nT = (1, "a", [2])\nD = {"k": [1, 2]}\nfor bad in (Bad(), Odd()):\n    L.append(bad)\n    attempt("list", lambda: repr(L))\n    attempt("list-str", lambda: str(L))\n    attempt("nested", lambda: repr([1, (L,)]))\n    del L[-1]\n    show("list-after", L)\n    show("nested-after", [L, (L, 1), {"a": L}])\n    inner = T[2]\n    inner.append(bad)\n    attempt("tuple", lambda: repr(T))\n    del inner[-1]\n    show("tuple-after", T)\n    D["bad"] = bad\n    attempt("dict", lambda: repr(D))\n    del D["bad"]\n    show("dict-after", D)\n    show("all-after", [L, T, D, (L, T, D)])\n'


def directed_program_check(rep, nontriv):
    case = {'id': 'repr-after-failed-repr', 'src': REPR_HISTORY_PROG}
    e = common.oracle_exec([case]).get(case['id']) or {}
    g = (run_vrun('exec', [case], timeout_case=30)[0]).get(case['id'])
    if g is None or e.get('oracle_failed') or e.get('exc') or e.get('cerr'):
        rep.inconc('repr-after-failed-repr program: no result / oracle failed')
        return 0
    el, gl = (e.get('out') or '').split('\n')[:-1], (g.get('out') or '').split('\n')
    for k, x in enumerate(el):
        rep.evaluations += 1
        nontriv.add(('repr-after-failed-repr', k))
        y = gl[k] if k < len(gl) else None
        if x != y:
            rep.violation('C14|repr-after-failed-repr|%s|%s' % (x.split(' ')[0], 'panic' if g.get('panic') or g.get('crash') else ('escaped:%s' % g.get('exc') if y is None and g.get('exc') else 'wrong-result')),
                          {'case': case, 'expected': x, 'got': y, 'exc': g.get('exc'), 'excmsg': g.get('excmsg'), 'panic': g.get('panic')})
            break
    return len(el)


def run(tier, rep):
    import gc
    gc.disable()
    r = rng(PID)
    # ---------------- canary + method probe ----------------
    can = [('len', ['abc'], canon(3)), ('getitem', ['abc', 1], canon('b')), ('meth:find', ['abc', 'c'], canon(2)), ('call:ord', ['a'], canon(97)), ('iterlist', ['ab'], canon(['a', 'b']))]
    cc = [{'id': 'k%d' % i, 'op': op, 'args': [enc(a) for a in args]} for i, (op, args, _) in enumerate(can)]
    probe = [{'id': 'm' + m, 'op': 'meth:' + m, 'args': [enc('a')] + {'find': [enc('a')], 'count': [enc('a')], 'startswith': [enc('a')], 'endswith': [enc('a')], 'join': [enc(['x'])],
                                                                     'replace': [enc('a'), enc('b')]}.get(m, [])} for m in METHODS]
    cres, _ = run_vrun('api', cc + probe, workers=1)
    for c, (op, args, want) in zip(cc, can):
        if outcome(cres.get(c['id'])) != ('val', want):
            rep.broke('canary %s failed: %s' % (op, short(cres.get(c['id']))))
            return
    missing = [m for m in METHODS if outcome(cres.get('m' + m))[0] == 'exc' and cres['m' + m]['exc'] == 'AttributeError']
    if missing:
        # a method that exists today disappeared: that is not "a missing feature" any more
        rep.broke('str methods named by the property are gone: %s' % missing)
        return
    # ---------------- string operations, one batch per subject string ----------------
    subjects = strings(tier, r)
    batches, binfo = [], {}
    nops = 0
    for i, (s, full) in enumerate(subjects):
        ops = ops_for(s, r, full)
        bid = 'b%d' % i
        batches.append({'id': bid, 'cases': [{'op': op, 'args': [enc(a) for a in args]} for op, args in ops]})
        binfo[bid] = ops
        nops += len(ops)
    # chr over the code-point space boundaries (one batch)
    cps = sorted({ord(c) for c in ALPHA} | {0, 1, 0x7f, 0x80, 0xff, 0x100, 0x7ff, 0x800, 0xfffd, 0xffff, 0x10000, 0x10ffff, 0x110000, 0x110001, -1, -2, 2 ** 31 - 1})
    ops = [('call:chr', [c]) for c in cps] + [('call:ord', [chr(c)]) for c in cps if 0 <= c <= 0x10ffff]
    batches.append({'id': 'bchr', 'cases': [{'op': op, 'args': [enc(a) for a in args]} for op, args in ops]})
    binfo['bchr'] = ops
    # round trips
    rvals = roundtrip_values(tier, r, subjects)
    rt = [s for s, _ in subjects] + rvals
    for j in range(0, len(rt), 200):
        chunk = rt[j:j + 200]
        bid = 'r%d' % j
        batches.append({'id': bid, 'cases': [{'op': 'reprevalrt', 'args': [enc(v)]} for v in chunk]})
        binfo[bid] = [('reprevalrt', [v]) for v in chunk]
    res, _ = run_vrun('apibatch', batches, timeout_case=60)
    nontriv = set()
    samples = []
    clean = {}
    rt_ok = 0
    for b in batches:
        g = res.get(b['id'])
        ops = binfo[b['id']]
        if g is None or g.get('timeout') or g.get('wall_timeout'):
            rep.inconc('batch %s: no result' % b['id'])
            continue
        if g.get('crash') or g.get('harness_panic') or 'results' not in g:
            rep.violation('C14|batch|panic', {'case': b['id'], 'got': short(g)})
            continue
        for (op, args), sub, gr in zip(ops, b['cases'], g['results']):
            o = outcome(gr)
            if o[0] in ('none', 'timeout'):
                rep.inconc('no result: %s %s' % (op, short(args, 80)))
                continue
            rep.evaluations += 1
            wcase = dict(sub)
            wcase['id'] = 'w'
            if op == 'reprevalrt':
                x = args[0]
                cls = rt_class(x)
                witness = {'case': wcase, 'vrun_mode': 'api', 'value': short(repr(x)), 'got': short(o if o[0] != 'val' else ('val', show(o[1])))}
                nontriv.add(('rt', repr(x)))
                ck = ('roundtrip', cls)
                bad = True
                if o[0] == 'panic':
                    rep.violation('C14|roundtrip|%s|panic' % cls, witness)
                elif o[0] == 'exc':
                    rep.violation('C14|roundtrip|%s|exc:%s' % (cls, o[1]), witness)
                elif o[1][0] != 'tuple' or len(o[1][1]) != 2:
                    rep.violation('C14|roundtrip|%s|harness-shape' % cls, witness)
                elif o[1][1][1] != canon(x):
                    rep.violation('C14|roundtrip|%s|not-equal' % cls, witness)
                else:
                    bad = False
                    rt_ok += 1
                c_ = clean.setdefault(ck, [0, 0])
                c_[1 if bad else 0] += 1
                continue
            exp = py_eval(op, args)
            nontriv.add((op, repr(args)))
            witness = {'case': wcase, 'vrun_mode': 'api', 'op': op, 'operands': short([ascii(a) if isinstance(a, str) else repr(a) for a in args]),
                       'expected': short(exp if exp[0] != 'val' else ('val', show(exp[1]))), 'got': short(o if o[0] != 'val' else ('val', show(o[1])))}
            ck = (op, argform(op, args), 'nonascii' if any(nonascii(a) for a in args) else 'ascii')
            bad = True
            if o[0] == 'panic':
                rep.violation(sig(op, args, 'panic'), witness)
            elif exp[0] == 'exc':
                if o[0] == 'exc' and o[1] == exp[1]:
                    bad = False
                elif o[0] == 'exc':
                    rep.violation(sig(op, args, 'wrong-exc:%s-for-%s' % (o[1], exp[1])), witness)
                else:
                    rep.violation(sig(op, args, 'value-instead-of-exc:%s' % exp[1]), witness)
            elif o[0] == 'exc':
                rep.violation(sig(op, args, 'exc-instead-of-value:%s' % o[1]), witness)
            elif o[1] != exp[1]:
                rep.violation(sig(op, args, 'wrong-value'), witness)
            else:
                bad = False
            after = gr.get('after')
            if after is not None and not bad and any(canon(a) != dec(x) for a, x in zip(args, after)):
                rep.violation(sig(op, args, 'operand-changed'), witness)
                bad = True
            c_ = clean.setdefault(ck, [0, 0])
            c_[1 if bad else 0] += 1
            if not bad and len(samples) < 6 and r.random() < 0.00005 and any(nonascii(a) for a in args):
                samples.append({'op': op, 'operands': witness['operands'], 'result': witness['got']})
    # ---------------- compiled-source variant ----------------
    progs, pinfo = [], {}
    pool = [s for s, _ in subjects if 1 <= len(s) <= 4]
    r.shuffle(pool)
    EXN = ['IndexError', 'ValueError', 'TypeError', 'OverflowError']

    def slit(s):
        return "'" + ''.join(c if ' ' <= c <= '~' and c not in "\\'" else '\\U%08x' % ord(c) for c in s) + "'"

    def alit(a):
        if isinstance(a, str):
            return slit(a)
        if isinstance(a, Sl):
            return None
        if isinstance(a, tuple):
            return '(' + ''.join(alit(x) + ', ' for x in a) + ')'
        if isinstance(a, list):
            return '[' + ', '.join(alit(x) for x in a) + ']'
        if isinstance(a, Big):
            return str(a.v)
        return repr(a)
    SHOWS = ('def show(r):\n    if isinstance(r, str):\n        print("str")\n        for x in r:\n            print(ord(x))\n    elif isinstance(r, list):\n        print("list")\n        for e in r:\n            show(e)\n'
             '    else:\n        print("int")\n        print(r + 0)\n    print("end")\n')

    def lines(c):
        if c[0] == 'str':
            return ['str'] + [str(x) for x in c[1]] + ['end']
        if c[0] == 'list':
            return ['list'] + [l for e in c[1] for l in lines(e)] + ['end']
        return ['int', str(int(c[1])), 'end']
    for s in pool[:(400 if tier == 'quick' else 4000)]:
        ops = ops_for(s, r, False)[:10]
        for op, args in ops:
            if any(isinstance(a, (Big, bool)) or a is None for a in args[1:]):
                continue
            exp = py_eval(op, args)
            if op.startswith('meth:'):
                expr = '%s.%s(%s)' % (slit(s), op[5:], ', '.join(alit(a) for a in args[1:]))
            elif op == 'getitem':
                k = args[1]
                if isinstance(k, Sl):
                    a, b, c = k.a
                    expr = '%s[%s:%s%s]' % (slit(s), '' if a is None else a, '' if b is None else b, '' if c is None else ':%d' % c)
                else:
                    expr = '%s[%d]' % (slit(s), k)
            elif op == 'len':
                expr = 'len(%s)' % slit(s)
            elif op == 'iterlist':
                expr = '[x for x in %s]' % slit(s)
            elif op == 'contains':
                expr = '1 if %s in %s else 0' % (alit(args[1]), slit(s))
            elif op in ('lt', 'le', 'eq', 'ne', 'gt', 'ge'):
                expr = '1 if %s %s %s else 0' % (slit(s), {'lt': '<', 'le': '<=', 'eq': '==', 'ne': '!=', 'gt': '>', 'ge': '>='}[op], slit(args[1]))
            elif op == 'mul':
                expr = '%s * %d' % (slit(s), args[1])
            elif op == 'add':
                expr = '%s + %s' % (slit(args[0]), slit(args[1]))
            elif op == 'call:ord':
                expr = 'ord(%s)' % slit(s)
            else:
                continue
            want = exp[1] if exp[0] == 'exc' else '\n'.join(lines(exp[1] if exp[1][0] != 'bool' else ('int', int(exp[1][1]))))
            pid_ = 's%d' % len(progs)
            progs.append({'id': pid_, 'src': SHOWS + 'try:\n    show(%s)\n' % expr + ''.join('except %s:\n    print("%s")\n' % (e, e) for e in EXN)})
            pinfo[pid_] = (op, args, want + '\n', expr)
    por = common.oracle_exec(progs)
    pres, _ = run_vrun('exec', progs, timeout_case=20)
    src_dis = 0
    for p in progs:
        op, args, want, expr = pinfo[p['id']]
        o = por.get(p['id'], {})
        if o.get('out') != want or o.get('exc'):
            src_dis += 1
            if src_dis <= 3:
                rep.extra.setdefault('oracle_disagreement_samples', []).append({'expr': expr, 'api_oracle': want, 'cpython_exec': short(o)})
            continue
        g = pres.get(p['id'])
        if g is None or g.get('timeout'):
            rep.inconc('source program: no result: %s' % expr)
            continue
        rep.evaluations += 1
        nontriv.add(('src', expr))
        witness = {'case': p, 'vrun_mode': 'exec', 'expr': expr, 'expected': want, 'got': {k: short(v) for k, v in g.items() if k in ('out', 'exc', 'excmsg', 'cerr', 'panic')}}
        if g.get('panic') or g.get('crash'):
            rep.violation(sig(op, args, 'panic', 'src'), witness)
        elif g.get('exc') or g.get('cerr'):
            rep.violation(sig(op, args, 'uncaught:%s' % (g.get('exc') or g.get('cerr')), 'src'), witness)
        elif g.get('out') != want:
            go_, wa = g.get('out', '').strip(), want.strip()
            if go_ in EXN and wa not in EXN:
                dev = 'exc-instead-of-value:' + go_
            elif wa in EXN and go_ not in EXN:
                dev = 'value-instead-of-exc:' + wa
            elif wa in EXN:
                dev = 'wrong-exc:%s-for-%s' % (go_, wa)
            else:
                dev = 'wrong-value'
            rep.violation(sig(op, args, dev, 'src'), witness)
    directed_program_check(rep, nontriv)
    rep.nontrivial = nontriv
    rep.samples = samples + ([{'source_program': progs[0]['src'][len(SHOWS):]}] if progs else [])
    rep.extra.update({'subject_strings': len(subjects), 'string_op_instances': nops, 'roundtrip_values': len(rt), 'roundtrips_equal': rt_ok, 'source_programs': len(progs), 'oracle_disagreement_src': src_dis,
                      'op_arg_classes': len(clean), 'op_arg_classes_without_a_clean_case': sorted('|'.join(k) for k, v in clean.items() if v[0] == 0)[:80],
                      'str_methods_probed_present': METHODS})
    rep.rule = ('every string of length 0..3 over the 16-character alphabet {a, b, e-acute, euro sign, U+1F600, U+FFFD, U+0161 (low byte = "a"), U+001F (white space for Python, not for Unicode), \', ", \\, newline, NUL, space, U+00A0, U+0085} (lengths 0..2 with every operation instance, '
                'length 3 and the seeded sample of lengths 4..12 with 22 seeded instances each%s) x {len, every index, slices, iteration, in, find/count with start/end over -7..7, startswith/endswith with start/end and tuples, '
                'split with/without sep and maxsplit, join, strip/lstrip/rstrip with/without chars, replace with/without count, six comparisons, +, *, ord, chr}; repr->compile(eval)->run round trip of every subject string, '
                'bytes 0..255, boundary ints, finite floats of the C15 lattice, nested tuples/lists incl. () and 1-tuples. distinct non-trivial = distinct (operation, operands) judged + distinct round-trip values + distinct source expressions'
                % ('' if tier == 'quick' else '; thorough: all strings of length 4, 60000 sampled of length 5..14'))
    rep.assumptions = ['CPython %s str semantics are the reference; only the exception type is compared' % '.'.join(map(str, __import__('sys').version_info[:3])),
                       'inf/nan are excluded from the round trip (repr(inf) does not evaluate in CPython either); lone surrogates are excluded (not representable in a Go string)',
                       'only str methods present in gpython and named by the property are exercised: %s' % METHODS]
