"""C17 - lists, dicts and sets match a reference model over any history.

Monitor: generated programs operate on a pool of three variables a, b, c (aliases of each other and copies made by
constructor / slice / `+` / comprehension), one operation per step, each wrapped in a chain of except clauses that
prints the exception type; after every step the state of EVERY pool member is printed in a normalised form (list
element-wise, dict items and set members sorted).  Oracle: CPython executing the same text.

Only operations that gpython provides are generated (probed 2026-09: list [i] [i:j:k] get/set/del append extend
sort(key=,reverse=) + += * *= in len iter == != list(x); dict [k] get/set/del in len get keys values items == dict(x)
comprehension; set add in len iter == != set(x) | & - ^ and their augmented forms).  Not generated because absent in
gpython (missing feature, not a violation): list < <= pop insert remove index count reverse clear copy, dict
update/pop/setdefault/clear/copy, set remove/discard/update/pop/clear/copy/subset tests, sorting of tuples.
"""
import itertools
import common
from common import rng, run_vrun, oracle_exec, short

PID = 'C17'

PRELUDE = '''def neg(x):
    return -x
def mod3(x):
    return x % 3
def sl(n, x):
    s = ''
    for e in x:
        s = s + str(e) + ' '
    print('=' + n, len(x), s)
def sd(n, x):
    s = ''
    for k in sorted(x.keys()):
        s = s + k + ':' + str(x[k]) + ' '
    print('=' + n, len(x), s)
def ss(n, x):
    s = ''
    for e in sorted(x):
        s = s + str(e) + ' '
    print('=' + n, len(x), s)
def it_grow(x, y):
    n = 0
    for e in x:
        n = n + 1
        if len(y) < 7:
            y.append(e + 10)
    print('it', n)
def it_del0(x, y):
    n = 0
    for e in x:
        n = n + 1
        del y[0]
    print('it', n)
def it_dellast(x, y):
    s = ''
    for e in x:
        s = s + str(e) + ' '
        del y[-1]
    print('it', s)
def it_set(x, y):
    s = ''
    i = 0
    for e in x:
        s = s + str(e) + ' '
        y[i] = e + 1
        i = i + 1
    print('it', s)
def it_slice(x, y):
    s = ''
    for e in x:
        s = s + str(e) + ' '
        y[0:1] = []
    print('it', s)
def it_two(x):
    s = ''
    i1 = iter(x)
    i2 = iter(x)
    for e in i1:
        s = s + str(e) + ' '
        x.append(0)
        if len(x) > 6:
            break
    for e in i2:
        s = s + str(e) + ' '
    print('it', s)
def kwcopy(**kw):
    return kw
def g_fail(n):
    for i in range(n):
        yield 20 + i
    raise ValueError
def g_watch(x, n):
    for i in range(n):
        yield len(x)
SEEN = set()
SEENL = []
def k_set(x):
    SEEN.add(x)
    return -x
def k_list(x):
    SEENL.append(x)
    return x
def mk_k_other(y):
    def k(x):
        if len(y) < 8:
            y.append(x)
        return x
    return k
def mk_k_idem(y):
    def k(x):
        if len(y) > 0:
            y[0] = 99
        return -x
    return k
'''

EXC_CHAIN = ''.join('    except %s:\n        print("!%s")\n' % (e, e) for e in ('IndexError', 'KeyError', 'ValueError', 'TypeError'))

VARS = ('a', 'b', 'c')


# ------------------------------------------------------------------------------------------------
# operation alphabets.  An op is (tag, statement text, target var or None, mutating?, risky?)
# 'risky' marks op classes that currently hit a recorded gpython defect (see known_findings); random
# histories are drawn from the clean alphabet most of the time so that a known finding never masks the rest.

def slc(s):
    """class suffix for a step-1 slice text whose start lies beyond its stop (an empty slice at position start)"""
    return '-reversed-bounds' if s in ('3:1', '-1:-3') else ''


def list_ops(full):
    ops = []

    def add(tag, stmt, tgt=None, mut=True, risky=False):
        ops.append((tag, stmt, tgt, mut, risky))
    vs = VARS
    idx = (0, 1, -1, 3) if not full else (0, 1, 2, -1, -2, 3, -4, 5)
    for x in vs if full else ('a', 'b'):
        for i in idx if full else (0, -1, 3):
            add('setitem', '%s[%d] = 7' % (x, i), x)
    for x in vs if full else ('a', 'c'):
        for i in idx if full else (0, -1, 4):
            add('delitem', 'del %s[%d]' % (x, i), x)
    sl1 = ['1:2', ':1', '2:', ':', '1:1', '3:1'] if not full else ['1:2', ':1', '2:', ':', '1:1', '3:1', '-2:', ':-1', '5:', '0:0', '-1:-3', '1:9']
    slk = ['::2', '1::2'] if not full else ['::2', '1::2', '::3', '0:3:2', '::1', '-1::1']
    slneg = ['::-1'] if not full else ['::-1', '::-2', '2::-1', '-1:0:-1']
    for x in vs if full else ('a',):
        for s in sl1:
            add('setslice' + slc(s), '%s[%s] = [7, 8]' % (x, s), x, True, slc(s) != '')
            if full:
                add('setslice' + slc(s), '%s[%s] = []' % (x, s), x, True, slc(s) != '')
                add('setslice-tuple' + slc(s), '%s[%s] = (7,)' % (x, s), x, True, slc(s) != '')
            for y in vs if full else ('a', 'c'):
                add('setslice-var' + slc(s), '%s[%s] = %s' % (x, s, y), x, True, y == x or slc(s) != '')
        for s in slk:
            add('setslice-step', '%s[%s] = [7, 8]' % (x, s), x)
            add('setslice-step', '%s[%s] = [7]' % (x, s), x)
            if full:
                add('setslice-step-var', '%s[%s] = %s' % (x, s, 'c' if x != 'c' else 'a'), x)
                add('setslice-step-var', '%s[%s] = %s' % (x, s, x), x, True, True)
        for s in slneg:
            add('setslice-negstep', '%s[%s] = [7, 8, 9]' % (x, s), x, True, True)
            add('setslice-negstep', '%s[%s] = [7, 8]' % (x, s), x, True, True)
    for x in vs if full else ('b',):
        for s in (sl1 if full else ['1:', ':1', '3:1']):
            add('delslice' + slc(s), 'del %s[%s]' % (x, s), x, True, slc(s) != '')
        for s in slk:
            add('delslice-step', 'del %s[%s]' % (x, s), x)
        for s in slneg:
            add('delslice-negstep', 'del %s[%s]' % (x, s), x, True, True)
    for x in vs:
        add('append', '%s.append(4)' % x, x)
        if full:
            add('append', '%s.append(0)' % x, x)
    for x in vs if full else ('a',):
        for y in vs if full else ('b', 'c'):
            add('extend-var', '%s.extend(%s)' % (x, y), x)
        add('extend-list', '%s.extend([5, 6])' % x, x)
        # an iterable that fails part way leaves what it produced so far in the list; one that looks at the list sees it grow item by item
        add('extend-failing-iterable', '%s.extend(g_fail(2))' % x, x)
        add('extend-observing-iterable', '%s.extend(g_watch(%s, 3))' % (x, x), x)
        add('iadd-failing-iterable', '%s += g_fail(2)' % x, x)
        add('iadd-observing-iterable', '%s += g_watch(%s, 2)' % (x, x), x)
        add('setslice-failing-iterable', '%s[1:2] = g_fail(2)' % x, x)
        add('setslice-observing-iterable', '%s[0:1] = g_watch(%s, 2)' % (x, x), x)
        add('extend-nonlist', '%s.extend((5, 6))' % x, x, True, True)
        if full:
            add('extend-nonlist', '%s.extend(range(2))' % x, x, True, True)
            add('extend-nonlist', '%s.extend(iter([5]))' % x, x, True, True)
            add('extend-slice-of-self', '%s.extend(%s[:2])' % (x, x), x)
    for x in vs if full else ('a', 'b'):
        add('sort', '%s.sort()' % x, x)
        add('sort-reverse', '%s.sort(reverse=True)' % x, x)
        add('sort-key', '%s.sort(key=neg)' % x, x)
        if full:
            add('sort-key-reverse', '%s.sort(key=mod3, reverse=True)' % x, x)
            add('sort-key', '%s.sort(key=mod3)' % x, x)
            add('sort-reverse', '%s.sort(reverse=False)' % x, x)
    # key functions with side effects: idempotent ones are clean, call-count-sensitive ones are a separate class
    add('sort-key-effect-idempotent', 'a.sort(key=k_set); print(len(a) < 2 or len(SEEN))', 'a')
    add('sort-key-effect-counted', 'a.sort(key=k_list); print(len(SEENL))', 'a', True, True)
    if full:
        for x, y in (('a', 'c'), ('c', 'a'), ('b', 'c')):
            add('sort-key-mutates-other-idempotent', 'if %s is not %s and len(%s) > 1: %s.sort(key=mk_k_idem(%s))' % (x, y, x, x, y), x)
            add('sort-key-mutates-other-counted', 'if %s is not %s: %s.sort(key=mk_k_other(%s))' % (x, y, x, y), x, True, True)
    for x in vs if full else ('a',):
        for y in vs if full else ('a', 'c'):
            add('iadd-var', '%s += %s' % (x, y), x)
        add('iadd-list', '%s += [5]' % x, x)
        add('iadd-nonlist', '%s += (5, 6)' % x, x, True, True)
    for x in vs if full else ('b',):
        for n in (2, 0) if not full else (2, 0, 1, -1, 3):
            add('imul', '%s *= %d' % (x, n), x, True, True)
    for x in vs if full else ('c',):
        for y in vs if full else ('a',):
            add('rebind-add', '%s = %s + %s' % (x, y, x), x)
            add('rebind-mul', '%s = %s * 2' % (x, y), x)
            if full:
                add('rebind-mul', '%s = 2 * %s' % (x, y), x)
                add('rebind-mul', '%s = %s * 0' % (x, y), x)
    for x, y in itertools.permutations(vs, 2) if full else (('c', 'a'), ('b', 'c')):
        add('rebind-alias', '%s = %s' % (x, y), x)
    for x, y in itertools.product(vs, vs) if full else (('b', 'a'), ('c', 'c'), ('a', 'a')):
        add('rebind-copy-slice', '%s = %s[:]' % (x, y), x)
        add('rebind-copy-ctor', '%s = list(%s)' % (x, y), x)
        if full:
            add('rebind-copy-add', '%s = %s + []' % (x, y), x)
            add('rebind-copy-add', '%s = [] + %s' % (x, y), x)
            add('rebind-copy-comp', '%s = [e for e in %s]' % (x, y), x)
            add('rebind-copy-mul', '%s = %s * 1' % (x, y), x)
            add('rebind-slice', '%s = %s[1:]' % (x, y), x)
            add('rebind-slice', '%s = %s[:2]' % (x, y), x)
            add('rebind-slice', '%s = %s[::2]' % (x, y), x)
            add('rebind-slice', '%s = %s[::-1]' % (x, y), x)
    if full:
        for x in vs:
            add('rebind-literal', '%s = [3, 1, 2]' % x, x)
            add('rebind-literal', '%s = []' % x, x)
    # mutation during the list's own iteration
    pairs = [('a', 'a'), ('a', 'b'), ('c', 'c')] if not full else list(itertools.product(vs, vs))
    for x, y in pairs:
        add('iter-grow', 'it_grow(%s, %s)' % (x, y), y)
        add('iter-del-front', 'it_del0(%s, %s)' % (x, y), y)
        if full:
            add('iter-del-back', 'it_dellast(%s, %s)' % (x, y), y)
            add('iter-setitem', 'it_set(%s, %s)' % (x, y), y)
            add('iter-setslice', 'it_slice(%s, %s)' % (x, y), y)
    for x in vs if full else ('a',):
        add('iter-two-iterators', 'it_two(%s)' % x, x)
    # observations
    for x in vs if full else ('a', 'c'):
        add('obs-in', 'print(2 in %s, 7 in %s, 4 not in %s)' % (x, x, x), None, False)
        for i in (1, -1, 3) if not full else (0, 1, -1, 3, -4):
            add('obs-getitem', 'print(%s[%d])' % (x, i), None, False)
        add('obs-len', 'print(len(%s))' % x, None, False)
    for x, y in (('a', 'b'), ('a', 'c'), ('b', 'c')):
        add('obs-eq', 'print(%s == %s, %s != %s, %s is %s)' % (x, y, x, y, x, y), None, False)
    if full:
        for x in vs:
            add('obs-slice', 'sl("t", %s[::2]); sl("t", %s[1:]); sl("t", %s[::-1])' % (x, x, x), None, False)
            add('obs-eq', 'print(%s == %s[:], %s[:] is %s)' % (x, x, x, x), None, False)
    return ops


KEYS = ('k0', 'k1', 'k2')


def dict_ops(full):
    ops = []

    def add(tag, stmt, tgt=None, mut=True, risky=False):
        ops.append((tag, stmt, tgt, mut, risky))
    vs = VARS
    for x in vs if full else ('a', 'c'):
        for k in KEYS if full else ('k0', 'k2'):
            add('setitem', '%s["%s"] = 7' % (x, k), x)
            add('delitem', 'del %s["%s"]' % (x, k), x)
        if full:
            add('setitem', '%s["k1"] = 8' % x, x)
            add('setitem-computed-key', '%s["k" + str(len(%s))] = len(%s)' % (x, x, x), x)
    for x in vs if full else ('b',):
        for k in ('k0', 'k2') if not full else KEYS:
            add('obs-getitem', 'print(%s["%s"])' % (x, k), None, False)
            add('obs-in', 'print("%s" in %s, "%s" not in %s)' % (k, x, k, x), None, False)
            add('obs-get', 'print(%s.get("%s"), %s.get("%s", 5))' % (x, k, x, k), None, False)
        add('obs-len', 'print(len(%s))' % x, None, False)
        add('obs-values', 'print(sorted(%s.values()), sorted(%s.keys()), sorted(%s))' % (x, x, x), None, False)
        add('obs-items', 'print(sorted([v for k, v in %s.items()]), sorted([k for k, v in %s.items()]))' % (x, x), None, False)
    for x, y in (('a', 'b'), ('a', 'c'), ('b', 'c')):
        add('obs-eq', 'print(%s == %s, %s != %s)' % (x, y, x, y), None, False)
        add('obs-is', 'print(%s is %s, %s is not %s)' % (x, y, x, y), None, False, True)
    for x, y in itertools.permutations(vs, 2) if full else (('c', 'a'), ('b', 'c')):
        add('rebind-alias', '%s = %s' % (x, y), x)
    for x, y in itertools.product(vs, vs) if full else (('b', 'a'), ('c', 'c')):
        add('rebind-copy-ctor', '%s = dict(%s)' % (x, y), x, True, True)
        add('rebind-copy-ctor-items', '%s = dict(%s.items())' % (x, y), x)
        add('rebind-copy-comp', '%s = {k: v for k, v in %s.items()}' % (x, y), x)
        # every spelling of 'a new dict with the same items': through ** in the call, through ** with further keywords, through a function
        add('rebind-copy-ctor-starstar', '%s = dict(**%s)' % (x, y), x)
        add('rebind-copy-ctor-starstar-kw', '%s = dict(%s, **{"k9": 9})' % (x, y), x)
        add('rebind-copy-through-call', '%s = kwcopy(**%s)' % (x, y), x)
        if full:
            add('rebind-copy-comp', '%s = {k: %s[k] for k in %s}' % (x, y, y), x)
            add('rebind-copy-ctor-pairs', '%s = dict([(k, %s[k]) for k in %s.keys()])' % (x, y, y), x)
            add('rebind-comp-filter', '%s = {k: v + 1 for k, v in %s.items() if k != "k1"}' % (x, y), x)
    for x in vs if full else ('a',):
        add('rebind-literal', '%s = {"k0": 1, "k2": 3}' % x, x)
        add('rebind-literal', '%s = {}' % x, x)
        if full:
            add('rebind-ctor-kw', '%s = dict(k0=4, k1=5)' % x, x)
            add('rebind-ctor-empty', '%s = dict()' % x, x)
    # bulk mutation over a snapshot of the keys (never mutating during live iteration)
    for x, y in (('a', 'c'), ('c', 'a'), ('a', 'a')) if not full else itertools.product(vs, vs):
        add('merge-loop', 'for k in sorted(%s.keys()): %s[k] = %s[k] + 1' % (y, x, y), x)
    for x in vs if full else ('b',):
        add('clear-loop', 'for k in sorted(%s): del %s[k]' % (x, x), x)
        add('clear-loop-list', 'for k in list(%s.keys()): del %s[k]' % (x, x), x)
    return ops


def set_ops(full, strs):
    ops = []

    def add(tag, stmt, tgt=None, mut=True, risky=False):
        ops.append((tag, stmt, tgt, mut, risky))
    vs = VARS
    if strs:
        el = ['"x"', '"y"', '"zz"', '""']
        lit = '{"x", "q"}'
        comp = 'e + "x"'
    else:
        el = ['1', '4', '0', '-1']
        lit = '{1, 9}'
        comp = 'e + 1'
    for x in vs if full else ('a', 'c'):
        for v in el if full else el[:2]:
            add('add', '%s.add(%s)' % (x, v), x)
    for x in vs if full else ('b',):
        for v in el if full else el[:2]:
            add('obs-in', 'print(%s in %s, %s not in %s)' % (v, x, v, x), None, False)
        add('obs-len', 'print(len(%s))' % x, None, False)
        add('obs-iter', 'n = 0\n        for e in %s: n = n + 1\n        print(n)' % x, None, False)
    for x, y in (('a', 'b'), ('a', 'c'), ('b', 'c')):
        add('obs-eq', 'print(%s == %s, %s != %s, %s is %s)' % (x, y, x, y, x, y), None, False)
    for x, y in itertools.permutations(vs, 2) if full else (('c', 'a'), ('b', 'c')):
        add('rebind-alias', '%s = %s' % (x, y), x)
    for x, y in itertools.product(vs, vs) if full else (('b', 'a'), ('c', 'c')):
        add('rebind-copy-ctor', '%s = set(%s)' % (x, y), x)
        add('rebind-copy-comp', '%s = {e for e in %s}' % (x, y), x)
        if full:
            add('rebind-comp-map', '%s = {%s for e in %s}' % (x, comp, y), x)
            add('rebind-copy-ctor-list', '%s = set(sorted(%s))' % (x, y), x)
            add('rebind-copy-or', '%s = %s | set()' % (x, y), x)
    for x in vs if full else ('a',):
        add('rebind-literal', '%s = %s' % (x, lit), x)
        add('rebind-empty', '%s = set()' % x, x)
    trip = [('c', 'a', 'c'), ('a', 'a', 'c'), ('b', 'c', 'c')] if not full else list(itertools.product(vs, vs, vs))
    for x, y, z in trip:
        for sym, nm in (('|', 'or'), ('&', 'and'), ('-', 'sub'), ('^', 'xor')):
            add('rebind-' + nm, '%s = %s %s %s' % (x, y, sym, z), x)
    for x, y in (('a', 'c'), ('b', 'b')) if not full else itertools.product(vs, vs):
        for sym, nm in (('|', 'ior'), ('&', 'iand'), ('-', 'isub'), ('^', 'ixor')):
            # augmented assignment on a set must mutate in place (visible through aliases)
            add(nm, '%s %s= %s' % (x, sym, y), x, True, True)
    if not strs:
        # equal-but-not-identical members: arbitrary-precision ints built twice, bool/int equivalence
        for x in vs if full else ('a',):
            add('add-bigint', '%s.add(1 << 70)' % x, x, True, True)
            add('add-bigint', '%s.add((1 << 69) * 2)' % x, x, True, True)
            add('add-bool', '%s.add(True)' % x, x, True, True)
            add('obs-in-bigint', 'print((1 << 70) in %s, (1 << 71) in %s)' % (x, x), None, False, True)
            add('obs-in-bool', 'print(True in %s, False in %s)' % (x, x), None, False, True)
    for x in vs if full else ('b',):
        add('union-loop', 'for e in sorted(%s): %s.add(e)' % ('c' if x != 'c' else 'a', x), x)
        add('grow-loop-snapshot', 'for e in sorted(%s): %s.add(%s)' % (x, x, comp), x)
    return ops


SHOW = {'list': 'sl', 'dict': 'sd', 'set': 'ss', 'sets': 'ss'}

LIST_INITS = [
    ['a = [1, 2, 3]', 'b = a', 'c = a[:]'],
    ['a = [3, 1, 2]', 'b = a', 'c = list(a)'],
    ['a = [2, 2, 1, 3]', 'b = a', 'c = a + []'],
    ['a = [1, 2, 3, 4, 5]', 'b = a', 'c = [e for e in a]'],
    ['a = [5, 1]', 'b = a', 'c = a * 1'],
    ['a = []', 'b = a', 'c = [1, 2]'],
    ['a = [1, 2, 3]', 'b = a[:2]', 'c = b'],
    ['a = [1, 2, 3, 4]', 'b = a[1:3]', 'c = a[::2]'],
]
DICT_INITS = [
    ['a = {"k0": 1, "k1": 2}', 'b = a', 'c = {k: v for k, v in a.items()}'],
    ['a = {"k0": 1}', 'b = a', 'c = dict(a.items())'],
    ['a = {}', 'b = a', 'c = {"k2": 3}'],
    ['a = {"k0": 1, "k1": 2, "k2": 3}', 'b = {k: a[k] for k in a}', 'c = b'],
]
SET_INITS = [
    ['a = {1, 2, 3}', 'b = a', 'c = set(a)'],
    ['a = {1}', 'b = a', 'c = {e for e in a}'],
    ['a = set()', 'b = a', 'c = {4, 0}'],
    ['a = {0, 1, 2, 3, 4}', 'b = set(a)', 'c = b'],
]
SETS_INITS = [
    ['a = {"x", "y"}', 'b = a', 'c = set(a)'],
    ['a = set()', 'b = a', 'c = {"zz"}'],
    ['a = {"x"}', 'b = {e for e in a}', 'c = b'],
]
INITS = {'list': LIST_INITS, 'dict': DICT_INITS, 'set': SET_INITS, 'sets': SETS_INITS}


def render_history(hid, kind, init, ops):
    """One history -> python text (all inside one try so that an unexpected exception cannot take later histories down)."""
    sh = SHOW[kind]
    show = '%s("a", a); %s("b", b); %s("c", c)' % (sh, sh, sh)
    if kind != 'dict':   # `is` on two dicts currently panics in gpython (recorded finding); dict identity is observed by the obs-is op only
        show += '; print("=i", a is b, a is c, b is c)'
    out = ['print("#h", %d)\n' % hid, 'try:\n', '    SEEN = set()\n    SEENL = []\n']
    for st in init:
        out.append('    ' + st + '\n')
    out.append('    print("@", 0)\n    ' + show + '\n')
    for k, op in enumerate(ops):
        out.append('    print("@", %d)\n    try:\n        %s\n%s    %s\n' % (k + 1, op[1], EXC_CHAIN, show))
    out.append('except Exception:\n    print("!!ESCAPED")\n')
    return ''.join(out)


def split_hist(out):
    """stdout of a program -> {hid: [[lines of step0], [lines of step1], ...]}"""
    res = {}
    cur = None
    for line in out.split('\n'):
        if line.startswith('#h '):
            cur = []
            try:
                res[int(line[3:])] = cur
            except ValueError:
                cur = None
        elif cur is not None:
            if line.startswith('@ '):
                cur.append([])
            elif cur:
                cur[-1].append(line)
            elif line:
                cur.append([line])
    return res


def classify(op, exp, got):
    """class of deviation for one step; exp/got are the step's line lists"""
    e_exc = [l for l in exp if l.startswith('!')]
    g_exc = [l for l in got if l.startswith('!')]
    if e_exc != g_exc:
        if g_exc and g_exc[0] == '!!ESCAPED':
            return 'escaped-exception'
        return 'exc:%s-for-%s' % (g_exc[0][1:] if g_exc else 'none', e_exc[0][1:] if e_exc else 'none')
    e_obs = [l for l in exp if not l.startswith('=') and not l.startswith('!')]
    g_obs = [l for l in got if not l.startswith('=') and not l.startswith('!')]
    e_st = {l[1:2]: l for l in exp if l.startswith('=') and not l.startswith('=t')}
    g_st = {l[1:2]: l for l in got if l.startswith('=') and not l.startswith('=t')}
    tgt = op[2]
    parts = []
    if e_obs != g_obs or [l for l in exp if l.startswith('=t')] != [l for l in got if l.startswith('=t')]:
        parts.append('observation')
    if e_st.get('i') != g_st.get('i'):
        return 'identity'
    bad = sorted(v for v in VARS if e_st.get(v) != g_st.get(v))
    if tgt in bad:
        parts.append('state')
    elif bad:
        parts.append('state-of-other')
    return '+'.join(parts) or 'output'


def self_suffix(op, prev_lines):
    """'-self' when the statement names one pool variable twice or two variables that are aliases at that point
    (alias relation read from the reference run's identity line of the previous step)"""
    import re
    if op[2] is None:
        return ''
    names = re.findall(r'\b[abc]\b', re.sub(r'^if [^:]*: ', '', op[1]))
    if len(names) < 2:
        return ''
    if len(set(names)) < len(names):
        return '-self'
    ident = [l for l in prev_lines if l.startswith('=i ')]
    if ident:
        f = ident[0].split()[1:]
        rel = {('a', 'b'): f[0], ('a', 'c'): f[1], ('b', 'c'): f[2]}
        for (x, y), v in rel.items():
            if v == 'True' and x in names and y in names:
                return '-self'
    return ''


CANARY = [
    'print(1)\nprint("a", 2)\n',
    PRELUDE + 'sl("a", [1, 2])\nsd("d", {"k": 1})\nss("s", {2, 1})\n',
    PRELUDE + 'try:\n    [][1]\nexcept IndexError:\n    print("!IndexError")\n',
    PRELUDE + 'try:\n    {}["k"]\nexcept IndexError:\n    print("no")\nexcept KeyError:\n    print("!KeyError")\n',
    PRELUDE + 'a = [1]\nb = a\nprint(a is b, a == b, len(a), 1 in a, str(5) + " ")\n',
    PRELUDE + 'try:\n    try:\n        x = undefined_name\n    except KeyError:\n        print("no")\nexcept Exception:\n    print("!!ESCAPED")\n',
    PRELUDE + 'a = [3, 1, 2]\na.sort(key=neg)\nsl("a", a)\nit_grow(a, [])\n',
]


def run(tier, rep):
    r = rng(PID)
    quick = tier == 'quick'
    # ---- canary ----
    can = [{'id': 'can%d' % i, 'src': s} for i, s in enumerate(CANARY)]
    cg, _ = run_vrun('exec', can, workers=2)
    co = oracle_exec(can, workers=2)
    for c in can:
        g, o = cg.get(c['id'], {}), co.get(c['id'], {})
        if g.get('out') != o.get('out') or g.get('exc') or o.get('exc') or g.get('cerr') or g.get('panic') or g.get('crash'):
            rep.broke('canary %s disagrees: gpython=%s cpython=%s' % (c['id'], short(g), short(o)))
            return

    alph = {}
    for kind, small, full in (('list', list_ops(False), list_ops(True)), ('dict', dict_ops(False), dict_ops(True)),
                              ('set', set_ops(False, False), set_ops(True, False)), ('sets', set_ops(False, True), set_ops(True, True))):
        alph[kind] = (small, full)

    histories = []   # (kind, init, ops, family)

    def exhaustive(kind, ops, maxlen, cap=None, stream=''):
        inits = INITS[kind]
        n = 0
        seqs = []
        for ln in range(1, maxlen + 1):
            for seq in itertools.product(ops, repeat=ln):
                seqs.append(seq)
        if cap is not None and len(seqs) > cap:
            rr = rng(PID, 'cap' + kind + stream)
            short_ = [s for s in seqs if len(s) < maxlen]
            long_ = [s for s in seqs if len(s) == maxlen]
            rr.shuffle(long_)
            seqs = short_ + long_[:max(0, cap - len(short_))]
        for seq in seqs:
            histories.append((kind, inits[n % len(inits)], list(seq), 'exhaustive'))
            n += 1

    def pick_small(kind, n, stream):
        """deterministic sub-alphabet of n ops from the small alphabet covering every tag at least once where possible"""
        small = alph[kind][0]
        rr = rng(PID, 'small' + kind + stream)
        bytag = {}
        for op in small:
            bytag.setdefault(op[0], []).append(op)
        chosen = []
        tags = sorted(bytag)
        rr.shuffle(tags)
        for t in tags:
            if len(chosen) < n:
                chosen.append(rr.choice(bytag[t]))
        rest = [op for op in small if op not in chosen]
        rr.shuffle(rest)
        chosen += rest[:max(0, n - len(chosen))]
        return chosen

    if quick:
        # length <= 2 exhaustive over the whole small alphabet, length 3 exhaustive over a sub-alphabet
        exhaustive('list', alph['list'][0], 2)
        exhaustive('list', pick_small('list', 17, 'q'), 3)
        exhaustive('dict', alph['dict'][0], 2)
        exhaustive('dict', pick_small('dict', 10, 'q'), 3)
        exhaustive('set', alph['set'][0], 2)
        exhaustive('set', pick_small('set', 9, 'q'), 3)
        exhaustive('sets', pick_small('sets', 12, 'q'), 2)
        nrand = {'list': 3200, 'dict': 900, 'set': 700, 'sets': 300}
    else:
        exhaustive('list', alph['list'][0], 3, cap=300000)
        exhaustive('dict', alph['dict'][0], 3, cap=60000)
        exhaustive('set', alph['set'][0], 3, cap=60000)
        exhaustive('sets', alph['sets'][0], 3, cap=15000)
        exhaustive('list', alph['list'][1], 2, cap=40000, stream='full')
        nrand = {'list': 60000, 'dict': 12000, 'set': 12000, 'sets': 4000}
    for kind in ('list', 'dict', 'set', 'sets'):
        full = alph[kind][1]
        clean = [op for op in full if not op[4]]
        rr = rng(PID, 'rand' + kind)
        for i in range(nrand[kind]):
            ln = rr.randrange(4, 13)
            pool = clean if rr.random() < 0.75 else full
            seq = [rr.choice(pool) for _ in range(ln)]
            init = list(rr.choice(INITS[kind]))
            histories.append((kind, init, seq, 'random-clean' if pool is clean else 'random-full'))

    # ---- batch into programs ----
    per = 16
    progs = []
    pmeta = {}
    # histories using an op that currently PANICS (`is` on two dicts) go last, one per program, so that the recovered panic
    # cannot take the other histories of a batch with it
    histories.sort(key=lambda h: any(h[0] == 'dict' and op[0] == 'obs-is' for op in h[2]))
    nbatch = sum(1 for h in histories if not any(h[0] == 'dict' and op[0] == 'obs-is' for op in h[2]))
    starts = list(range(0, nbatch, per)) + list(range(nbatch, len(histories)))
    for n_, i in enumerate(starts):
        chunk = histories[i:min(i + per, nbatch)] if i < nbatch else histories[i:i + 1]
        src = PRELUDE + ''.join(render_history(i + j, h[0], h[1], h[2]) for j, h in enumerate(chunk))
        pid_ = 'p%d' % n_
        progs.append({'id': pid_, 'src': src})
        pmeta[pid_] = (i, len(chunk))
    got, _ = run_vrun('exec', progs, timeout_case=60)
    exp = oracle_exec(progs)

    nontriv = set()
    tags_clean = {}
    tags_seen = {}
    judged = 0
    first_div_steps = 0
    for p in progs:
        g, o = got.get(p['id']), exp.get(p['id'])
        base, n = pmeta[p['id']]
        if o is None or o.get('oracle_failed') or o.get('exc') or o.get('cerr'):
            rep.inconc('oracle problem on %s: %s' % (p['id'], short(o)))
            continue
        if g is None or g.get('timeout') or g.get('wall_timeout'):
            rep.inconc('timeout/no result on %s' % p['id'])
            continue
        if g.get('panic') or g.get('crash') or g.get('harness_panic'):
            # attribute to the history that was running: last '#h' marker printed
            gh = split_hist(g.get('out', ''))
            last = max(gh) if gh else base
            h = histories[last] if base <= last < base + n else histories[base]
            rep.violation('C17|%s|panic' % h[0], {'case': {'id': 'w', 'src': PRELUDE + render_history(0, h[0], h[1], h[2])}, 'got': {k: short(v) for k, v in g.items() if k in ('panic', 'stack', 'crash', 'log_tail')}})
            continue
        if g.get('cerr') or g.get('exc'):
            rep.violation('C17|program|abnormal:%s' % (g.get('cerr') or g.get('exc')), {'case': p, 'got': {k: short(v) for k, v in g.items()}})
            continue
        gh = split_hist(g.get('out', ''))
        oh = split_hist(o.get('out', ''))
        for hid in range(base, base + n):
            kind, init, ops, fam = histories[hid]
            es, gs = oh.get(hid), gh.get(hid)
            if es is None:
                rep.inconc('oracle output lacks history %d' % hid)
                continue
            judged += 1
            opkey = (kind, tuple(op[1] for op in ops))
            if len(ops) >= 2 and any(op[3] for op in ops):
                nontriv.add(opkey)
            clean_hist = not any(op[4] for op in ops)
            for op in ops:
                tags_seen[kind + ':' + op[0]] = tags_seen.get(kind + ':' + op[0], 0) + 1
                if clean_hist:
                    tags_clean[kind + ':' + op[0]] = tags_clean.get(kind + ':' + op[0], 0) + 1
            if gs is None:
                gs = []
            if es == gs:
                continue
            # first diverging step
            k = 0
            while k < len(es) and k < len(gs) and es[k] == gs[k]:
                k += 1
            first_div_steps += 1
            if k == 0:
                sig = 'C17|%s|op=init|%s' % (kind, classify(('init', '', None), es[0] if es else [], gs[0] if gs else []))
                opd = 'init'
            elif k - 1 < len(ops):
                op = ops[k - 1]
                e_l = es[k] if k < len(es) else []
                g_l = gs[k] if k < len(gs) else []
                taint = sorted(set(o2[0][4:] for o2 in ops[:k - 1] if o2[0] in ('add-bigint', 'add-bool')))
                sig = 'C17|%s|%sop=%s%s|%s' % (kind, 'members=%s|' % '+'.join(taint) if taint else '', op[0], self_suffix(op, es[k - 1]), classify(op, e_l, g_l))
                opd = op[1]
            else:
                sig = 'C17|%s|op=?|trailing-output' % kind
                opd = '?'
            rep.violation(sig, {'case': {'id': 'w', 'src': PRELUDE + render_history(0, kind, init, ops[:k] if k else [])},
                                'history': init + [op[1] for op in ops], 'first_diverging_step': k, 'op': opd, 'family': fam,
                                'expected': es[k] if k < len(es) else None, 'got': gs[k] if k < len(gs) else None})
    rep.evaluations += judged
    rep.nontrivial = nontriv
    # every op tag that is not itself risky must have been exercised by clean histories
    all_tags = set()
    for kind in alph:
        for op in alph[kind][1] if not quick else alph[kind][0]:
            if not op[4]:
                all_tags.add(kind + ':' + op[0])
    missing = sorted(t for t in all_tags if tags_clean.get(t, 0) == 0)
    if missing:
        rep.broke('op classes never exercised by a clean (known-defect-free) history: %s' % missing[:8])
    rep.rule = ('histories over a pool a,b,c (alias / copy by slice, list(), +[], comprehension, *1); exhaustive sequences of length <=2 over the small alphabet and '
                'length 3 over a sub-alphabet (quick) / the small alphabet (thorough), plus seeded random histories of length 4..12 over the full alphabet '
                '(75% drawn from ops free of recorded defects). distinct non-trivial = distinct (kind, op sequence) with >=2 steps of which >=1 mutates')
    ex = [h for h in histories if h[3] == 'exhaustive']
    rep.samples = [{'kind': h[0], 'history': h[1] + [op[1] for op in h[2]]} for h in (histories[7], histories[len(ex) // 2], histories[len(ex) + 3], histories[-1])]
    rep.extra = {'programs': len(progs), 'histories': len(histories), 'exhaustive_histories': len(ex), 'random_histories': len(histories) - len(ex),
                 'steps_total': sum(len(h[2]) for h in histories), 'alphabet_sizes': {k: [len(v[0]), len(v[1])] for k, v in alph.items()},
                 'op_classes_seen': len(tags_seen), 'op_classes_seen_in_clean_histories': len(tags_clean), 'histories_diverging': first_div_steps}
    rep.assumptions = ['CPython 3.11 list/dict/set semantics are the reference; only int elements in lists (total order), string keys in dicts, all-int or all-str sets',
                       'behaviour of mutating the list being sorted from its own key function is documented as undefined and is not generated (key functions mutate other containers only, guarded by `is not`)',
                       'dict/set mutation during live iteration is not generated (snapshots via sorted()/list())']
