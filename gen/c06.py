"""C06 - parsing yields exactly the tree the Python 3.4 grammar assigns.
Monitor: vrun parse -> ast.Dump(parser.ParseString(text, mode)) or the error type.
Acceptance oracle: the generator builds the tree FIRST (as a 3.4-style dump) and renders text from it with seeded spelling
variation; second oracle = CPython's ast converted to the 3.4 dump shape (a case is judged only if both agree).
Literal values: literals in many spellings are compiled in eval mode and their VALUE compared (code points / bits) with CPython.
Rejection oracle: by-construction invalid texts that CPython rejects too, and single-token mutations of valid programs judged
by the one-sided rule 'CPython rejects and the feature filter passes => gpython must reject'."""
import re as _re
import ast, re, json, itertools, struct
import common
from common import rng

PID = 'C06'

# ------------------------------------------------------------------------------------------------------------
# CPython (3.8+) AST  ->  Python 3.4 ast.dump text


def d34(n):
    if n is None:
        return 'None'
    if isinstance(n, list):
        return '[' + ', '.join(d34(x) for x in n) + ']'
    if isinstance(n, str):
        return repr(n)
    if isinstance(n, (int, float, complex, bytes, bool)):
        return repr(n)
    t = type(n).__name__
    f = lambda **kw: '%s(%s)' % (t, ', '.join('%s=%s' % (k, v) for k, v in kw.items()))
    if t == 'Constant':
        v = n.value
        if v is None or v is True or v is False:
            return 'NameConstant(value=%r)' % v
        if v is Ellipsis:
            return 'Ellipsis()'
        if isinstance(v, str):
            return 'Str(s=%r)' % v
        if isinstance(v, bytes):
            return 'Bytes(s=%r)' % v
        return 'Num(n=%r)' % v
    if t == 'Module':
        return 'Module(body=%s)' % d34(n.body)
    if t == 'Interactive':
        return 'Interactive(body=%s)' % d34(n.body)
    if t == 'Expression':
        return 'Expression(body=%s)' % d34(n.body)
    if t == 'arguments':
        if n.posonlyargs:
            raise Unsupported('posonly')
        return 'arguments(args=%s, vararg=%s, kwonlyargs=%s, kw_defaults=%s, kwarg=%s, defaults=%s)' % (d34(n.args), d34(n.vararg), d34(n.kwonlyargs), d34(n.kw_defaults), d34(n.kwarg), d34(n.defaults))
    if t == 'arg':
        return 'arg(arg=%r, annotation=%s)' % (n.arg, d34(n.annotation))
    if t == 'Call':
        args, star = [], None
        for a in n.args:
            if isinstance(a, ast.Starred):
                if star is not None:
                    raise Unsupported('two *args')
                star = a.value
            else:
                if star is not None:
                    raise Unsupported('positional after *args')
                args.append(a)
        kws, kw = [], None
        for k in n.keywords:
            if k.arg is None:
                if kw is not None:
                    raise Unsupported('two **kwargs')
                kw = k.value
            else:
                if kw is not None:
                    raise Unsupported('keyword after **kwargs')
                kws.append(k)
        return 'Call(func=%s, args=%s, keywords=%s, starargs=%s, kwargs=%s)' % (d34(n.func), d34(args), d34(kws), d34(star), d34(kw))
    if t == 'ClassDef':
        bases, star = [], None
        for a in n.bases:
            if isinstance(a, ast.Starred):
                if star is not None:
                    raise Unsupported('two *')
                star = a.value
            else:
                if star is not None:
                    raise Unsupported('base after *')
                bases.append(a)
        kws, kw = [], None
        for k in n.keywords:
            if k.arg is None:
                if kw is not None:
                    raise Unsupported('two **')
                kw = k.value
            else:
                kws.append(k)
        return 'ClassDef(name=%r, bases=%s, keywords=%s, starargs=%s, kwargs=%s, body=%s, decorator_list=%s)' % (n.name, d34(bases), d34(kws), d34(star), d34(kw), d34(n.body), d34(n.decorator_list))
    if t == 'Subscript':
        return 'Subscript(value=%s, slice=%s, ctx=%s)' % (d34(n.value), slice34(n.slice), d34(n.ctx))
    if t == 'FunctionDef':
        return 'FunctionDef(name=%r, args=%s, body=%s, decorator_list=%s, returns=%s)' % (n.name, d34(n.args), d34(n.body), d34(n.decorator_list), d34(n.returns))
    if t == 'comprehension':
        if n.is_async:
            raise Unsupported('async comp')
        return 'comprehension(target=%s, iter=%s, ifs=%s)' % (d34(n.target), d34(n.iter), d34(n.ifs))
    if t == 'Assign':
        return 'Assign(targets=%s, value=%s)' % (d34(n.targets), d34(n.value))
    if t == 'For':
        return 'For(target=%s, iter=%s, body=%s, orelse=%s)' % (d34(n.target), d34(n.iter), d34(n.body), d34(n.orelse))
    if t == 'With':
        return 'With(items=%s, body=%s)' % (d34(n.items), d34(n.body))
    if t == 'Dict':
        if any(k is None for k in n.keys):
            raise Unsupported('dict unpack')
    if t in ('List', 'Tuple', 'Set') and any(isinstance(e, ast.Starred) for e in n.elts) and isinstance(getattr(n, 'ctx', ast.Load()), ast.Load):
        raise Unsupported('display unpack')
    if t in ('AnnAssign', 'JoinedStr', 'FormattedValue', 'Await', 'AsyncFunctionDef', 'AsyncFor', 'AsyncWith', 'NamedExpr', 'MatMult', 'Match', 'TryStar'):
        raise Unsupported(t)
    fields = [(k, getattr(n, k)) for k in n._fields if k not in ('type_comment', 'kind', 'type_ignores')]
    return '%s(%s)' % (t, ', '.join('%s=%s' % (k, d34(v)) for k, v in fields))


def slice34(s):
    if isinstance(s, ast.Slice):
        return 'Slice(lower=%s, upper=%s, step=%s)' % (d34(s.lower), d34(s.upper), d34(s.step))
    if isinstance(s, ast.Tuple) and any(isinstance(e, ast.Slice) for e in s.elts):
        return 'ExtSlice(dims=[%s])' % ', '.join(slice34(e) for e in s.elts)
    return 'Index(value=%s)' % d34(s)


class Unsupported(Exception):
    pass


def cpython_dump(text, mode):
    """('ok', dump34) | ('reject', exc) | ('unsupported', why)"""
    try:
        import warnings
        with warnings.catch_warnings():
            warnings.simplefilter('ignore')
            tree = ast.parse(text, '<c>', mode)
    except (SyntaxError, ValueError, MemoryError, RecursionError, OverflowError) as e:
        return ('reject', type(e).__name__)
    try:
        return ('ok', d34(tree))
    except Unsupported as e:
        return ('unsupported', str(e))
    except RecursionError:
        return ('unsupported', 'recursion')

# ------------------------------------------------------------------------------------------------------------
# generator: builds (text, dump, precedence) bottom-up


class E:
    __slots__ = ('t', 'd', 'p', 'kind')

    def __init__(self, t, d, p, kind=''):
        self.t, self.d, self.p, self.kind = t, d, p, kind


BINOPS = [('+', 'Add', 11), ('-', 'Sub', 11), ('*', 'Mult', 12), ('/', 'Div', 12), ('//', 'FloorDiv', 12), ('%', 'Mod', 12), ('<<', 'LShift', 10), ('>>', 'RShift', 10), ('&', 'BitAnd', 9), ('^', 'BitXor', 8), ('|', 'BitOr', 7)]
CMPOPS = [('<', 'Lt'), ('>', 'Gt'), ('==', 'Eq'), ('>=', 'GtE'), ('<=', 'LtE'), ('!=', 'NotEq'), ('in', 'In'), ('not in', 'NotIn'), ('is', 'Is'), ('is not', 'IsNot')]
AUGOPS = [('+=', 'Add'), ('-=', 'Sub'), ('*=', 'Mult'), ('/=', 'Div'), ('//=', 'FloorDiv'), ('%=', 'Mod'), ('**=', 'Pow'), ('<<=', 'LShift'), ('>>=', 'RShift'), ('&=', 'BitAnd'), ('^=', 'BitXor'), ('|=', 'BitOr')]
NAMES = ['a', 'b', 'c', 'x', 'y', 'foo', 'bar_1', 'Z', '_q', 'ifx', 'nota', 'is_', 'None_', 'lambda_', 'e1',
         # identifiers with letters beyond ASCII (all NFKC-stable), among them ones whose ASCII part spells a reserved word
         'not\u00e9', 'or\u00e9', 'pass\u00e9', 'for\u00eat', 'in\u00e9', 'import\u00e9', 'is\u00df', 'caf\u00e9', '\u00e9if', '\u5909\u6570', '\u00dcn\u00ef', 'x\u03b1', '\u03bb', 'None\u00e9', 'def\u00e4']


class G:
    def __init__(self, r):
        self.r = r
        self.features = set()

    def sp(self):
        """optional whitespace between tokens"""
        k = self.r.randrange(12)
        return '' if k < 8 else (' ' if k < 10 else ('  ' if k == 10 else '\t'))

    def sp1(self):
        """mandatory whitespace"""
        return self.r.choice([' ', ' ', ' ', '  ', '\t', ' \t '])

    def spl(self, left, kw):
        """white space between the text of an expression and a following keyword: needed only where the two would otherwise read as one
        token.  `(a)if`, `'s'else`, `x[0]in` and a decimal integer directly followed by a keyword (`1if`, `0else`, `2and`) are legal
        spellings (the tokenizer gives back the `e` of `1else`); `0or` / `0x..` / `0b..` would start a base prefix, so those keep the space."""
        if self.r.random() < 0.3:
            last = left[-1]
            if last in ')]}\'"':
                self.features.add('keyword-abutting')
                return ''
            m = _re.search(r'(?<![\w.])(\d+)$', left)
            if m and not (m.group(1)[0] == '0' and kw[0] in 'oxbOXB') and kw[0] != 'j':
                self.features.add('number-abutting-keyword')
                return ''
        return self.sp1()

    def spr(self, right):
        """white space between a keyword and the text of the following expression"""
        if self.r.random() < 0.3 and right[0] in '([{\'"-+~':
            self.features.add('keyword-abutting')
            return ''
        return self.sp1()

    def paren(self, e, minp, force=False):
        r = self.r
        if e.p < minp or force or (r.random() < 0.12 and e.kind != 'starred' and e.kind != 'yield'):
            self.features.add('parens')
            inner = e.t
            if r.random() < 0.15:
                inner = '\n ' + inner + '\n'   # implicit line joining inside brackets
                self.features.add('bracket-joining')
            if r.random() < 0.3:
                return E('(' + self.sp() + inner + self.sp() + ')', e.d, 15)
            return E('(' + inner + ')', e.d, 15)
        return e

    def name(self, ctx='Load'):
        n = self.r.choice(NAMES)
        return E(n, "Name(id='%s', ctx=%s())" % (n, ctx), 15, 'name')

    def num(self):
        r = self.r
        v = r.choice([0, 1, 2, 7, 10, 255, 4096, 123456789])
        k = r.randrange(6)
        if k == 0 and v:
            t = hex(v)
        elif k == 1 and v:
            t = oct(v)
        elif k == 2 and v:
            t = bin(v)
        elif k == 3:
            t = '0X%X' % v
        else:
            t = str(v)
        if k < 4:
            self.features.add('int-spelling')
        return E(t, 'Num(n=%d)' % v, 15, 'num')

    def string(self):
        r = self.r
        val = r.choice(['a', 'ab', 'abc', 'xyz', ''])
        parts = []
        pieces = [val] if r.random() < 0.75 or not val else [val[:1], val[1:]]
        if len(pieces) > 1:
            self.features.add('adjacent-strings')
        for pc in pieces:
            q = r.choice(["'", '"', "'''", '"""'])
            pre = r.choice(['', '', '', 'r', 'u', 'R', 'U'])
            units = list(pc)
            if pre.lower() != 'r' and pc and r.random() < 0.4:
                # spell characters with escapes that denote the same plain letters
                units = []
                for ch in pc:
                    k = r.randrange(5)
                    o = ord(ch)
                    units.append(ch if k == 0 else ('\\x%02x' % o if k == 1 else ('\\%03o' % o if k == 2 else ('\\u%04x' % o if k == 3 else '\\U%08x' % o))))
                self.features.add('string-escapes')
            if len(q) == 3 and r.random() < 0.3 and pre.lower() != 'r':
                units.insert(r.randrange(len(units) + 1), '\\\n')   # backslash-newline inside a (non-raw) string is dropped
                self.features.add('string-continuation')
            body = ''.join(units)
            parts.append(pre + q + body + q)
        return E(self.sp1().join(parts) if len(parts) > 1 else parts[0], 'Str(s=%r)' % val, 15, 'str')

    def atom(self):
        r = self.r
        k = r.randrange(12)
        if k < 5:
            return self.name()
        if k < 8:
            return self.num()
        if k == 8:
            return self.string()
        if k == 9:
            v = r.choice(['None', 'True', 'False'])
            return E(v, 'NameConstant(value=%s)' % v, 15, 'const')
        if k == 10:
            return E('...', 'Ellipsis()', 15, 'const')
        b = r.choice(['a', 'xy'])
        return E(r.choice(['b', 'B', 'br', 'rb', 'Rb']) + "'" + b + "'", "Bytes(s=b'%s')" % b, 15, 'bytes')

    def expr(self, depth):
        r = self.r
        if depth <= 0 or r.random() < 0.18:
            return self.atom()
        k = r.randrange(22)
        d = depth - 1
        if k < 4:
            op, nm, p = r.choice(BINOPS)
            l = self.paren(self.expr(d), p)
            rr = self.paren(self.expr(d), p + 1)
            self.features.add('binop')
            return E(l.t + self.sp() + op + self.sp() + rr.t, 'BinOp(left=%s, op=%s(), right=%s)' % (l.d, nm, rr.d), p)
        if k == 4:
            l = self.paren(self.expr(d), 15)
            rr = self.paren(self.expr(d), 13)
            self.features.add('pow')
            return E(l.t + self.sp() + '**' + self.sp() + rr.t, 'BinOp(left=%s, op=Pow(), right=%s)' % (l.d, rr.d), 14)
        if k == 5:
            op, nm = r.choice([('-', 'USub'), ('+', 'UAdd'), ('~', 'Invert')])
            o = self.paren(self.expr(d), 13)
            self.features.add('unary')
            return E(op + self.sp() + o.t, 'UnaryOp(op=%s(), operand=%s)' % (nm, o.d), 13)
        if k == 6:
            o = self.paren(self.expr(d), 5)
            self.features.add('not')
            return E('not' + self.spr(o.t) + o.t, 'UnaryOp(op=Not(), operand=%s)' % o.d, 5)
        if k == 7:
            n = r.choice([2, 2, 3])
            op, nm, p = r.choice([('and', 'And', 4), ('or', 'Or', 3)])
            vals = [self.paren(self.expr(d), p + 1) for _ in range(n)]
            self.features.add('boolop')
            txt = vals[0].t
            for v in vals[1:]:
                txt += self.spl(txt, op) + op + self.spr(v.t) + v.t
            return E(txt, 'BoolOp(op=%s(), values=[%s])' % (nm, ', '.join(v.d for v in vals)), p)
        if k in (8, 9):
            n = r.choice([1, 1, 2, 3])
            left = self.paren(self.expr(d), 7)
            ops, comps, txt = [], [], left.t
            for _ in range(n):
                op, nm = r.choice(CMPOPS)
                c = self.paren(self.expr(d), 7)
                ops.append(nm + '()')
                comps.append(c.d)
                opt = op if ' ' not in op else op.replace(' ', self.sp1())
                txt += (self.spl(txt, op) if op[0].isalpha() else self.sp()) + opt + (self.spr(c.t) if op[-1].isalpha() else self.sp()) + c.t
            self.features.add('compare-chain' if n > 1 else 'compare')
            return E(txt, 'Compare(left=%s, ops=[%s], comparators=[%s])' % (left.d, ', '.join(ops), ', '.join(comps)), 6)
        if k == 10:
            body = self.paren(self.expr(d), 3)
            test = self.paren(self.expr(d), 3)
            orelse = self.paren(self.expr(d), 1)
            self.features.add('ifexp')
            return E(body.t + self.spl(body.t, 'if') + 'if' + self.spr(test.t) + test.t + self.spl(test.t, 'else') + 'else' + self.spr(orelse.t) + orelse.t, 'IfExp(test=%s, body=%s, orelse=%s)' % (test.d, body.d, orelse.d), 2)
        if k == 11:
            a, ad = self.arguments(d, lam=True)
            body = self.paren(self.expr(d), 1)
            self.features.add('lambda')
            return E('lambda' + (self.sp1() + a if a else '') + self.sp() + ':' + self.sp() + body.t, 'Lambda(args=%s, body=%s)' % (ad, body.d), 1)
        if k == 12:
            v = self.paren(self.expr(d), 15)
            if v.kind == 'num' and v.t[-1].isalnum():
                v = self.paren(v, 99, force=True)
            n = r.choice(NAMES)
            self.features.add('attribute')
            return E(v.t + self.sp() + '.' + self.sp() + n, "Attribute(value=%s, attr='%s', ctx=Load())" % (v.d, n), 15)
        if k == 13:
            v = self.paren(self.expr(d), 15)
            st, sd = self.subscript(d)
            self.features.add('subscript')
            return E(v.t + self.sp() + '[' + self.sp() + st + self.sp() + ']', 'Subscript(value=%s, slice=%s, ctx=Load())' % (v.d, sd), 15)
        if k in (14, 15):
            return self.call(d)
        if k == 16:
            n = r.randrange(4)
            elts = [self.paren(self.expr(d), 1) for _ in range(n)]
            kind = r.choice(['list', 'tuple', 'set'])
            tc = ',' if (n and r.random() < 0.3) else ''
            inner = (self.sp() + ',' + self.sp()).join(e.t for e in elts)
            self.features.add('display-' + kind)
            if kind == 'list':
                return E('[' + inner + tc + ']', 'List(elts=[%s], ctx=Load())' % ', '.join(e.d for e in elts), 15)
            if kind == 'tuple':
                if n == 1:
                    tc = ','
                return E('(' + inner + tc + ')', 'Tuple(elts=[%s], ctx=Load())' % ', '.join(e.d for e in elts), 15)
            if n == 0:
                return E('{' + self.sp() + '}', 'Dict(keys=[], values=[])', 15)
            return E('{' + inner + tc + '}', 'Set(elts=[%s])' % ', '.join(e.d for e in elts), 15)
        if k == 17:
            n = r.randrange(1, 3)
            ks = [self.paren(self.expr(d), 1) for _ in range(n)]
            vs = [self.paren(self.expr(d), 1) for _ in range(n)]
            tc = ',' if r.random() < 0.3 else ''
            self.features.add('display-dict')
            return E('{' + (',' + self.sp()).join(a.t + self.sp() + ':' + self.sp() + b.t for a, b in zip(ks, vs)) + tc + '}', 'Dict(keys=[%s], values=[%s])' % (', '.join(a.d for a in ks), ', '.join(b.d for b in vs)), 15)
        if k in (18, 19):
            return self.comprehension(d)
        return self.atom()

    def subscript(self, d):
        r = self.r

        def one():
            if r.random() < 0.45:
                e = self.paren(self.expr(d), 1)
                return e.t, 'Index(value=%s)' % e.d, e
            lo = self.paren(self.expr(d), 1) if r.random() < 0.5 else None
            hi = self.paren(self.expr(d), 1) if r.random() < 0.5 else None
            st = None
            txt = (lo.t if lo else '') + self.sp() + ':' + self.sp() + (hi.t if hi else '')
            if r.random() < 0.4:
                st = self.paren(self.expr(d), 1) if r.random() < 0.6 else None
                txt += self.sp() + ':' + self.sp() + (st.t if st else '')
            return txt, 'Slice(lower=%s, upper=%s, step=%s)' % (lo.d if lo else 'None', hi.d if hi else 'None', st.d if st else 'None'), None
        if r.random() < 0.75:
            t, dd, _ = one()
            return t, dd
        items = [one() for _ in range(r.choice([2, 2, 3]))]
        tc = ',' if r.random() < 0.2 else ''
        txt = (self.sp() + ',' + self.sp()).join(i[0] for i in items) + tc
        self.features.add('ext-slice')
        if all(i[2] is not None for i in items):
            return txt, 'Index(value=Tuple(elts=[%s], ctx=Load()))' % ', '.join(i[2].d for i in items)
        return txt, 'ExtSlice(dims=[%s])' % ', '.join(i[1] for i in items)

    def call(self, d):
        r = self.r
        f = self.paren(self.expr(d), 15)
        if f.kind == 'num':
            f = self.name()
        self.features.add('call')
        if r.random() < 0.12:
            g = self.genexp(d, bare=True)
            self.features.add('call-bare-genexp')
            return E(f.t + self.sp() + '(' + g.t + ')', 'Call(func=%s, args=[%s], keywords=[], starargs=None, kwargs=None)' % (f.d, g.d), 15)
        args = [self.paren(self.expr(d), 1) for _ in range(r.randrange(3))]
        kws = []
        for _ in range(r.randrange(3)):
            kn = r.choice(['k', 'key', 'end'])
            kv = self.paren(self.expr(d), 1)
            kws.append((kn, kv))
        star = self.paren(self.expr(d), 1) if r.random() < 0.25 else None
        kw = self.paren(self.expr(d), 1) if r.random() < 0.25 else None
        parts = [a.t for a in args]
        kparts = [kn + self.sp() + '=' + self.sp() + kv.t for kn, kv in kws]
        if star is not None:
            self.features.add('call-star')
            # 3.4: *expr may be followed by keyword arguments; place it before or after them
            if r.random() < 0.5:
                parts += ['*' + self.sp() + star.t] + kparts
            else:
                parts += kparts + ['*' + self.sp() + star.t]
        else:
            parts += kparts
        if kw is not None:
            self.features.add('call-kwargs')
            parts.append('**' + self.sp() + kw.t)
        tc = ',' if (parts and star is None and kw is None and r.random() < 0.25) else ''
        txt = f.t + self.sp() + '(' + self.sp() + (self.sp() + ',' + self.sp()).join(parts) + tc + self.sp() + ')'
        dump = 'Call(func=%s, args=[%s], keywords=[%s], starargs=%s, kwargs=%s)' % (f.d, ', '.join(a.d for a in args), ', '.join("keyword(arg='%s', value=%s)" % (kn, kv.d) for kn, kv in kws), star.d if star else 'None', kw.d if kw else 'None')
        return E(txt, dump, 15)

    def target(self, d, allow_tuple=True):
        """assignment target: (text, dump with Store ctx, is_bare_tuple)"""
        r = self.r
        k = r.randrange(10)
        if k < 5 or d <= 0:
            n = r.choice(NAMES)
            return n, "Name(id='%s', ctx=Store())" % n
        if k == 5:
            v = self.paren(self.expr(d - 1), 15)
            if v.kind == 'num':
                v = self.name()
            n = r.choice(NAMES)
            return v.t + '.' + n, "Attribute(value=%s, attr='%s', ctx=Store())" % (v.d, n)
        if k == 6:
            v = self.paren(self.expr(d - 1), 15)
            if v.kind == 'num':
                v = self.name()
            st, sd = self.subscript(d - 1)
            return v.t + '[' + st + ']', 'Subscript(value=%s, slice=%s, ctx=Store())' % (v.d, sd)
        if not allow_tuple:
            n = r.choice(NAMES)
            return n, "Name(id='%s', ctx=Store())" % n
        n = r.choice([1, 2, 2, 3])
        elts = [self.target(d - 1, allow_tuple=(r.random() < 0.3)) for _ in range(n)]
        # a bare tuple nested in a tuple/list target must be parenthesised
        elts = [(('(' + t + ')') if dd.startswith('Tuple(') and not t.startswith('(') else t, dd) for t, dd in elts]
        starred = r.random() < 0.25
        texts, dumps = [e[0] for e in elts], [e[1] for e in elts]
        if starred:
            i = r.randrange(n)
            if dumps[i].startswith('Name('):
                texts[i] = '*' + texts[i]
                dumps[i] = 'Starred(value=%s, ctx=Store())' % dumps[i]
                self.features.add('starred-target')
        kind = r.choice(['tuple', 'list', 'ptuple'])
        inner = (self.sp() + ',' + self.sp()).join(texts)
        if kind == 'list':
            return '[' + inner + ']', 'List(elts=[%s], ctx=Store())' % ', '.join(dumps)
        tc = ',' if n == 1 else ''
        self.features.add('tuple-target')
        if kind == 'ptuple':
            return '(' + inner + tc + ')', 'Tuple(elts=[%s], ctx=Store())' % ', '.join(dumps)
        return inner + tc, 'Tuple(elts=[%s], ctx=Store())' % ', '.join(dumps)

    def comp_clauses(self, d):
        r = self.r
        txt, dumps = '', []
        for _ in range(r.choice([1, 1, 2])):
            tt, td = self.target(min(d, 1), allow_tuple=True)
            it = self.paren(self.expr(d), 3)
            ifs = []
            txt += self.sp1() + 'for' + self.spr(tt) + tt + self.spl(tt, 'in') + 'in' + self.spr(it.t) + it.t
            for _ in range(r.choice([0, 0, 1, 2])):
                c = self.paren(self.expr(d), 3)
                ifs.append(c.d)
                txt += self.spl(txt, 'if') + 'if' + self.spr(c.t) + c.t
            dumps.append('comprehension(target=%s, iter=%s, ifs=[%s])' % (td, it.d, ', '.join(ifs)))
        return txt, dumps

    def genexp(self, d, bare=False):
        elt = self.paren(self.expr(d), 1)
        ct, cd = self.comp_clauses(d)
        self.features.add('genexp')
        t = elt.t + ct
        return E(t if bare else '(' + t + ')', 'GeneratorExp(elt=%s, generators=[%s])' % (elt.d, ', '.join(cd)), 15)

    def comprehension(self, d):
        r = self.r
        k = r.randrange(4)
        if k == 0:
            return self.genexp(d)
        if k == 3:
            a, b = self.paren(self.expr(d), 1), self.paren(self.expr(d), 1)
            ct, cd = self.comp_clauses(d)
            self.features.add('dictcomp')
            return E('{' + a.t + self.sp() + ':' + self.sp() + b.t + ct + '}', 'DictComp(key=%s, value=%s, generators=[%s])' % (a.d, b.d, ', '.join(cd)), 15)
        elt = self.paren(self.expr(d), 1)
        ct, cd = self.comp_clauses(d)
        self.features.add('listcomp' if k == 1 else 'setcomp')
        if k == 1:
            return E('[' + elt.t + ct + ']', 'ListComp(elt=%s, generators=[%s])' % (elt.d, ', '.join(cd)), 15)
        return E('{' + elt.t + ct + '}', 'SetComp(elt=%s, generators=[%s])' % (elt.d, ', '.join(cd)), 15)

    def arguments(self, d, lam=False):
        """returns (text, dump)"""
        r = self.r
        used = set()

        def pname():
            for _ in range(20):
                n = r.choice(['p', 'q', 's', 't', 'u', 'v', 'w', 'k1', 'k2'])
                if n not in used:
                    used.add(n)
                    return n
            n = 'z%d' % len(used)
            used.add(n)
            return n

        def ann():
            if lam or r.random() < 0.7:
                return '', 'None'
            a = self.paren(self.expr(0), 1)
            self.features.add('annotation')
            return self.sp() + ':' + self.sp() + a.t, a.d
        parts, args, defaults = [], [], []
        npos = r.randrange(3)
        ndef = r.randrange(npos + 1)
        for i in range(npos):
            n = pname()
            at, ad = ann()
            t = n + at
            if i >= npos - ndef:
                dv = self.paren(self.expr(min(d, 1)), 1)
                defaults.append(dv.d)
                t += self.sp() + '=' + self.sp() + dv.t
            args.append("arg(arg='%s', annotation=%s)" % (n, ad))
            parts.append(t)
        vararg, kwonly, kwdef, kwarg = 'None', [], [], 'None'
        k = r.randrange(5)
        if k in (1, 2, 3):
            nkw = r.randrange(3) if k != 3 else r.randrange(1, 3)
            if k == 3:
                parts.append('*')      # bare star needs at least one keyword-only argument
                self.features.add('bare-star')
            else:
                n = pname()
                at, ad = ann()
                parts.append('*' + self.sp() + n + at)
                vararg = "arg(arg='%s', annotation=%s)" % (n, ad)
            for _ in range(nkw):
                n = pname()
                at, ad = ann()
                t = n + at
                if r.random() < 0.5:
                    dv = self.paren(self.expr(min(d, 1)), 1)
                    kwdef.append(dv.d)
                    t += self.sp() + '=' + self.sp() + dv.t
                else:
                    kwdef.append('None')
                kwonly.append("arg(arg='%s', annotation=%s)" % (n, ad))
                parts.append(t)
                self.features.add('kwonly')
        if r.random() < 0.25:
            n = pname()
            at, ad = ann()
            parts.append('**' + self.sp() + n + at)
            kwarg = "arg(arg='%s', annotation=%s)" % (n, ad)
        tc = ''
        if parts and kwarg == 'None' and not parts[-1].startswith('*') and vararg == 'None' and not kwonly and r.random() < 0.2:
            tc = ','
        txt = (self.sp() + ',' + self.sp()).join(parts) + tc
        return txt, 'arguments(args=[%s], vararg=%s, kwonlyargs=[%s], kw_defaults=[%s], kwarg=%s, defaults=[%s])' % (', '.join(args), vararg, ', '.join(kwonly), ', '.join(kwdef), kwarg, ', '.join(defaults))

    # ---------------- statements: return (lines, dump, simple) ----------------
    def testlist(self, d, minn=1):
        """expression or bare tuple (as in 'return 1, 2')"""
        r = self.r
        if r.random() < 0.75:
            e = self.paren(self.expr(d), 1)
            return e.t, e.d
        n = r.choice([1, 2, 3])
        es = [self.paren(self.expr(d), 1) for _ in range(n)]
        tc = ',' if n == 1 or r.random() < 0.2 else ''
        self.features.add('bare-tuple')
        return (self.sp() + ',' + self.sp()).join(e.t for e in es) + tc, 'Tuple(elts=[%s], ctx=Load())' % ', '.join(e.d for e in es)

    def simple(self, d, infunc=False, inloop=False):
        r = self.r
        k = r.randrange(22)
        if k < 3:
            t, dd = self.testlist(d)
            return t, 'Expr(value=%s)' % dd
        if k < 7:
            n = r.choice([1, 1, 2, 3])
            ts = [self.target(d) for _ in range(n)]
            vt, vd = self.testlist(d)
            if infunc and r.random() < 0.15:
                y = self.paren(self.expr(d), 1)
                vt, vd = 'yield' + self.sp1() + y.t, 'Yield(value=%s)' % y.d
                self.features.add('yield-expr')
            self.features.add('assign-multi' if n > 1 else 'assign')
            return (self.sp() + '=' + self.sp()).join([t[0] for t in ts] + [vt]), 'Assign(targets=[%s], value=%s)' % (', '.join(t[1] for t in ts), vd)
        if k == 7:
            tt, td = self.target(d, allow_tuple=False)
            op, nm = r.choice(AUGOPS)
            vt, vd = self.testlist(d)
            self.features.add('augassign')
            return tt + self.sp() + op + self.sp() + vt, 'AugAssign(target=%s, op=%s(), value=%s)' % (td, nm, vd)
        if k == 8:
            n = r.choice([1, 2])
            ts = [self.target(d, allow_tuple=False) for _ in range(n)]
            self.features.add('del')
            return 'del' + self.sp1() + (self.sp() + ',' + self.sp()).join(t[0] for t in ts), 'Delete(targets=[%s])' % ', '.join(t[1].replace('ctx=Store()', 'ctx=Del()') if t[1].count('ctx=Store()') == 1 else _fix_del(t[1]) for t in ts)
        if k == 9:
            return 'pass', 'Pass()'
        if k == 10 and inloop:
            return r.choice([('break', 'Break()'), ('continue', 'Continue()')])
        if k == 11 and infunc:
            if r.random() < 0.3:
                return 'return', 'Return(value=None)'
            t, dd = self.testlist(d)
            return 'return' + self.spr(t) + t, 'Return(value=%s)' % dd
        if k == 12:
            j = r.randrange(3)
            self.features.add('raise')
            if j == 0:
                return 'raise', 'Raise(exc=None, cause=None)'
            e = self.paren(self.expr(d), 1)
            if j == 1:
                return 'raise' + self.sp1() + e.t, 'Raise(exc=%s, cause=None)' % e.d
            c = self.paren(self.expr(d), 1)
            return 'raise' + self.sp1() + e.t + self.sp1() + 'from' + self.sp1() + c.t, 'Raise(exc=%s, cause=%s)' % (e.d, c.d)
        if k == 13:
            ns = r.sample(NAMES, r.choice([1, 2]))
            kw = r.choice(['global', 'nonlocal'])
            self.features.add(kw)
            return kw + self.sp1() + (self.sp() + ',' + self.sp()).join(ns), '%s(names=[%s])' % (kw.capitalize(), ', '.join("'%s'" % n for n in ns))
        if k == 14:
            t = self.paren(self.expr(d), 1)
            self.features.add('assert')
            if r.random() < 0.5:
                return 'assert' + self.spr(t.t) + t.t, 'Assert(test=%s, msg=None)' % t.d
            m = self.paren(self.expr(d), 1)
            return 'assert' + self.sp1() + t.t + self.sp() + ',' + self.sp() + m.t, 'Assert(test=%s, msg=%s)' % (t.d, m.d)
        if k == 15:
            als = []
            for _ in range(r.choice([1, 2])):
                mod = '.'.join(r.sample(['m', 'pkg', 'sub', 'os'], r.choice([1, 1, 2])))
                asn = r.choice([None, None, 'al'])
                als.append((mod, asn))
            self.features.add('import')
            return 'import' + self.sp1() + (self.sp() + ',' + self.sp()).join(m + ((self.sp1() + 'as' + self.sp1() + a) if a else '') for m, a in als), 'Import(names=[%s])' % ', '.join("alias(name='%s', asname=%s)" % (m, repr(a)) for m, a in als)
        if k == 16:
            level = r.choice([0, 0, 1, 2, 3, 4])
            mod = r.choice(['m', 'pkg.sub', None]) if level else r.choice(['m', 'pkg.sub'])
            self.features.add('importfrom')
            src = '.' * level + (mod or '')
            if level >= 3 and r.random() < 0.5:
                src = '...' + '.' * (level - 3) + (mod or '')   # '...' lexes as an ELLIPSIS token
                self.features.add('import-ellipsis-dots')
            if r.random() < 0.2:
                return 'from' + self.sp1() + src + self.sp1() + 'import' + self.sp() + '*', "ImportFrom(module=%s, names=[alias(name='*', asname=None)], level=%d)" % (repr(mod), level)
            als = [(r.choice(['n1', 'n2', 'n3']), r.choice([None, None, 'al'])) for _ in range(r.choice([1, 2]))]
            body = (self.sp() + ',' + self.sp()).join(m + ((self.sp1() + 'as' + self.sp1() + a) if a else '') for m, a in als)
            if r.random() < 0.35:
                body = '(' + self.sp() + body + (',' if r.random() < 0.5 else '') + self.sp() + ')'
                self.features.add('import-parens')
            else:
                body = ' ' + body
            return 'from' + self.sp1() + src + self.sp1() + 'import' + body, 'ImportFrom(module=%s, names=[%s], level=%d)' % (repr(mod), ', '.join("alias(name='%s', asname=%s)" % (m, repr(a)) for m, a in als), level)
        if k == 17 and infunc:
            self.features.add('yield-stmt')
            j = r.randrange(3)
            if j == 0:
                return 'yield', 'Expr(value=Yield(value=None))'
            if j == 1:
                t, dd = self.testlist(d)
                return 'yield' + self.sp1() + t, 'Expr(value=Yield(value=%s))' % dd
            e = self.paren(self.expr(d), 1)
            return 'yield' + self.sp1() + 'from' + self.sp1() + e.t, 'Expr(value=YieldFrom(value=%s))' % e.d
        t, dd = self.testlist(d)
        return t, 'Expr(value=%s)' % dd

    def suite(self, d, depth, infunc, inloop):
        """returns (header-suffix-or-None, lines, [dumps]) : either a one-line suite or an indented block"""
        r = self.r
        n = r.choice([1, 1, 2, 3])
        stmts = [self.stmt(d, depth - 1, infunc, inloop) for _ in range(n)]
        dumps = [s[1] for s in stmts]
        if all(s[2] for s in stmts) and r.random() < 0.3:
            self.features.add('one-line-suite')
            return (self.sp() + (';' + self.sp()).join(s[0][0] for s in stmts) + (';' if r.random() < 0.15 else ''), [], dumps)
        ind = r.choice([' ', '  ', '    ', '    ', '        ', '\t', '   '])
        if ind != '    ':
            self.features.add('indent-width')
        lines = []
        i = 0
        while i < len(stmts):
            s = stmts[i]
            if s[2] and i + 1 < len(stmts) and stmts[i + 1][2] and r.random() < 0.25:
                lines.append(ind + s[0][0] + self.sp() + ';' + self.sp() + stmts[i + 1][0][0])
                self.features.add('semicolon')
                i += 2
                continue
            for l in s[0]:
                lines.append(ind + l if l.strip() else l)
            i += 1
            if r.random() < 0.1:
                lines.append(r.choice(['', '   ', '# comment', ind + '# c']))
                self.features.add('blank-or-comment-line')
        return (None, lines, dumps)

    def block(self, header, d, depth, infunc, inloop):
        one, lines, dumps = self.suite(d, depth, infunc, inloop)
        cm = ''
        if one is None and self.r.random() < 0.1:
            cm = self.sp() + '# trailing comment'
            self.features.add('comment')
        if one is not None:
            return [header + ':' + one], dumps
        return [header + self.sp() + ':' + cm] + lines, dumps

    def stmt(self, d, depth, infunc=False, inloop=False):
        """returns (lines, dump, is_simple)"""
        r = self.r
        if depth <= 0 or r.random() < 0.55:
            t, dd = self.simple(d, infunc, inloop)
            if r.random() < 0.05 and '\n' not in t:
                # explicit line continuation between two tokens
                m = re.search(r' (?=[^ ])', t)
                if m and not re.search(r'[\'"#]', t[:m.start() + 1]):
                    t = t[:m.start()] + ' \\\n  ' + t[m.end():]
                    self.features.add('backslash-continuation')
            return [t], dd, True
        k = r.randrange(9)
        if k == 0:
            test = self.paren(self.expr(d), 1)
            lines, body = self.block('if' + self.spr(test.t) + test.t, d, depth, infunc, inloop)
            orelse = '[]'
            chain = []
            for _ in range(r.choice([0, 0, 1, 2])):
                t2 = self.paren(self.expr(d), 1)
                l2, b2 = self.block('elif' + self.spr(t2.t) + t2.t, d, depth, infunc, inloop)
                chain.append((t2.d, l2, b2))
                self.features.add('elif')
            else_d = None
            if r.random() < 0.4:
                l3, b3 = self.block('else', d, depth, infunc, inloop)
                else_d = (l3, b3)
            tail = '[%s]' % ', '.join(else_d[1]) if else_d else '[]'
            for t2d, l2, b2 in reversed(chain):
                tail = '[If(test=%s, body=[%s], orelse=%s)]' % (t2d, ', '.join(b2), tail)
            for t2d, l2, b2 in chain:
                lines += l2
            if else_d:
                lines += else_d[0]
            return lines, 'If(test=%s, body=[%s], orelse=%s)' % (test.d, ', '.join(body), tail), False
        if k == 1:
            test = self.paren(self.expr(d), 1)
            lines, body = self.block('while' + self.spr(test.t) + test.t, d, depth, infunc, True)
            orelse = []
            if r.random() < 0.3:
                l3, orelse = self.block('else', d, depth, infunc, inloop)
                lines += l3
            return lines, 'While(test=%s, body=[%s], orelse=[%s])' % (test.d, ', '.join(body), ', '.join(orelse)), False
        if k == 2:
            tt, td = self.target(d)
            it, itd = self.testlist(d)
            lines, body = self.block('for' + self.sp1() + tt + self.sp1() + 'in' + self.sp1() + it, d, depth, infunc, True)
            orelse = []
            if r.random() < 0.3:
                l3, orelse = self.block('else', d, depth, infunc, inloop)
                lines += l3
            return lines, 'For(target=%s, iter=%s, body=[%s], orelse=[%s])' % (td, itd, ', '.join(body), ', '.join(orelse)), False
        if k == 3:
            lines, body = self.block('try', d, depth, infunc, inloop)
            handlers, orelse, final = [], [], []
            form = r.randrange(3)
            if form in (0, 2):
                for _ in range(r.choice([1, 1, 2])):
                    j = r.randrange(3)
                    if j == 0:
                        hl, hb = self.block('except', d, depth, infunc, inloop)
                        handlers.append('ExceptHandler(type=None, name=None, body=[%s])' % ', '.join(hb))
                    else:
                        e = self.paren(self.expr(d), 1)
                        nm = r.choice(NAMES) if j == 2 else None
                        hl, hb = self.block('except' + self.sp1() + e.t + ((self.sp1() + 'as' + self.sp1() + nm) if nm else ''), d, depth, infunc, inloop)
                        handlers.append('ExceptHandler(type=%s, name=%s, body=[%s])' % (e.d, repr(nm), ', '.join(hb)))
                    lines += hl
                    if j == 0:
                        break
                if r.random() < 0.3:
                    l3, orelse = self.block('else', d, depth, infunc, inloop)
                    lines += l3
            if form in (1, 2):
                l4, final = self.block('finally', d, depth, infunc, inloop)
                lines += l4
            self.features.add('try')
            return lines, 'Try(body=[%s], handlers=[%s], orelse=[%s], finalbody=[%s])' % (', '.join(body), ', '.join(handlers), ', '.join(orelse), ', '.join(final)), False
        if k == 4:
            items, texts = [], []
            for _ in range(r.choice([1, 1, 2])):
                e = self.paren(self.expr(d), 1)
                if r.random() < 0.5:
                    tt, td = self.target(d, allow_tuple=False)
                    if r.random() < 0.3:
                        tt2, td2 = self.target(d, allow_tuple=False)
                        tt, td = '(' + tt + ', ' + tt2 + ')', 'Tuple(elts=[%s, %s], ctx=Store())' % (td, td2)
                    items.append('withitem(context_expr=%s, optional_vars=%s)' % (e.d, td))
                    texts.append(e.t + self.sp1() + 'as' + self.sp1() + tt)
                else:
                    items.append('withitem(context_expr=%s, optional_vars=None)' % e.d)
                    texts.append(e.t)
            lines, body = self.block('with' + self.sp1() + (self.sp() + ',' + self.sp()).join(texts), d, depth, infunc, inloop)
            self.features.add('with')
            return lines, 'With(items=[%s], body=[%s])' % (', '.join(items), ', '.join(body)), False
        if k in (5, 6):
            n = r.choice(NAMES)
            a, ad = self.arguments(d)
            ret, retd = '', 'None'
            if r.random() < 0.2:
                e = self.paren(self.expr(0), 1)
                ret, retd = self.sp() + '->' + self.sp() + e.t, e.d
                self.features.add('return-annotation')
            decs, dlines = self.decorators(d)
            lines, body = self.block('def' + self.sp1() + n + self.sp() + '(' + self.sp() + a + self.sp() + ')' + ret, d, depth, True, False)
            self.features.add('def')
            return dlines + lines, "FunctionDef(name='%s', args=%s, body=[%s], decorator_list=[%s], returns=%s)" % (n, ad, ', '.join(body), ', '.join(decs), retd), False
        if k == 7:
            n = r.choice(NAMES)
            hdr = 'class' + self.sp1() + n
            bases, kws, star, kw = [], [], None, None
            if r.random() < 0.7:
                parts = []
                for _ in range(r.randrange(3)):
                    b = self.paren(self.expr(min(d, 1)), 1)
                    bases.append(b.d)
                    parts.append(b.t)
                if r.random() < 0.25:
                    v = self.paren(self.expr(0), 1)
                    kws.append("keyword(arg='metaclass', value=%s)" % v.d)
                    parts.append('metaclass' + self.sp() + '=' + self.sp() + v.t)
                if r.random() < 0.12:
                    star = self.paren(self.expr(0), 1)
                    parts.append('*' + star.t)
                if r.random() < 0.12:
                    kw = self.paren(self.expr(0), 1)
                    parts.append('**' + kw.t)
                hdr += self.sp() + '(' + (',' + self.sp()).join(parts) + ')'
            decs, dlines = self.decorators(d)
            lines, body = self.block(hdr, d, depth, False, False)
            self.features.add('class')
            return dlines + lines, "ClassDef(name='%s', bases=[%s], keywords=[%s], starargs=%s, kwargs=%s, body=[%s], decorator_list=[%s])" % (n, ', '.join(bases), ', '.join(kws), star.d if star else 'None', kw.d if kw else 'None', ', '.join(body), ', '.join(decs)), False
        t, dd = self.simple(d, infunc, inloop)
        return [t], dd, True

    def decorators(self, d):
        r = self.r
        decs, lines = [], []
        for _ in range(r.choice([0, 0, 0, 1, 2])):
            base = '.'.join(r.sample(['dec', 'mod', 'wrap'], r.choice([1, 2])))
            dd = None
            parts = base.split('.')
            dd = "Name(id='%s', ctx=Load())" % parts[0]
            for p in parts[1:]:
                dd = "Attribute(value=%s, attr='%s', ctx=Load())" % (dd, p)
            t = '@' + self.sp() + base
            if r.random() < 0.4:
                args = [self.paren(self.expr(min(d, 1)), 1) for _ in range(r.randrange(3))]
                t += '(' + ', '.join(a.t for a in args) + ')'
                dd = 'Call(func=%s, args=[%s], keywords=[], starargs=None, kwargs=None)' % (dd, ', '.join(a.d for a in args))
            decs.append(dd)
            lines.append(t)
            self.features.add('decorator')
        return decs, lines

    def module(self, d, depth, nstmts):
        r = self.r
        lines, dumps = [], []
        for _ in range(nstmts):
            s = self.stmt(d, depth)
            if s[2] and lines and r.random() < 0.15 and not lines[-1].startswith((' ', '\t')) and lines[-1].strip() and '#' not in lines[-1] and ':' not in lines[-1][-3:] and not lines[-1].rstrip().endswith('\\'):
                prev_simple = dumps and True
                lines[-1] = lines[-1] + self.sp() + ';' + self.sp() + s[0][0] if getattr(self, '_last_simple', False) else lines[-1]
                if getattr(self, '_last_simple', False):
                    dumps.append(s[1])
                    self.features.add('semicolon')
                    continue
            lines += s[0]
            dumps.append(s[1])
            self._last_simple = s[2] and len(s[0]) == 1 and '\n' not in s[0][0]
            if r.random() < 0.1:
                lines.append(r.choice(['', '# c', '  # indented comment', '    ']))
                self._last_simple = False
        text = '\n'.join(lines) + ('\n' if r.random() < 0.9 else '')
        if r.random() < 0.05:
            text = '\n\n' + text
        return text, 'Module(body=[%s])' % ', '.join(dumps)


def _fix_del(dump):
    """Delete targets: the outermost ctx and, for tuple/list targets, the element ctxs are Del()"""
    # only the ctx of the target itself (last 'ctx=Store()' that closes the target node) and of tuple elements is Del;
    # the generator only produces non-tuple del targets with nested Load sub-expressions, so replace the LAST Store
    i = dump.rfind('ctx=Store()')
    return dump[:i] + 'ctx=Del()' + dump[i + len('ctx=Store()'):]

# ------------------------------------------------------------------------------------------------------------
# literal spellings -> value (checked by evaluating in gpython vs CPython)


def literal_cases(r, tier):
    L = []
    ints = [0, 1, 7, 8, 9, 10, 255, 256, 2 ** 31 - 1, 2 ** 31, 2 ** 32, 2 ** 63 - 1, 2 ** 63, 2 ** 64, 10 ** 30, 0o777, 0xdeadbeef]
    for v in ints:
        L += [str(v), hex(v), hex(v).upper().replace('0X', '0x'), '0X%x' % v, oct(v), '0O%o' % v, bin(v), '0B' + bin(v)[2:]]
    L += ['00', '000', '0x0', '0o0', '0b0', '0e0', '00.5', '0_0'.replace('_', ''), '1.', '.5', '1.5', '1e5', '1E5', '1e+5', '1e-5', '1.5e3', '.5e-3', '5.E2', '0.1', '1e308', '1e-308', '5e-324', '1.7976931348623157e308', '1e309',
          '0.30000000000000004', '123456789.123456789', '3.14j', '1j', '0j', '1e3j', '.5j', '1.J', '10J', '0.0', '-0.0', '1e22', '1e23', '9007199254740993.0', '0.1e1', '00001.5', '1e0100', '0e9999']
    strs = ["'abc'", '"abc"', "'''abc'''", '"""a\nb"""', "'a\\nb'", "'\\x41\\102\\u0043\\U00000044'", "'\\N{LATIN SMALL LETTER A}'", "'\\N{GREEK SMALL LETTER ALPHA}'", "r'a\\nb'", "R'\\x41'", "u'abc'", "'a' 'b'", "'a' \"b\" '''c'''",
            "'\\\\'", "'\\''", '"\\""', "'\\a\\b\\f\\n\\r\\t\\v'", "'\\0'", "'\\07'", "'\\777'", "'\\8'", "'\\z'", "'\\\n'", "'a\\\nb'", "'\\x00\\xff'", "'\u00e9'", "'\u20ac\U0001f600'", "'\\u20ac'", "'\\U0001F600'", "r'\\''", "r'\\\\'",
            "'''a'b\"c'''", '"""\'\'\'"""', "''", '""', "''''''", "r''", "'\\x7f'", "'\t'", "' \\\n '", "'\\N{DIGIT ZERO}'",
            "b'abc'", 'b"abc"', "b'\\x00\\xff'", "b'\\101'", "B'a'", "br'\\x41'", "rb'\\n'", "bR'a'", "Rb'a'", "b'a' b'b'", "b'\\n\\t\\\\'", "b'\\''", "b'''a\nb'''", "b''", "b'\\z'", "b'\\u0041'", "b'\\N{DIGIT ZERO}'"]
    L += strs
    out = []
    for t in L:
        out.append(t)
    # random escapes
    n = 300 if tier == 'quick' else 5000
    alphabet = ['a', 'Z', '0', ' ', '\\n', '\\t', '\\\\', "\\'", '\\"', '\\x41', '\\x7f', '\\xe9', '\\101', '\\0', '\\7', '\\u00e9', '\\u20ac', '\\U0001f600', '\\N{BULLET}', '\u00e9', '\u20ac', '\U0001f600', '\\a', '\\v', '\\8', '\\q', '\\\n']
    for _ in range(n):
        body = ''.join(r.choice(alphabet) for _ in range(r.randrange(0, 6)))
        q = r.choice(["'", '"', "'''", '"""'])
        pre = r.choice(['', '', 'r', 'b', 'rb', 'u'])
        if pre in ('b', 'rb'):
            body = ''.join(c for c in body if ord(c) < 128)
        if q[0] in body and len(q) == 1 and pre in ('r', 'rb'):
            continue
        if body.endswith('\\') and pre in ('r', 'rb'):
            continue
        out.append(pre + q + body + q)
    return out


def enc_value(v):
    if isinstance(v, bool):
        return ['bool', v]
    if isinstance(v, int):
        return ['int', str(v)]
    if isinstance(v, float):
        return ['float', struct.pack('>d', v).hex()]
    if isinstance(v, complex):
        return ['complex', struct.pack('>d', v.real).hex(), struct.pack('>d', v.imag).hex()]
    if isinstance(v, str):
        return ['str', [ord(c) for c in v]]
    if isinstance(v, bytes):
        return ['bytes', v.hex()]
    return ['other', repr(v)]


def dec_api(v):
    t = v.get('t')
    if t == 'int':
        return ['int', v['v']]
    if t == 'float':
        return ['float', v['bits']]
    if t == 'complex':
        return ['complex', v['re'], v['im']]
    if t == 'str':
        return ['str', v['cps']]
    if t == 'bytes':
        return ['bytes', v['hex']]
    if t == 'bool':
        return ['bool', v['b']]
    return ['other', json.dumps(v, sort_keys=True)]

# ------------------------------------------------------------------------------------------------------------
# by-construction invalid texts (each must also be rejected by CPython, otherwise it is an oracle disagreement)

INVALID = [
    ('missing-colon', ['if a\n    pass\n', 'while a\n    pass\n', 'for a in b\n    pass\n', 'def f()\n    pass\n', 'class C\n    pass\n', 'try\n    pass\nfinally:\n    pass\n', 'with a\n    pass\n', 'else:\n    pass\n', 'lambda x x\n']),
    ('juxtaposition', ['a b\n', '1 2\n', 'a = b c\n', 'f(a b)\n', '[a b]\n', 'a.b c\n', '(a)(b) c\n', '"s" 1\n', 'x = 1 if 2 3\n']),
    ('keyword-in-expression', ['a = if\n', 'a + while\n', 'f(def)\n', '[for]\n', 'x = class\n', 'a = 1 + pass\n', 'return = 1\n', 'a.if\n', 'a = not\n', 'a = b if c\n', 'x = lambda\n']),
    ('keyword-as-identifier', ['def if(): pass\n', 'class for: pass\n', 'import while\n', 'from a import in\n', 'for if in x: pass\n', 'def f(else): pass\n', 'global with\n', 'a = 1 as b\n', 'lambda None: 1\n', 'def f(True): pass\n', 'None = 1\n', 'True += 1\n', 'del False\n']),
    ('unbalanced-bracket', ['(a\n', 'a)\n', '[a\n', 'a]\n', '{a\n', 'a}\n', '(a]\n', '[a)\n', '{a)\n', 'f(a, (b)\n', 'x = (1,\n', '((a)\n', 'a[1:2\n', '{1: 2\n']),
    ('tabs-vs-spaces', ['if a:\n        b\n\tc\n', 'if a:\n\tb\n        c\n', 'if a:\n  if b:\n\tc\n  d\n', 'if a:\n    b\n  \tc\n', 'def f():\n\tif a:\n\t\tb\n        c\n',
                        'while a:\n \tb\n\t c\n', 'if a:\n\tb\nelse:\n        c\n\td\n', 'class C:\n        x = 1\n\tdef f(self):\n\t\tpass\n', 'for a in b:\n\t\tc\n\t        d\n']),
    ('bad-indentation', ['if a:\npass\n', 'if a:\n    pass\n  pass\n', ' a\n', 'a\n  b\n', 'if a:\n        pass\n    pass\n  x\n', 'def f():\n    a\n      b\n', 'class C:\n  x\n y\n', 'if a:\n\tpass\n        pass\n  pass\n']),
    ('malformed-number', ['0777\n', '0b2\n', '0o8\n', '0x\n', '0xg\n', '1e\n', '1e+\n', '0b\n', '0o\n', '1__0\n'.replace('__', 'a'), '01\n', '09.5j'.replace('.5j', 'x') + '\n', '1.2.3\n', '0x1.5\n', '1_000\n', '0_1\n', '1e5e5\n', '12abc\n', '1.5j5\n']),
    ('malformed-string', ["'abc\n", '"abc\n', "'''abc\n", "'\\x4'\n", "'\\xZZ'\n", "'\\u12'\n", "'\\U0000004'\n", "'\\N{BOGUS NAME XYZ}'\n", "'\\N{'\n", "'\\N'\n", "b'\u00e9'\n", "b'\u20ac'\n", "'a' b'b'\n", "b'a' 'b'\n", "ur'a'\n", "bu'a'\n", "'\\U00110000'\n", "b'\\x4'\n", "'abc\\"]),
    ('bad-target', ['1 = a\n', 'a + b = c\n', 'f() = 1\n', '"s" = 1\n', 'a, 1 = b\n', '[a, f()] = b\n', 'del 1\n', 'del f()\n', 'del a + b\n', 'a += b += c\n', 'a = b += c\n', 'for 1 in a: pass\n', 'for f() in a: pass\n', 'with a as 1: pass\n', '(a, b) += 1\n', '[a] += 1\n', 'a, b += 1\n', '(yield) = 1\n', 'lambda: 1 = 2\n', 'a if b else c = 1\n', 'a < b = c\n', 'not a = 1\n', '-a = 1\n', '() += 1\n', '... = 1\n', '[x for x in y] = 1\n', '(x for x in y) = 1\n', '{} = 1\n', '{a} = 1\n', 'import a.b as c.d\n', 'x = yield = 1\n', 'for x, 1 in y: pass\n', '[a, 1] = b\n']),
    ('bad-call', ['f(a=1, b)\n', 'f(**k, a)\n', 'f(**k, *a)\n', 'f(a for a in b, c)\n', 'f(c, a for a in b)\n', 'f(a=1, a=2)\n', 'f(1=2)\n', 'f(a.b=1)\n', 'f(f()=1)\n', 'f(lambda: 1=2)\n', 'f(a, , b)\n', 'f(,)\n', 'f(*)\n', 'f(**)\n', 'f(a=)\n', 'f(*a, *b)\n', 'f(**a, **b)\n', 'f(*a, b)\n']),
    ('bad-def', ['def f(a=1, b): pass\n', 'def f(*a, *b): pass\n', 'def f(**k, a): pass\n', 'def f(**k, *a): pass\n', 'def f(*): pass\n', 'def f(*, **k): pass\n', 'def f(a, a): pass\n', 'def f(a, *, a): pass\n', 'def f(1): pass\n', 'def f(a.b): pass\n', 'def f(a,, b): pass\n', 'def f(*a,): pass\n', 'def f(**k,): pass\n', 'def (a): pass\n', 'def f: pass\n', 'def f(a=): pass\n', 'lambda a=1, b: 0\n', 'lambda *: 0\n', 'lambda a, a: 0\n', 'lambda (a): 0\n', 'def f(a, (b, c)): pass\n', 'def f(*a, b, *c): pass\n', 'lambda *a,: 0\n', 'def f(*, a,): pass\n']),
    ('bad-import', ['import\n', 'import a,\n', 'from a import\n', 'from a import b,\n', 'from a import (b\n', 'from a import ()\n', 'from a import *, b\n', 'from a import (*)\n', 'import a.\n', 'import .a\n', 'from import a\n', 'from a.b. import c\n', 'import a as\n', 'from . import\n', 'from a import b as\n', 'import a b\n']),
    ('dangling-clause', ['else: pass\n', 'elif a: pass\n', 'except: pass\n', 'finally: pass\n', 'try:\n    pass\n', 'try:\n    pass\nelse:\n    pass\n', 'if a:\n    pass\nelse:\n    pass\nelse:\n    pass\n', 'try:\n    pass\nexcept:\n    pass\nexcept a:\n    pass\n', 'try:\n    pass\nfinally:\n    pass\nexcept:\n    pass\n', 'if a:\n    pass\nelif:\n    pass\n', 'for a in b:\n    pass\nelif c:\n    pass\n', 'while a:\n    pass\nexcept:\n    pass\n', 'try:\n    pass\nfinally:\n    pass\nelse:\n    pass\n']),
    ('bad-statement', ['return\n    1\n', 'a = \n', '= a\n', 'a == \n', 'a +\n', '+\n', 'a +* b\n', 'a ** ** b\n', 'a..b\n', 'a.1\n', '.a\n', 'a,,b\n', ',a\n', 'a;;b\n', ';a\n', 'a : b : c : d\n', '@dec\n', '@dec\nx = 1\n', '@\ndef f(): pass\n', 'a ? b\n', 'a $ b\n', 'a ! b\n', 'a <> b\n', 'a =< b\n', 'a => b\n', 'a =! b\n', 'a ++\n', 'not\n', 'a not b\n', 'a is is b\n', 'a in in b\n', 'a not not in b\n', 'print a\n', 'exec a\n', 'raise a, b\n', 'raise a from\n', 'assert\n', 'assert a,\n', 'global\n', 'nonlocal\n', 'global a.b\n', 'del\n', 'pass a\n', 'break a\n', 'yield from\n', 'a = yield from\n', 'with: pass\n', 'with a as: pass\n', 'for in a: pass\n', 'for a in: pass\n', 'while: pass\n', 'if: pass\n', 'class: pass\n', 'class C(: pass\n', 'a[]\n', 'a[1:2:3:4]\n', 'a[,]\n', '[a for]\n', '[a for b]\n', '[a for b in]\n', '[for a in b]\n', '[a if b]\n', '{a: }\n', '{: a}\n', '{a: b, c}\n', '{a, b: c}\n', '{a: b for}\n', 'a if b\n', 'a if else b\n', 'lambda: \n', '`a`\n', 'a\\ b\n', 'if a: if b: pass\n', 'if a: pass else: pass\n', 'x = 1; if a: pass\n', 'def f(): return 1; def g(): pass\n', 'a = 1,, 2\n', '(a, , b)\n', '[,]\n', '(,)\n', '{,}\n', 'f(a)(b).\n']),
]

FILTER_WORDS = re.compile(r'\b(async|await|print|exec|match|case|nonlocal)\b|:=|@|\b_\b|->')


def run(tier, rep):
    r = rng(PID, 'gen')
    nontriv = set()
    features_seen = {}
    # ---------------- canary -----------------
    can = [{'id': 'can0', 'src': 'a = 1\n', 'mode': 'exec'}, {'id': 'can1', 'src': 'a +\n', 'mode': 'exec'}, {'id': 'can2', 'src': 'a if b else c', 'mode': 'eval'}]
    cg, _ = common.run_vrun('parse', can, workers=1)
    if (cg.get('can0', {}).get('dump') != "Module(body=[Assign(targets=[Name(id='a', ctx=Store())], value=Num(n=1))])" or cg.get('can1', {}).get('err') != 'SyntaxError'
            or cpython_dump('a = 1\n', 'exec') != ('ok', cg['can0']['dump']) or cpython_dump('a if b else c', 'eval') != ('ok', cg.get('can2', {}).get('dump'))):
        rep.broke('canary: parse mode / converter do not agree on trivial inputs: %s' % common.short(cg, 600))
        return
    # ---------------- (A) acceptance: generated trees in seeded spellings -----------------
    cases, expect, feats = [], {}, {}
    nexpr = 6000 if tier == 'quick' else 120000
    nmod = 5000 if tier == 'quick' else 100000
    disagree = 0
    dis_samples = []

    def add(cid, text, mode, dump, fs):
        nonlocal disagree
        kind, cd = cpython_dump(text, mode)
        if kind != 'ok' or cd != dump:
            disagree += 1
            if len(dis_samples) < 5:
                dis_samples.append({'text': text, 'generator': dump[:300], 'cpython': (kind, (cd or '')[:300])})
            return
        cases.append({'id': cid, 'src': text, 'mode': mode})
        expect[cid] = dump
        feats[cid] = fs
    for i in range(nexpr):
        g = G(r)
        e = g.expr(r.choice([1, 2, 2, 3, 3, 4]))
        text = e.t
        if r.random() < 0.3:
            text = g.sp() + text + g.sp()
            text = text.lstrip('\t ') if text[:1] in ' \t' else text
        mode = 'eval' if i % 3 else 'exec'
        if '\n' in text and mode == 'eval' and not text.lstrip().startswith('('):
            mode = 'eval'
        if mode == 'eval':
            add('e%d' % i, text + ('\n' if r.random() < 0.5 else ''), 'eval', 'Expression(body=%s)' % e.d, g.features)
        else:
            add('e%d' % i, text + '\n', 'exec', 'Module(body=[Expr(value=%s)])' % e.d, g.features)
    for i in range(nmod):
        g = G(r)
        text, dump = g.module(r.choice([1, 2, 2, 3]), r.choice([1, 2, 3, 3]), r.randrange(1, 5))
        add('m%d' % i, text, 'exec', dump, g.features)
    # single mode: one simple statement / one compound statement followed by a blank line
    for i in range(nmod // 10):
        g = G(r)
        s = g.stmt(2, r.choice([0, 1, 2]))
        text = '\n'.join(s[0]) + '\n' + ('' if s[2] else '\n')
        add('s%d' % i, text, 'single', 'Interactive(body=[%s])' % s[1], g.features)
    res, _ = common.run_vrun('parse', cases, timeout_case=30)
    samples = []
    for c in cases:
        cid = c['id']
        g = res.get(cid)
        if g is None or g.get('timeout'):
            rep.inconc('no result for %s' % cid)
            continue
        rep.evaluations += 1
        fs = sorted(feats[cid])
        nontriv.add(expect[cid])
        for f in fs:
            features_seen[f] = features_seen.get(f, 0) + 1
        w = {'case': c, 'vrun_mode': 'parse', 'expected': expect[cid], 'got': g.get('dump') or g.get('err') or g.get('panic'), 'features': fs}
        if g.get('panic') or g.get('crash'):
            rep.violation('C06|accept|%s|panic' % c['mode'], w)
        elif 'err' in g:
            rep.violation('C06|accept|%s|rejected-valid-text:%s|%s' % (c['mode'], g['err'], diffclass(expect[cid], None, fs)), w)
        elif g.get('dump') != expect[cid]:
            if 'decorator' in fs and undot_decorators(g.get('dump')) == expect[cid]:
                rep.violation('C06|accept|wrong-tree|dotted-decorator-parsed-as-one-Name', w)
            else:
                rep.violation('C06|accept|%s|wrong-tree|%s' % (c['mode'], diffclass(expect[cid], g.get('dump'), fs)), w)
        if len(samples) < 3 and len(fs) >= 5 and cid.startswith('m'):
            samples.append({'text': c['src'], 'mode': c['mode'], 'expected_dump': expect[cid][:400], 'spelling_features': fs})
    # ---------------- (B) literal values -----------------
    lits = literal_cases(rng(PID, 'lit'), tier)
    lcases, lexp = [], {}
    for i, t in enumerate(lits):
        try:
            import warnings
            with warnings.catch_warnings():
                warnings.simplefilter('ignore')
                v = eval(compile(t, '<lit>', 'eval'))
            lexp['l%d' % i] = ('val', enc_value(v))
        except (SyntaxError, ValueError):
            lexp['l%d' % i] = ('reject', None)
        lcases.append({'id': 'l%d' % i, 'src': t, 'mode': 'eval', 'literal': True})
    lres, _ = common.run_vrun('evallit', lcases, timeout_case=30)
    for c in lcases:
        g = lres.get(c['id'])
        if g is None or g.get('timeout'):
            rep.inconc('literal %r: no result' % c['src'])
            continue
        rep.evaluations += 1
        kind, ev = lexp[c['id']]
        nontriv.add(('lit', c['src']))
        cls = lit_class(c['src'])
        w = {'case': c, 'vrun_mode': 'evallit', 'literal': c['src'], 'expected': [kind, ev], 'got': {k: g[k] for k in g if k in ('val', 'err', 'panic')}}
        if g.get('panic') or g.get('crash'):
            rep.violation('C06|literal|%s|panic' % cls, w)
        elif kind == 'reject':
            if 'err' not in g:
                rep.violation('C06|literal|%s|accepted-invalid-literal' % cls, w)
        elif 'err' in g:
            if ev[0] == 'float' and ev[1] in ('7ff0000000000000',):
                pass
            rep.violation('C06|literal|%s|rejected-valid-literal:%s' % (cls, g['err']), w)
        elif dec_api(g['val']) != ev:
            rep.violation('C06|literal|%s|wrong-value' % cls, w)
    # ---------------- (C) rejection -----------------
    rcases, rfeat = [], {}
    for feat, texts in INVALID:
        for j, t in enumerate(texts):
            kind, _ = cpython_dump(t, 'exec')
            if kind != 'reject':
                disagree += 1
                if len(dis_samples) < 8:
                    dis_samples.append({'invalid-by-construction text accepted by CPython': t, 'class': feat})
                continue
            cid = 'r:%s:%d' % (feat, j)
            rcases.append({'id': cid, 'src': t, 'mode': 'exec'})
            rfeat[cid] = feat
    # single-token deletions / insertions / swaps of valid generated programs
    TOK = re.compile(r'\s+|[A-Za-z_][A-Za-z_0-9]*|\d[\w.]*|\'[^\'\n]*\'|"[^"\n]*"|\*\*=?|//=?|<<=?|>>=?|[-+*/%&|^<>=!]=|->|\.\.\.|.', re.S)
    pool = [c for c in cases if c['id'].startswith('m')]
    nmut = 6000 if tier == 'quick' else 150000
    INS = ['(', ')', '[', ']', ',', ':', '=', '.', 'if', 'else', 'for', 'in', 'not', 'lambda', '*', '**', '1', 'a', ';', 'is', 'and', '\n', '    ']
    mr = rng(PID, 'mut')
    for i in range(nmut):
        src = mr.choice(pool)['src']
        toks = TOK.findall(src)
        if len(toks) < 3:
            continue
        k = mr.randrange(3)
        j = mr.randrange(len(toks))
        if k == 0:
            if not toks[j].strip():
                continue
            toks2 = toks[:j] + toks[j + 1:]
        elif k == 1:
            toks2 = toks[:j] + [mr.choice(INS), ' '] + toks[j:]
        else:
            j2 = mr.randrange(len(toks))
            toks2 = list(toks)
            toks2[j], toks2[j2] = toks2[j2], toks2[j]
        t = ''.join(toks2)
        if FILTER_WORDS.search(t):
            continue
        kind, _ = cpython_dump(t, 'exec')
        if kind != 'reject':
            continue
        cid = 'x%d' % i
        rcases.append({'id': cid, 'src': t, 'mode': 'exec'})
        rfeat[cid] = 'mutation'
    rres, _ = common.run_vrun('parse', rcases, timeout_case=30)
    for c in rcases:
        g = rres.get(c['id'])
        if g is None or g.get('timeout'):
            rep.inconc('no result for %s' % c['id'])
            continue
        rep.evaluations += 1
        feat = rfeat[c['id']]
        nontriv.add(('rej', c['src']))
        w = {'case': c, 'vrun_mode': 'parse', 'class': feat, 'got': g.get('dump') or g.get('err') or g.get('panic')}
        if g.get('panic') or g.get('crash'):
            rep.violation('C06|reject|%s|panic' % feat, w)
        elif 'dump' in g and feat == 'mutation' and 'Starred(' in g['dump']:
            # 3.4's PARSER accepts a starred expression anywhere a star_expr fits ('del *a', '[*a for a in b]', '(*a) = 1',
            # '*a = b'): 3.4 rejects misuse in the compiler, 3.11 already in the parser. Not text outside the 3.4 grammar.
            rep.extra_starred = getattr(rep, 'extra_starred', 0) + 1
        elif 'dump' in g and feat == 'mutation' and re.search(r'(^|\n)[ \t]*\\\n[ \t]', c['src']):
            # a physical line that consists of a backslash continuation only, followed by an indented line: the 3.4 tokenizer measures the
            # indentation at the backslash (none), 3.11 (bpo-46091) at the continuation text ("unexpected indent"). Version-unstable, not judged.
            rep.extra_bslash = getattr(rep, 'extra_bslash', 0) + 1
        elif 'dump' in g and feat == 'mutation' and re.search(r'(?<![\w.])(?:\d+\.?\d*|\.\d+)(?!(?:and|else|for|if|in|is|not|or)\b)[A-Za-z_\u0080-\uffff]', re.sub(r'0[xXoObB][0-9a-fA-F]+|\d+\.?\d*[eE][-+]?\d+|\d[jJ]', '0', c['src'])):
            # a number directly followed by a name or keyword (`0from x`, `1as`): two tokens for the 3.4 tokenizer; CPython >= 3.8 / 3.11 only lets
            # and / else / for / if / in / is / not / or abut a number ("invalid decimal literal" otherwise). Version-unstable, not judged.
            rep.extra_numabut = getattr(rep, 'extra_numabut', 0) + 1
        elif 'dump' in g and feat == 'mutation' and '\\N' in c['src']:
            # the mutation produced a \N escape: named escapes are not implemented at all (known finding C06-named-unicode-escape-*, judged on its directed
            # texts); a mutated text is not attributed to it a second time under another signature
            rep.extra_bsn = getattr(rep, 'extra_bsn', 0) + 1
        elif 'dump' in g:
            sub = rej_class(c['src'], g['dump']) if feat == 'mutation' else 'text=' + c['src'].strip()[:40]
            rep.violation('C06|reject|%s|accepted-text-outside-grammar|%s' % (feat, sub), w)
        elif g.get('err') not in ('SyntaxError', 'IndentationError', 'TabError'):
            rep.violation('C06|reject|%s|error-is-not-SyntaxError:%s' % (feat, g.get('err')), w)
    rep.nontrivial = nontriv
    rep.samples = samples + [{'literal': lits[40], 'expected': lexp['l40']}, {'invalid_text': INVALID[8][1][0], 'class': INVALID[8][0]}]
    rep.rule = ('acceptance: seeded random trees over the 3.4 expression and statement grammar, each rendered with seeded spelling variation (redundant parentheses, spacing, comments, backslash continuation, bracket joining, indentation width/tabs, '
                'semicolons and one-line suites, trailing commas, string prefix/quote/escape/concatenation spellings, int spellings) in exec/eval/single modes; expected dump built by the generator and cross-checked with CPython ast converted to the 3.4 shape; '
                'literal values: %d literal spellings evaluated and compared by value; rejection: %d by-construction invalid texts in %d classes + single-token deletions/insertions/swaps of valid programs that CPython rejects; '
                'non-trivial = distinct expected trees + distinct literals + distinct rejected texts' % (len(lits), sum(len(t) for _, t in INVALID), len(INVALID)))
    rep.extra = {'accept_cases': len(cases), 'literal_cases': len(lcases), 'reject_cases': len(rcases), 'oracle_disagreement': disagree, 'oracle_disagreement_samples': dis_samples, 'spelling_features': features_seen}
    rep.assumptions = ['CPython 3.11 ast converted to the 3.4 dump shape is the second oracle; the generator stays inside the 3.4 grammar', 'leaves in tree cases are simple (ints, plain strings) so that the dump text is unambiguous; literal VALUES are checked separately by evaluation']
    if disagree > 0.02 * max(1, len(cases)):
        rep.broke('generator and CPython disagree on %d cases: %s' % (disagree, common.short(dis_samples, 900)))


def undot_decorators(dump):
    """Rewrite Name(id='a.b.c', ctx=Load()) (gpython's rendering of a dotted decorator) as the Attribute chain it stands for."""
    def repl(m):
        parts = m.group(1).split('.')
        out = "Name(id='%s', ctx=Load())" % parts[0]
        for p_ in parts[1:]:
            out = "Attribute(value=%s, attr='%s', ctx=Load())" % (out, p_)
        return out
    return re.sub(r"Name\(id='([A-Za-z_0-9]+(?:\.[A-Za-z_0-9]+)+)', ctx=Load\(\)\)", repl, dump or '')


def diffclass(exp, got, fs):
    """coarse class of a tree deviation: the node types (expected vs got) at the first point where the dumps diverge"""
    if got is None:
        return 'features=' + '+'.join(fs[:3])
    i = 0
    n = min(len(exp), len(got))
    while i < n and exp[i] == got[i]:
        i += 1

    def node_at(s):
        k = max(s.rfind('=', 0, i + 1), s.rfind('[', 0, i + 1), s.rfind(' ', 0, i + 1), s.rfind('(', 0, i + 1)) + 1
        m = re.match(r'[A-Za-z_]+', s[k:])
        return m.group(0) if m else s[k:k + 6]
    return 'expected=%s,got=%s' % (node_at(exp), node_at(got))


def lit_class(t):
    s = t.lstrip('rRbBuU')
    if s[:1] in '\'"':
        pre = t[:len(t) - len(s)].lower()
        kind = 'bytes' if 'b' in pre else 'str'
        if 'r' in pre:
            kind += '-raw'
        if 'r' not in pre and kind == 'str' and re.search(r'(?<!\\)(\\\\)*\\N', s):
            return 'str|esc=N'      # a named-character escape anywhere in the literal
        m = re.search(r'\\(N|x|u|U|[0-7]|\n|.)', s)
        return kind + ('|esc=' + ('nl' if m and m.group(1) == '\n' else (m.group(1) if m and m.group(1).isalnum() else 'other')) if m else '')
    if t.endswith(('j', 'J')):
        return 'imaginary'
    if re.match(r'0[xXoObB]', t):
        return 'int-' + t[1].lower()
    if re.search(r'[.eE]', t):
        return 'float'
    return 'int'


def rej_class(src, dump):
    m = re.search(r'(Call|FunctionDef|Lambda|Assign|AugAssign|Delete|Import|ImportFrom|Starred|Try|If|With|For|Compare|Str|Num)\(', dump)
    return 'tree-has=' + (m.group(1) if m else '?')
