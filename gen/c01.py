"""C01 - expressions evaluate once, left to right, with Python's grouping.

Monitor: generated programs whose operands are calls v("k", val) that append k to a log and return val; every item prints
'<idx> V <value> | <log>' or '<idx> E <exception type> ... | <log>'.  Oracle: CPython run of the same text (+ for the operator
pairs/triples a small grouping model, which also supplies the *discriminating operand values*: assignments for which Python's
grouping differs in value/log from the alternative parenthesisations, so that a mis-grouping cannot hide).

Parts: (a) operator pairs / triples (precedence, associativity, short-circuit, chains)  (b) bounded random expression trees over
all node kinds the property names, with operands that raise  (c) assignment forms (multi-target, unpacking, augmented).
"""
import ast, itertools, operator, math, multiprocessing, re
import common
from common import rng, run_vrun, oracle_exec, short

PID = 'C01'

# ------------------------------------------------------------------------------------------------
# program vocabulary (boring on purpose: ints, plain strings, print)

PRELUDE = '''log = []
def v(k, x):
    log.append(k)
    return x
def show(x):
    if x is None:
        return "None"
    if x is True:
        return "True"
    if x is False:
        return "False"
    if isinstance(x, float):
        return "f" + str(int(x * 1024))
    if isinstance(x, str):
        return "'" + x + "'"
    if isinstance(x, list):
        return "[" + ",".join([show(e) for e in x]) + "]"
    if isinstance(x, tuple):
        return "(" + ",".join([show(e) for e in x]) + ")"
    if isinstance(x, dict):
        return "{" + ",".join(sorted([show(k) + ":" + show(x[k]) for k in x])) + "}"
    if isinstance(x, set):
        return "{" + ",".join(sorted([show(e) for e in x])) + "}"
    if isinstance(x, O):
        return "<obj>"
    return str(x)
def cls(e):
    try:
        raise e
    except ZeroDivisionError:
        return "ZeroDivisionError"
    except KeyError:
        return "KeyError"
    except IndexError:
        return "IndexError"
    except NameError:
        return "NameError"
    except AttributeError:
        return "AttributeError"
    except TypeError:
        return "TypeError"
    except ValueError:
        return "ValueError"
    except OverflowError:
        return "OverflowError"
    except Exception:
        return "other"
def ok(i, r):
    print(i, "V", show(r), "|", ",".join(log))
def bad(i, e, r):
    print(i, "E", cls(e), show(r), "|", ",".join(log))
def run(i, f):
    del log[:]
    try:
        r = f()
    except Exception as e:
        return bad(i, e, None)
    ok(i, r)
class O:
    pass
def mk():
    o = O()
    o.a = 5
    o.l = [1, 2, 3]
    return o
def fa(a, b=2, *c, **d):
    log.append("fa")
    t = a + 10 * b
    for e in c:
        t = t * 3 + e
    for k in sorted(d):
        t = t * 7 + d[k]
    return t
def fk(a, b=2, *, k=3, m=4):
    log.append("fk")
    return a + 10 * b + 100 * k + 1000 * m
S2 = [6, 7]
M2 = {"x": 8, "y": 9}
a = b = c = None
L = [10, 20, 30]
D = {"p": 1, "q": 2}
o = mk()
def reset():
    global a, b, c, L, D, o
    a = b = c = None
    L = [10, 20, 30]
    D = {"p": 1, "q": 2}
    o = mk()
    del log[:]
'''

STATE = '[a, b, c, L, D, o.a, o.l]'


def item_expr_lambda(i, expr):
    return 'run(%d, lambda: %s)\n' % (i, expr)


def item_expr_inline(i, expr):
    return ('del log[:]\ntry:\n    ok(%d, %s)\nexcept Exception as e:\n    bad(%d, e, None)\n' % (i, expr, i))


def item_expr_def(i, expr):
    return ('def t%d():\n    r = %s\n    return r\nrun(%d, t%d)\n' % (i, expr, i, i))


def item_stmt(i, stmt, ctx):
    """ctx: 'module' (STORE_NAME), 'global' (function with global declarations), 'local' (fast locals)."""
    body = stmt.split('\n')
    if ctx == 'module':
        return ('reset()\ntry:\n' + ''.join('    %s\n' % l for l in body) + '    ok(%d, %s)\nexcept Exception as e:\n    bad(%d, e, %s)\n' % (i, STATE, i, STATE))
    if ctx == 'global':
        return ('def t%d():\n    global a, b, c, L, D, o\n    try:\n' % i + ''.join('        %s\n' % l for l in body) +
                '    except Exception as e:\n        return bad(%d, e, %s)\n    ok(%d, %s)\nreset()\nt%d()\n' % (i, STATE, i, STATE, i))
    return ('def t%d():\n    a = b = c = None\n    L = [10, 20, 30]\n    D = {"p": 1, "q": 2}\n    o = mk()\n    try:\n' % i + ''.join('        %s\n' % l for l in body) +
            '    except Exception as e:\n        return bad(%d, e, %s)\n    ok(%d, %s)\nreset()\nt%d()\n' % (i, STATE, i, STATE, i))


# ------------------------------------------------------------------------------------------------
# (a) operator skeletons, grouping model, discriminating values

ARITH = ['+', '-', '*', '/', '//', '%', '**']
SHIFT = ['<<', '>>']
BITW = ['&', '|', '^']
CMP = ['<', '<=', '==', '!=', '>', '>=', 'is', 'is not', 'in', 'not in']
BOOL = ['and', 'or']
BIN = ARITH + SHIFT + BITW + CMP + BOOL
UN = ['-', '+', '~', 'not']


def opclass(t):
    if t == '**':
        return 'pow'
    if t in ARITH:
        return 'arith'
    if t in SHIFT:
        return 'shift'
    if t in BITW:
        return 'bitwise'
    if t in ('in', 'not in'):
        return 'in'
    if t in ('is', 'is not'):
        return 'is'
    if t in CMP:
        return 'cmp'
    if t in BOOL:
        return 'boolop'
    if t == 'not':
        return 'not'
    if t in ('u-', 'u+', 'u~'):
        return 'unary'
    if t in ('if', 'else'):
        return 'ifexp'
    return '?'


class Unsafe(Exception):
    """The model refuses to predict (outside the fragment that is version/implementation stable)."""


NUM = (int, float)


def _chk_float(x):
    if isinstance(x, float):
        if x != x or x in (float('inf'), float('-inf')) or abs(x) > 2.0 ** 40:
            raise Unsafe('float range')
        y = x * 1024
        if y != int(y):
            raise Unsafe('non-dyadic float')
        if x == 0 and math.copysign(1, x) < 0:
            raise Unsafe('-0.0')
    elif isinstance(x, complex):
        raise Unsafe('complex')
    elif isinstance(x, int) and not isinstance(x, bool) and abs(x) > 2 ** 400:
        raise Unsafe('huge')
    return x


def apply_bin(op, a, b):
    ta, tb = type(a), type(b)
    if ta is bool or tb is bool:
        raise Unsafe('bool arithmetic (not implemented by gpython; outside C01)')
    if ta is tuple or tb is tuple:
        if op == '+':
            raise Unsafe('tuple concat')
    if op == '%' and ta is str:
        raise Unsafe('str formatting')
    if op in ('/', '//', '%') and (ta is float or tb is float) and tb in NUM and b == 0:
        raise Unsafe('float division by zero (C15)')
    if op == '**':
        if ta in NUM and tb in NUM:
            if a == 0 and b < 0:
                raise Unsafe('0 ** negative')  # gpython returns inf (C15's business)
            if a < 0 and isinstance(b, float) and b != int(b):
                raise Unsafe('complex result')
            if abs(b) > 64 or (abs(a) > 2 ** 64 and abs(b) > 4):
                raise Unsafe('pow too big')
    if op in ('<<', '>>') and ta is int and tb is int:
        if b > 256:
            raise Unsafe('shift too big')
    if op == '*' and ((ta in (str, list, tuple) and tb is int and b > 64) or (tb in (str, list, tuple) and ta is int and a > 64)):
        raise Unsafe('repeat too big')
    f = {'+': operator.add, '-': operator.sub, '*': operator.mul, '/': operator.truediv, '//': operator.floordiv, '%': operator.mod, '**': operator.pow,
         '<<': operator.lshift, '>>': operator.rshift, '&': operator.and_, '|': operator.or_, '^': operator.xor}[op]
    return _chk_float(f(a, b))


def apply_cmp(op, a, b):
    ta, tb = type(a), type(b)
    if op in ('is', 'is not'):
        for x in (a, b):
            if not (x is None or isinstance(x, bool) or (type(x) is int and -5 <= x <= 256)):
                raise Unsafe('identity of %s' % type(x).__name__)
        r = a is b
        return r if op == 'is' else not r
    if op in ('in', 'not in'):
        if tb is str and ta is not str:
            raise Unsafe('non-str in str')  # TypeError in CPython; keep out
        if tb in (dict, set):
            raise Unsafe('hash containers')
        if tb in (list, tuple):
            for e in b:
                if type(e) in (list, tuple) or ta in (list, tuple):
                    raise Unsafe('nested container membership')
        r = a in b
        return r if op == 'in' else not r
    if op in ('==', '!='):
        if ta in (list, tuple) or tb in (list, tuple):
            if ta is not tb:
                raise Unsafe('mixed sequence equality')
        r = a == b
        return r if op == '==' else not r
    # ordering
    if ta in (list, tuple) or tb in (list, tuple):
        raise Unsafe('sequence ordering (not implemented by gpython)')
    if ta is bool or tb is bool:
        raise Unsafe('bool ordering')
    return {'<': operator.lt, '<=': operator.le, '>': operator.gt, '>=': operator.ge}[op](a, b)


_CMPNAME = {ast.Lt: '<', ast.LtE: '<=', ast.Eq: '==', ast.NotEq: '!=', ast.Gt: '>', ast.GtE: '>=', ast.Is: 'is', ast.IsNot: 'is not', ast.In: 'in', ast.NotIn: 'not in'}
_BINNAME = {ast.Add: '+', ast.Sub: '-', ast.Mult: '*', ast.Div: '/', ast.FloorDiv: '//', ast.Mod: '%', ast.Pow: '**', ast.LShift: '<<', ast.RShift: '>>',
            ast.BitAnd: '&', ast.BitOr: '|', ast.BitXor: '^'}


def compile_tree(node):
    """ast expression over names p0..pn -> nested tuples for the model evaluator."""
    if isinstance(node, ast.Name):
        return ('p', int(node.id[1:]))
    if isinstance(node, ast.BinOp):
        return ('bin', _BINNAME[type(node.op)], compile_tree(node.left), compile_tree(node.right))
    if isinstance(node, ast.UnaryOp):
        return ('un', {ast.USub: '-', ast.UAdd: '+', ast.Invert: '~', ast.Not: 'not'}[type(node.op)], compile_tree(node.operand))
    if isinstance(node, ast.BoolOp):
        return ('bool', 'and' if isinstance(node.op, ast.And) else 'or', tuple(compile_tree(x) for x in node.values))
    if isinstance(node, ast.Compare):
        return ('cmp', tuple(_CMPNAME[type(o)] for o in node.ops), compile_tree(node.left), tuple(compile_tree(x) for x in node.comparators))
    if isinstance(node, ast.IfExp):
        return ('if', compile_tree(node.test), compile_tree(node.body), compile_tree(node.orelse))
    raise AssertionError(ast.dump(node))


def ev(t, env, log):
    k = t[0]
    if k == 'p':
        log.append(t[1])
        return env[t[1]]
    if k == 'bin':
        a = ev(t[2], env, log)
        b = ev(t[3], env, log)
        return apply_bin(t[1], a, b)
    if k == 'un':
        a = ev(t[2], env, log)
        if t[1] == 'not':
            return not a
        if isinstance(a, bool):
            raise Unsafe('bool arithmetic')
        if t[1] == '-':
            return _chk_float(-a)
        if t[1] == '+':
            return +a
        return ~a
    if k == 'bool':
        r = None
        for x in t[2]:
            r = ev(x, env, log)
            if (t[1] == 'and') != bool(r):
                return r
        return r
    if k == 'cmp':
        left = ev(t[2], env, log)
        r = True
        for op, x in zip(t[1], t[3]):
            right = ev(x, env, log)
            r = apply_cmp(op, left, right)
            if not r:
                return r
            left = right
        return r
    if k == 'if':
        if ev(t[1], env, log):
            return ev(t[2], env, log)
        return ev(t[3], env, log)
    raise AssertionError(t)


def mshow(x):
    """python-side twin of the program's show()."""
    if x is None or x is True or x is False:
        return str(x)
    if isinstance(x, int):
        return str(x)
    if isinstance(x, float):
        return 'f' + str(int(x * 1024))
    if isinstance(x, str):
        return "'" + x + "'"
    if isinstance(x, list):
        return '[' + ','.join(mshow(e) for e in x) + ']'
    if isinstance(x, tuple):
        return '(' + ','.join(mshow(e) for e in x) + ')'
    return '<obj>'


def outcome(tree, env):
    """('V', shown value, log) / ('E', exception type, log) / None when the model refuses."""
    log = []
    try:
        r = ev(tree, env, log)
    except Unsafe:
        return None
    except (ZeroDivisionError, TypeError, ValueError, OverflowError) as e:
        return ('E', type(e).__name__, tuple(log))
    return ('V', mshow(r), tuple(log))


def render_tokens(tokens, operand):
    """tokens: list of 'P' (operand), operator strings, '(' / ')' ; operand(i) renders the i-th operand."""
    out = []
    n = 0
    for t in tokens:
        if t == 'P':
            out.append(operand(n))
            n += 1
        elif t.startswith('u'):
            out.append(t[1:])
        else:
            out.append(t)
    s = ' '.join(out)
    return s.replace('( ', '(').replace(' )', ')')


def alternatives(tokens):
    """All groupings of the token sequence reachable by inserting one or two pairs of parentheses, as model trees;
    returns (natural tree or None if the unparenthesised text is a SyntaxError, list of distinct alternative trees)."""
    def parse(toks):
        try:
            return compile_tree(ast.parse(render_tokens(toks, lambda i: 'p%d' % i), mode='eval').body)
        except SyntaxError:
            return None
    nat = parse(tokens)
    starts = [i for i, t in enumerate(tokens) if t == 'P' or t.startswith('u')]
    ends = [i for i, t in enumerate(tokens) if t == 'P']
    spans = [(s, e) for s in starts for e in ends if e > s and not (s == 0 and e == len(tokens) - 1)]

    def paren(toks, s, e):
        return toks[:s] + ['('] + toks[s:e + 1] + [')'] + toks[e + 1:]
    seen = {}
    for (s, e) in spans:
        t1 = paren(tokens, s, e)
        tr = parse(t1)
        if tr is not None and tr != nat:
            seen.setdefault(tr, t1)
        for (s2, e2) in spans:
            # second pair: disjoint to the right, or strictly inside
            if s2 > e:
                t2 = paren(paren(tokens, s2, e2), s, e)
            elif s <= s2 and e2 <= e and (s2, e2) != (s, e):
                inner = paren(tokens, s2, e2)
                t2 = paren(inner, s, e + 2)
            else:
                continue
            tr = parse(t2)
            if tr is not None and tr != nat:
                seen.setdefault(tr, t2)
    return nat, list(seen.keys())


INTS = [-3, -2, -1, 0, 1, 2, 3, 4, 5, 7]
OTHERS = [None, '', 'ab', 'b', [], [0, 1], [1, 2, 3], (0, 1, 2), 2.5, 0.5]
CONTAINERS = [[], [0, 1], [1, 2, 3], (0, 1, 2), [True, 2], 'ab', [None, 0]]


def sample_env(r, tokens):
    env = []
    idx = -1
    for j, t in enumerate(tokens):
        if t != 'P':
            continue
        idx += 1
        prev = None
        k = j - 1
        while k >= 0 and tokens[k].startswith('u'):
            k -= 1
        if k >= 0:
            prev = tokens[k]
        if prev in ('in', 'not in') and r.random() < 0.75:
            env.append(r.choice(CONTAINERS))
        elif r.random() < 0.82:
            env.append(r.choice(INTS))
        else:
            env.append(r.choice(OTHERS))
    return env


def pick_assignments(args):
    """For one skeleton: sample operand assignments, keep a small set that discriminates as many alternative groupings as possible."""
    tokens, seedv, nsample, nkeep = args
    import random
    r = random.Random(seedv)
    nat, alts = alternatives(tokens)
    nops = sum(1 for t in tokens if t == 'P')
    if nat is None:
        return {'tokens': tokens, 'syntax_error': True, 'envs': [[r.choice(INTS) for _ in range(nops)]], 'nalts': 0, 'ndisc': 0, 'model': [None]}
    cands = []
    seen = set()
    for _ in range(nsample):
        env = sample_env(r, tokens)
        key = repr(env)
        if key in seen:
            continue
        seen.add(key)
        o = outcome(nat, env)
        if o is None:
            continue
        d = set()
        for ai, alt in enumerate(alts):
            oa = outcome(alt, env)
            if oa is not None and oa != o:
                d.add(ai)
        cands.append((env, o, d))
    chosen = []
    covered = set()
    for _ in range(nkeep):
        best = None
        for env, o, d in cands:
            gain = len(d - covered)
            score = (gain, 1 if o[0] == 'V' else 0, len(o[2]))
            if best is None or score > best[0]:
                best = (score, env, o, d)
        if best is None:
            break
        if chosen and best[0][0] == 0:
            break
        chosen.append(best)
        covered |= best[3]
        cands = [c for c in cands if c[0] is not best[1]]
    return {'tokens': tokens, 'syntax_error': False, 'envs': [c[1] for c in chosen], 'model': [c[2] for c in chosen], 'nalts': len(alts), 'ndisc': len(covered)}


def lit(x):
    return repr(x)


def skeletons(tier, r):
    """list of (token list, family tag)."""
    U = ['u' + u for u in UN]
    pairs = []
    for o1 in BIN:
        for o2 in BIN:
            pairs.append((['P', o1, 'P', o2, 'P'], 'pair'))
    for u in U:
        for o in BIN:
            pairs.append(([u, 'P', o, 'P'], 'pair'))
            pairs.append((['P', o, u, 'P'], 'pair'))
    for u1 in U:
        for u2 in U:
            pairs.append(([u1, u2, 'P'], 'pair'))
    for o in BIN:
        pairs.append((['P', o, 'P', 'if', 'P', 'else', 'P'], 'pair'))
        pairs.append((['P', 'if', 'P', o, 'P', 'else', 'P'], 'pair'))
        pairs.append((['P', 'if', 'P', 'else', 'P', o, 'P'], 'pair'))
    for u in U:
        pairs.append(([u, 'P', 'if', 'P', 'else', 'P'], 'pair'))
        pairs.append((['P', 'if', u, 'P', 'else', 'P'], 'pair'))
        pairs.append((['P', 'if', 'P', 'else', u, 'P'], 'pair'))
    pairs.append((['P', 'if', 'P', 'else', 'P', 'if', 'P', 'else', 'P'], 'pair'))
    pairs.append((['P', 'if', 'P', 'if', 'P', 'else', 'P', 'else', 'P'], 'pair'))
    pairs.append((['P', 'if', 'P', 'else', 'P'], 'pair'))
    triples = []
    for o1 in BIN:
        for o2 in BIN:
            for o3 in BIN:
                triples.append((['P', o1, 'P', o2, 'P', o3, 'P'], 'triple'))
            for u in U:
                triples.append(([u, 'P', o1, 'P', o2, 'P'], 'triple'))
                triples.append((['P', o1, u, 'P', o2, 'P'], 'triple'))
                triples.append((['P', o1, 'P', o2, u, 'P'], 'triple'))
            triples.append((['P', o1, 'P', o2, 'P', 'if', 'P', 'else', 'P'], 'triple'))
            triples.append((['P', o1, 'P', 'if', 'P', 'else', 'P', o2, 'P'], 'triple'))
            triples.append((['P', 'if', 'P', 'else', 'P', o1, 'P', o2, 'P'], 'triple'))
            triples.append((['P', 'if', 'P', o1, 'P', o2, 'P', 'else', 'P'], 'triple'))
            triples.append((['P', o1, 'P', 'if', 'P', o2, 'P', 'else', 'P'], 'triple'))
            triples.append((['P', 'if', 'P', o1, 'P', 'else', 'P', o2, 'P'], 'triple'))
    for u1 in U:
        for u2 in U:
            for o in BIN:
                triples.append(([u1, u2, 'P', o, 'P'], 'triple'))
                triples.append(([u1, 'P', o, u2, 'P'], 'triple'))
                triples.append((['P', o, u1, u2, 'P'], 'triple'))
            triples.append(([u1, u2, 'P', 'if', 'P', 'else', 'P'], 'triple'))
            triples.append(([u1, 'P', 'if', u2, 'P', 'else', 'P'], 'triple'))
            triples.append(([u1, 'P', 'if', 'P', 'else', u2, 'P'], 'triple'))
    for u in U:
        for o in BIN:
            triples.append(([u, 'P', o, 'P', 'if', 'P', 'else', 'P'], 'triple'))
            triples.append((['P', o, u, 'P', 'if', 'P', 'else', 'P'], 'triple'))
            triples.append((['P', 'if', 'P', 'else', u, 'P', o, 'P'], 'triple'))
            triples.append((['P', 'if', u, 'P', o, 'P', 'else', 'P'], 'triple'))
    if tier == 'quick':
        r.shuffle(triples)
        triples = triples[:2600]
    return pairs + triples


def skel_tags(tokens):
    cl = sorted(set(opclass(t) for t in tokens if t != 'P') - {'?'})
    return '+'.join(cl)


KEYS = 'abcdefgh'


# ------------------------------------------------------------------------------------------------
# (b) typed random expression trees

class Node:
    __slots__ = ('kind', 'text', 'ch', 'ty')

    def __init__(self, kind, text, ch=(), ty='int'):
        self.kind, self.text, self.ch, self.ty = kind, text, list(ch), ty

    def walk(self):
        yield self
        for c in self.ch:
            for x in c.walk():
                yield x


class TreeGen:
    def __init__(self, r):
        self.r = r
        self.n = 0

    def key(self):
        self.n += 1
        return 'k%d' % self.n

    def leaf(self, src, ty):
        return Node('leaf', 'v("%s", %s)' % (self.key(), src), (), ty)

    def paren(self, n):
        if n.kind in ('leaf', 'call', 'subscript', 'slice', 'attr', 'list', 'tuple', 'set', 'dict', 'len', 'const', 'dsub'):
            return n.text
        return '(' + n.text + ')'

    def gen(self, ty, d):
        return getattr(self, 'g_' + ty)(d)

    # ---- raising operands: evaluation must stop exactly there
    def poison(self, d):
        r = self.r
        k = r.randrange(7)
        if k == 0:
            x = self.g_int(max(0, d - 1))
            return Node('raise-zerodiv', '%s %s v("%s", 0)' % (self.paren(x), r.choice(['//', '%', '/']), self.key()), [x])
        if k == 1:
            return Node('raise-index', 'v("%s", [1, 2])[v("%s", %d)]' % (self.key(), self.key(), r.choice([2, 5, -3])), [])
        if k == 2:
            return Node('raise-key', 'v("%s", {"p": 1})[v("%s", "zz")]' % (self.key(), self.key()), [])
        if k == 3:
            x = self.g_int(max(0, d - 1))
            return Node('raise-type', 'v("%s", "s") + %s' % (self.key(), self.paren(x)), [x])
        if k == 4:
            x = self.g_int(max(0, d - 1))
            return Node('raise-type', '%s[v("%s", 0)]' % (self.paren(x), self.key()), [x])
        if k == 5:
            return Node('raise-attr', 'v("%s", 3).nope' % self.key(), [])
        x = self.g_int(max(0, d - 1))
        return Node('raise-type', 'v("%s", None)(%s)' % (self.key(), x.text), [x])

    def g_int(self, d):
        r = self.r
        if d <= 0 or r.random() < 0.12:
            return self.leaf(str(r.choice([-3, -1, 0, 1, 2, 3, 4, 5, 9])), 'int')
        if r.random() < 0.07:
            return self.poison(d)
        k = r.choice(['arith', 'arith', 'bitwise', 'shift', 'pow', 'unary', 'ifexp', 'boolop', 'subscript', 'subscript', 'dsub', 'attr', 'call', 'call', 'lambda', 'len', 'div'])
        if k in ('arith', 'bitwise'):
            op = r.choice(['+', '-', '*', '//', '%'] if k == 'arith' else ['&', '|', '^'])
            a, b = self.g_int(d - 1), self.g_int(d - 1)
            return Node(k, '%s %s %s' % (self.paren(a), op, self.paren(b)), [a, b])
        if k == 'shift':
            a = self.g_int(d - 1)
            b = self.leaf(str(r.choice([0, 1, 2, 3, -1])), 'int')
            return Node(k, '%s %s %s' % (self.paren(a), r.choice(['<<', '>>']), b.text), [a, b])
        if k == 'pow':
            a = self.g_int(d - 1)
            b = self.leaf(str(r.choice([0, 1, 2, 3])), 'int')
            return Node(k, '%s ** %s' % (self.paren(a), b.text), [a, b])
        if k == 'div':
            a = self.g_int(d - 1)
            b = self.leaf(str(r.choice([2, 4, -2, 1])), 'int')
            return Node('truediv', 'int(%s / %s)' % (self.paren(a), b.text), [a, b])
        if k == 'unary':
            a = self.g_int(d - 1)
            return Node(k, '%s%s' % (r.choice(['-', '~', '+']), self.paren(a)), [a])
        if k == 'ifexp':
            t, a, b = self.g_bool(d - 1), self.g_int(d - 1), self.g_int(d - 1)
            return Node(k, '%s if %s else %s' % (self.paren(a), self.paren(t), self.paren(b)), [a, t, b])
        if k == 'boolop':
            n = r.choice([2, 2, 3])
            xs = [self.g_int(d - 1) for _ in range(n)]
            ops = [r.choice(['and', 'or']) for _ in range(n - 1)]
            if n == 3 and ops[0] != ops[1]:
                # mixed: a or b and c  (rendered without redundant parentheses: 'and' binds tighter)
                txt = '%s %s %s %s %s' % (self.paren(xs[0]), ops[0], self.paren(xs[1]), ops[1], self.paren(xs[2]))
            else:
                txt = (' %s ' % ops[0]).join(self.paren(x) for x in xs)
            return Node(k, txt, xs)
        if k == 'subscript':
            s = self.gen(r.choice(['list', 'list', 'tuple']), d - 1)
            i = self.g_int(d - 1) if r.random() < 0.3 else self.leaf(str(r.choice([0, 1, -1, 2, 3, -4])), 'int')
            return Node(k, '%s[%s]' % (self.paren(s), i.text), [s, i])
        if k == 'dsub':
            s = self.g_dict(d - 1)
            i = self.leaf(lit(r.choice(['p', 'q', 'p', 'zz'])), 'str')
            return Node('dsub', '%s[%s]' % (self.paren(s), i.text), [s, i])
        if k == 'attr':
            o = self.g_obj(d - 1)
            return Node(k, '%s.a' % self.paren(o), [o])
        if k == 'call':
            return self.g_call(d)
        if k == 'lambda':
            return self.g_lambda_call(d)
        s = self.gen(r.choice(['list', 'str', 'set', 'dict', 'tuple']), d - 1)
        return Node('len', 'len(%s)' % s.text, [s])

    def g_bool(self, d):
        r = self.r
        if d <= 0:
            a, b = self.g_int(0), self.g_int(0)
            return Node('compare', '%s %s %s' % (a.text, r.choice(['<', '==', '!=', '>=']), b.text), [a, b], 'bool')
        k = r.choice(['compare', 'compare', 'chain', 'chain', 'in', 'not', 'boolop', 'is'])
        if k == 'compare':
            a, b = self.g_int(d - 1), self.g_int(d - 1)
            return Node(k, '%s %s %s' % (self.paren(a), r.choice(['<', '<=', '==', '!=', '>', '>=']), self.paren(b)), [a, b], 'bool')
        if k == 'chain':
            n = r.choice([3, 3, 4])
            xs = [self.g_int(d - 1) for _ in range(n)]
            txt = self.paren(xs[0])
            for x in xs[1:]:
                txt += ' %s %s' % (r.choice(['<', '<=', '==', '!=', '>', '>=']), self.paren(x))
            return Node('compare-chain', txt, xs, 'bool')
        if k == 'in':
            a = self.g_int(d - 1)
            s = self.gen(r.choice(['list', 'tuple', 'set']), d - 1)
            return Node('in', '%s %s %s' % (self.paren(a), r.choice(['in', 'not in']), self.paren(s)), [a, s], 'bool')
        if k == 'not':
            a = self.g_bool(d - 1)
            return Node('not', 'not %s' % self.paren(a), [a], 'bool')
        if k == 'boolop':
            a, b = self.g_bool(d - 1), self.g_bool(d - 1)
            return Node('boolop', '%s %s %s' % (self.paren(a), r.choice(['and', 'or']), self.paren(b)), [a, b], 'bool')
        a = self.leaf('None', 'none') if r.random() < 0.5 else self.g_int(d - 1)
        return Node('is', '%s %s None' % (self.paren(a), r.choice(['is', 'is not'])), [a], 'bool')

    def g_str(self, d):
        r = self.r
        if d <= 0 or r.random() < 0.25:
            return self.leaf(lit(r.choice(['', 'ab', 'xyz', 'q'])), 'str')
        k = r.choice(['concat', 'repeat', 'subscript', 'slice', 'ifexp', 'boolop'])
        if k == 'concat':
            a, b = self.g_str(d - 1), self.g_str(d - 1)
            return Node('concat', '%s + %s' % (self.paren(a), self.paren(b)), [a, b], 'str')
        if k == 'repeat':
            a = self.g_str(d - 1)
            b = self.leaf(str(r.choice([0, 1, 2])), 'int')
            if r.random() < 0.5:
                return Node('repeat', '%s * %s' % (self.paren(a), b.text), [a, b], 'str')
            return Node('repeat', '%s * %s' % (b.text, self.paren(a)), [b, a], 'str')
        if k == 'subscript':
            a = self.g_str(d - 1)
            i = self.leaf(str(r.choice([0, -1, 1, 2])), 'int')
            return Node('subscript', '%s[%s]' % (self.paren(a), i.text), [a, i], 'str')
        if k == 'slice':
            return self.g_slice(self.g_str(d - 1), d, 'str')
        if k == 'ifexp':
            t, a, b = self.g_bool(d - 1), self.g_str(d - 1), self.g_str(d - 1)
            return Node('ifexp', '%s if %s else %s' % (self.paren(a), self.paren(t), self.paren(b)), [a, t, b], 'str')
        a, b = self.g_str(d - 1), self.g_str(d - 1)
        return Node('boolop', '%s %s %s' % (self.paren(a), r.choice(['and', 'or']), self.paren(b)), [a, b], 'str')

    def g_slice(self, s, d, ty):
        r = self.r
        parts = []
        ch = [s]
        for pos in range(3):
            if pos == 2 and r.random() < 0.6:
                break
            if r.random() < 0.3:
                parts.append('')
            else:
                vals = [0, 1, 2, -1, -2, 5] if pos < 2 else [1, 2, -1, 0]
                x = self.leaf(str(r.choice(vals)), 'int') if r.random() < 0.8 else self.g_int(d - 1)
                ch.append(x)
                parts.append(x.text)
        if len(parts) == 2:
            txt = '%s[%s:%s]' % (self.paren(s), parts[0], parts[1])
        else:
            txt = '%s[%s:%s:%s]' % (self.paren(s), parts[0], parts[1], parts[2])
        return Node('slice', txt, ch, ty)

    def g_list(self, d):
        r = self.r
        if d <= 0 or r.random() < 0.2:
            return self.leaf(lit(r.choice([[], [4], [1, 2, 3], [0, 5]])), 'list')
        k = r.choice(['list', 'list', 'concat', 'slice', 'repeat', 'attr'])
        if k == 'list':
            xs = [self.g_int(d - 1) for _ in range(r.choice([0, 1, 2, 3]))]
            return Node('list', '[' + ', '.join(x.text for x in xs) + ']', xs, 'list')
        if k == 'concat':
            a, b = self.g_list(d - 1), self.g_list(d - 1)
            return Node('concat', '%s + %s' % (self.paren(a), self.paren(b)), [a, b], 'list')
        if k == 'slice':
            return self.g_slice(self.g_list(d - 1), d, 'list')
        if k == 'repeat':
            a = self.g_list(d - 1)
            b = self.leaf(str(r.choice([0, 1, 2])), 'int')
            return Node('repeat', '%s * %s' % (self.paren(a), b.text), [a, b], 'list')
        o = self.g_obj(d - 1)
        return Node('attr', '%s.l' % self.paren(o), [o], 'list')

    def g_tuple(self, d):
        r = self.r
        if d <= 0 or r.random() < 0.2:
            return self.leaf(lit(r.choice([(), (4,), (1, 2, 3)])), 'tuple')
        xs = [self.g_int(d - 1) for _ in range(r.choice([1, 2, 3]))]
        if len(xs) == 1:
            return Node('tuple', '(' + xs[0].text + ',)', xs, 'tuple')
        return Node('tuple', '(' + ', '.join(x.text for x in xs) + ')', xs, 'tuple')

    def g_set(self, d):
        r = self.r
        xs = [self.g_int(max(0, d - 1)) for _ in range(r.choice([1, 2, 3]))]
        return Node('set', '{' + ', '.join(x.text for x in xs) + '}', xs, 'set')

    def g_dict(self, d):
        r = self.r
        if d <= 0 or r.random() < 0.2:
            return self.leaf(r.choice(['{"p": 1, "q": 2}', '{}', '{"p": 7}']), 'dict')
        ch = []
        parts = []
        for _ in range(r.choice([1, 2, 3])):
            # inside one key: value pair at most one side has logging operands (3.4 evaluates value first, 3.11 key first)
            if r.random() < 0.5:
                kx = self.g_str(max(0, d - 2)) if r.random() < 0.3 else self.leaf(lit(r.choice(['p', 'q', 'r'])), 'str')
                ch.append(kx)
                parts.append('%s: %d' % (kx.text, r.randrange(10)))
            else:
                vx = self.g_int(d - 1)
                ch.append(vx)
                parts.append('%s: %s' % (lit(r.choice(['p', 'q', 'r'])), vx.text))
        return Node('dict', '{' + ', '.join(parts) + '}', ch, 'dict')

    def g_obj(self, d):
        r = self.r
        if r.random() < 0.6:
            return self.leaf('mk()', 'obj')
        f = self.leaf('mk', 'func')
        return Node('call', '%s()' % f.text, [f], 'obj')

    def g_call(self, d):
        r = self.r
        ch = []
        if r.random() < 0.25:
            # keyword-only callee
            f = self.leaf('fk', 'func') if r.random() < 0.7 else Node('const', 'fk', (), 'func')
            ch.append(f)
            args = []
            for _ in range(r.choice([1, 1, 2, 3])):
                x = self.g_int(d - 1)
                ch.append(x)
                args.append(x.text)
            names = ['k', 'm', 'b']
            r.shuffle(names)
            for nm in names[:r.choice([0, 1, 2, 3])]:
                x = self.g_int(d - 1)
                ch.append(x)
                args.append('%s=%s' % (nm, x.text))
            return Node('call-kwonly', '%s(%s)' % (f.text, ', '.join(args)), ch)
        f = self.leaf('fa', 'func') if r.random() < 0.7 else Node('const', 'fa', (), 'func')
        ch.append(f)
        args = []
        kinds = set()
        for _ in range(r.choice([0, 1, 1, 2, 2, 3])):
            x = self.g_int(d - 1)
            ch.append(x)
            args.append(x.text)
        star = r.random() < 0.4
        kw = r.random() < 0.5
        # 3.4 evaluates keyword values before *seq, 3.5+ in source order: never log in both
        star_logs = star and (not kw or r.random() < 0.5)
        if star:
            kinds.add('star')
            if star_logs:
                s = self.gen(r.choice(['list', 'tuple']), d - 1)
                ch.append(s)
                stxt = '*' + self.paren(s)
            else:
                stxt = '*S2'
        kwtxt = []
        if kw:
            kinds.add('kw')
            names = ['b', 'x', 'y', 'a']
            r.shuffle(names)
            for nm in names[:r.choice([1, 2, 2])]:
                if star and star_logs:
                    kwtxt.append('%s=%d' % (nm, r.randrange(5)))
                else:
                    x = self.g_int(d - 1)
                    ch.append(x)
                    kwtxt.append('%s=%s' % (nm, x.text))
        if star and r.random() < 0.5 and not kwtxt:
            args.append(stxt)
        else:
            # 3.4 grammar: keywords may precede or follow *seq
            if star and kwtxt and r.random() < 0.5:
                args += kwtxt + [stxt]
            else:
                args += ([stxt] if star else []) + kwtxt
        if r.random() < 0.3:
            kinds.add('dstar')
            if r.random() < 0.6:
                m = self.g_dict(d - 1)
                ch.append(m)
                args.append('**' + self.paren(m))
            else:
                args.append('**M2')
        kind = 'call' + ''.join('-' + x for x in sorted(kinds))
        return Node(kind, '%s(%s)' % (f.text, ', '.join(args)), ch)

    def g_lambda_call(self, d):
        r = self.r
        ch = []
        params = ['p']
        body_terms = ['p']
        posdef = r.random() < 0.6
        kwdef = (not posdef) and r.random() < 0.7   # never log in both kinds of defaults (order changed across versions)
        if r.random() < 0.8:
            if posdef:
                x = self.g_int(d - 1)
                ch.append(x)
                params.append('q=%s' % x.text)
            else:
                params.append('q=%d' % r.randrange(5))
            body_terms.append('q * 10')
        if r.random() < 0.4:
            params.append('*s')
            body_terms.append('len(s) * 100')
            if r.random() < 0.6:
                if kwdef:
                    x = self.g_int(d - 1)
                    ch.append(x)
                    params.append('z=%s' % x.text)
                else:
                    params.append('z=%d' % r.randrange(5))
                body_terms.append('z * 1000')
        if r.random() < 0.4:
            x = self.g_int(d - 1)
            ch.append(x)
            body_terms.append(self.paren(x))
        body = ' + '.join(body_terms)
        args = []
        for _ in range(r.choice([0, 1, 1, 2, 2, 3])):
            x = self.g_int(d - 1)
            ch.append(x)
            args.append(x.text)
        lam = '(lambda %s: %s)' % (', '.join(params), body)
        return Node('lambda-call', '%s(%s)' % (lam, ', '.join(args)), ch)


# ------------------------------------------------------------------------------------------------
# (c) assignment forms

class StmtGen(TreeGen):
    AUG = ['+=', '-=', '*=', '//=', '%=', '**=', '<<=', '>>=', '&=', '|=', '^=', '/=']

    def small_int(self, d):
        return self.g_int(d) if self.r.random() < 0.4 else self.leaf(str(self.r.choice([0, 1, 2, 3, 5])), 'int')

    def target(self, d, names):
        """returns (text, kind, child nodes)."""
        r = self.r
        k = r.choice(['name', 'name', 'sub', 'sub', 'attr', 'dsub', 'slice', 'attrsub'])
        if k == 'name' and not names:
            k = 'sub'
        if k == 'name':
            nm = r.choice(names)
            if self.distinct:
                names.remove(nm)   # CPython 3.11 mis-orders 'a, a = x, y' (static swap elimination): no repeated names in one target list
            return nm, 'name', []
        if k == 'sub':
            i = self.leaf(str(r.choice([0, 1, 2, -1, 3, 7])), 'int') if r.random() < 0.7 else self.g_int(d)
            if r.random() < 0.5:
                return 'L[%s]' % i.text, 'subscript', [i]
            c = self.leaf('L', 'list')
            return '%s[%s]' % (c.text, i.text), 'subscript', [c, i]
        if k == 'attr':
            if r.random() < 0.5:
                return 'o.a', 'attr', []
            c = self.leaf('o', 'obj')
            return '%s.a' % c.text, 'attr', [c]
        if k == 'dsub':
            i = self.leaf(lit(r.choice(['p', 'q', 'n'])), 'str')
            c = self.leaf('D', 'dict')
            return '%s[%s]' % (c.text, i.text), 'dict-subscript', [c, i]
        if k == 'slice':
            lo = r.choice([0, 1, 2])
            i = self.leaf(str(lo), 'int')
            j = self.leaf(str(r.choice([x for x in (1, 2, 3, 5) if x >= lo])), 'int')   # start > stop: set-slice is C13's business
            c = self.leaf('L', 'list')
            return '%s[%s:%s]' % (c.text, i.text, j.text), 'slice', [c, i, j]
        c = self.leaf('o', 'obj')
        i = self.leaf(str(r.choice([0, 1, 2, 3])), 'int')
        return '%s.l[%s]' % (c.text, i.text), 'attr-subscript', [c, i]

    def stmt(self, d):
        """returns (statement text, feature tag list)."""
        r = self.r
        form = r.choice(['multi', 'multi', 'unpack', 'unpack', 'star', 'aug', 'aug', 'aug', 'nested'])
        tags = [form]
        self.distinct = form in ('unpack', 'star', 'nested')
        avail = ['a', 'b', 'c']
        if form == 'multi':
            n = r.choice([2, 2, 3])
            ts = []
            for _ in range(n):
                t, k, _ch = self.target(d, ['a', 'b', 'c'])
                if k == 'slice':
                    t, k = 'a', 'name'
                ts.append(t)
                tags.append('t:' + k)
            rhs = self.small_int(d)
            if r.random() < 0.08:
                rhs = self.poison(d)
                tags.append('rhs-raises')
            # the RHS is written last but must be logged first
            return ' = '.join(ts) + ' = ' + rhs.text, tags
        if form in ('unpack', 'star', 'nested'):
            n = r.choice([2, 2, 3])
            ts = []
            for _ in range(n):
                t, k, _ch = self.target(d, avail)
                if k == 'slice':
                    t, k, _ch = self.target(d, avail)
                if k == 'slice':
                    t, k = 'o.a', 'attr'
                ts.append(t)
                tags.append('t:' + k)
            if form == 'star':
                si = r.randrange(n)
                ts[si] = '*' + ts[si]
            if form == 'nested':
                t2, k2, _ = self.target(d, avail)
                if k2 == 'slice':
                    t2 = 'o.a'
                ts[-1] = '(%s, %s)' % (ts[-1], t2) if r.random() < 0.5 else '[%s, %s]' % (ts[-1], t2)
            lhs = ', '.join(ts)
            if r.random() < 0.3:
                lhs = '(' + lhs + ')' if r.random() < 0.5 else '[' + lhs + ']'
            m = n + r.choice([0, 0, 0, 0, 1, -1]) if form != 'star' else n - 1 + r.choice([0, 1, 2, -1])
            m = max(m, 0)
            if m != n and form != 'star':
                tags.append('length-mismatch')
            vals = []
            for j in range(m):
                if form == 'nested' and j == n - 1:
                    x1, x2 = self.small_int(d), self.small_int(d)
                    vals.append('[%s, %s]' % (x1.text, x2.text))
                else:
                    vals.append(self.small_int(d).text)
            k = r.randrange(4)
            if k == 0 and m >= 2:
                rhs = ', '.join(vals)
            elif k == 1:
                rhs = '[' + ', '.join(vals) + ']'
            elif k == 2:
                rhs = 'v("%s", [%s])' % (self.key(), ', '.join(vals))
            else:
                rhs = '(' + ', '.join(vals) + (',' if m == 1 else '') + ')'
            if r.random() < 0.2 and form == 'unpack':
                # second target list: a, b = c, L[i] = rhs
                self.distinct = False
                t3, k3, _ = self.target(d, ['a', 'b', 'c'])
                if k3 != 'slice':
                    lhs = lhs + ' = ' + t3
                    tags.append('multi')
            return lhs + ' = ' + rhs, tags
        # augmented
        t, k, _ch = self.target(d, ['a', 'b'])
        tags.append('t:' + k)
        op = r.choice(self.AUG)
        pre = ''
        if k == 'name':
            pre = '%s = %d\n' % (t, r.choice([0, 1, 5, 12]))
        if k == 'slice':
            op = r.choice(['+=', '*='])
            rhs = self.g_list(d) if op == '+=' else self.leaf(str(r.choice([0, 1, 2])), 'int')
        else:
            rhs = self.small_int(d)
            if op in ('**=', '<<=', '>>='):
                rhs = self.leaf(str(r.choice([0, 1, 2, 3, -1] if op != '**=' else [0, 1, 2, 3])), 'int')
            if op == '/=':
                rhs = self.leaf(str(r.choice([1, 2, -2, 0])), 'int')
        tags.append('op' + op)
        if r.random() < 0.06:
            rhs = self.poison(d)
            tags.append('rhs-raises')
        return pre + '%s %s %s' % (t, op, rhs.text), tags


# ------------------------------------------------------------------------------------------------

CANARY = [
    ('ok(0, 1 + 1)\n', '0 V 2 | \n'),
    ('run(0, lambda: v("a", 1))\n', '0 V 1 | a\n'),
    ('run(0, lambda: v("a", "s"))\n', "0 V 's' | a\n"),
    ('run(0, lambda: [v("a", 1), (2, None), {"k": True}, {3}, 0.5])\n', "0 V [1,(2,None),{'k':True},{3},f512] | a\n"),
    ('run(0, lambda: v("a", 1) // v("b", 0))\n', '0 E ZeroDivisionError None | a,b\n'),
    ('run(0, lambda: v("a", [1])[v("b", 3)])\n', '0 E IndexError None | a,b\n'),
    ('run(0, lambda: v("a", {})[v("b", "k")])\n', '0 E KeyError None | a,b\n'),
    ('run(0, lambda: v("a", 1) + v("b", "s"))\n', '0 E TypeError None | a,b\n'),
    ('run(0, lambda: v("a", 1).zz)\n', '0 E AttributeError None | a\n'),
    ('run(0, lambda: v("a", 1) << v("b", -1))\n', '0 E ValueError None | a,b\n'),
    ('run(0, lambda: zz)\n', '0 E NameError None | \n'),
    ('reset()\ntry:\n    a = 1\n    ok(0, %s)\nexcept Exception as e:\n    bad(0, e, %s)\n' % (STATE, STATE), "0 V [1,None,None,[10,20,30],{'p':1,'q':2},5,[1,2,3]] | \n"),
    ('run(0, lambda: fa(1, 2, 3, x=4))\n', '0 V 466 | fa\n'),
    ('run(0, lambda: fk(1, k=2))\n', '0 V 4221 | fk\n'),
]


def parse_lines(out):
    """'<idx> <rest>' -> {idx: rest}"""
    d = {}
    for line in (out or '').split('\n'):
        if not line:
            continue
        head, _, rest = line.partition(' ')
        if head.isdigit():
            d.setdefault(int(head), rest)
        else:
            d.setdefault('junk', line)
    return d


def split_line(rest):
    """'V <val> | <log>' / 'E <exc> <state> | <log>' -> (kind, exc or None, value/state, log list)"""
    body, _, lg = rest.rpartition('|')
    body = body.strip()
    lg = [x for x in lg.strip().split(',') if x]
    if body.startswith('V '):
        return ('V', None, body[2:], lg)
    if body.startswith('E '):
        parts = body[2:].split(' ', 1)
        return ('E', parts[0], parts[1] if len(parts) > 1 else '', lg)
    return ('?', None, body, lg)


def deviation(exp, got):
    if got is None:
        return 'no-output-line'
    e, g = split_line(exp), split_line(got)
    if e[3] != g[3]:
        if sorted(e[3]) == sorted(g[3]):
            return 'log-reordered'
        if set(e[3]) == set(g[3]):
            return 'log-repeated-or-dropped-duplicate'
        if len(g[3]) < len(e[3]) and e[3][:len(g[3])] == g[3]:
            return 'log-stops-early'
        if len(g[3]) > len(e[3]) and g[3][:len(e[3])] == e[3]:
            return 'log-continues-past'
        return 'log-differs'
    if e[0] != g[0]:
        return 'exception-instead-of-value' if g[0] == 'E' else 'value-instead-of-exception'
    if e[0] == 'E' and e[1] != g[1]:
        return 'wrong-exception-type'
    return 'wrong-value' if e[0] == 'V' else 'wrong-state-after-exception'


RB_HEAD = '''class O:
    def __init__(self, n):
        self.n = n
        self.t = 0
        self.l = [0, 0]
A = O("A")
B = O("B")
def show(ns):
    print(A.t, B.t, A.l, B.l, ns["lst"], ns["other"], ns["i"], ns["cur"].n, ns.get("x"))
'''
RB_STMTS = ['cur.t += adv(7)', 'cur.l[i] += adv(7)', 'lst[i] += adv(7)', 'cur.t = adv(7)', 'lst[i] = adv(7)', 'cur.l[i] = adv(3)', 'cur.t -= adv(1) + cur.t', 'cur.l[adv(0)] += adv(2)', 'lst[:1] += [adv(1)]',
            'x = cur.t = adv(4)', 'cur.t, lst[i] = adv(1), adv(2)', 'cur.t += adv(1) if adv(0) == 0 else 0', 'del cur.l[adv(0)]', 'cur.t **= adv(2)', 'cur.l[i] |= adv(6)', 'lst[i] <<= adv(1)', 'cur.l += [adv(9)]',
            'cur.t += adv(1); cur.t += adv(2)', 'for cur.t in [adv(5)]: pass', 'cur.t = lst[i] = adv(8)', 'lst[i], cur.t = adv(1), adv(2)']


def rebinding_programs():
    out = [{'id': 'rbprobe-module', 'ctx': 'module', 'stmt': '', 'src': 'globals()["zz"] = 5\nprint(zz)\n'},
           {'id': 'rbprobe-class', 'ctx': 'class', 'stmt': '', 'src': 'class K:\n    ns = locals()\n    ns["zz"] = 5\n    print(zz)\n'}]
    for k, st in enumerate(RB_STMTS):
        ind = lambda n: ''.join('    ' * n + l + '\n' for l in st.split('; '))
        # module level: names rebound through globals()
        out.append({'id': 'rb-module-%d' % k, 'ctx': 'module', 'stmt': st, 'src': RB_HEAD + 'cur = A\ni = 0\nlst = [0, 0]\nother = [5, 5]\nx = None\n'
                    'def adv(v):\n    g = globals()\n    g["cur"] = B\n    g["i"] = 1\n    g["lst"] = g["other"]\n    return v\ntry:\n' + ind(1) + 'except Exception as e:\n    print("exc")\nshow(globals())\n'})
        # class body: names rebound through the class namespace
        out.append({'id': 'rb-class-%d' % k, 'ctx': 'class', 'stmt': st, 'src': RB_HEAD + 'class K:\n    cur = A\n    i = 0\n    lst = [0, 0]\n    other = [5, 5]\n    x = None\n    ns = locals()\n'
                    '    def adv(v, ns=ns):\n        ns["cur"] = B\n        ns["i"] = 1\n        ns["lst"] = ns["other"]\n        return v\n    try:\n' + ind(2) + '    except Exception as e:\n        print("exc")\n    show(ns)\n'})
        # function with declared globals
        out.append({'id': 'rb-global-%d' % k, 'ctx': 'global', 'stmt': st, 'src': RB_HEAD + 'cur = A\ni = 0\nlst = [0, 0]\nother = [5, 5]\nx = None\n'
                    'def adv(v):\n    global cur, i, lst\n    cur = B\n    i = 1\n    lst = other\n    return v\ndef t():\n    global cur, i, lst, x\n    try:\n' + ind(2) + '    except Exception as e:\n        print("exc")\nt()\nshow(globals())\n'})
        # closure cells
        out.append({'id': 'rb-cell-%d' % k, 'ctx': 'cell', 'stmt': st, 'src': RB_HEAD + 'def t():\n    cur = A\n    i = 0\n    lst = [0, 0]\n    other = [5, 5]\n    x = None\n'
                    '    def adv(v):\n        nonlocal cur, i, lst\n        cur = B\n        i = 1\n        lst = other\n        return v\n    try:\n' + ind(2) + '    except Exception as e:\n        print("exc")\n'
                    '    show({"lst": lst, "other": other, "i": i, "cur": cur, "x": x})\nt()\n'})
    return out


# (e) augmented assignment and the objects it touches: the old value of the target stays what it was for every other reference to it
# (immutable operands are never changed in place: aliases, other container slots, default arguments, constants of the code object, the
# operand of an earlier unary + / abs / int), a list target IS changed in place and stays the same object.
AUG_OPS = ['+=', '-=', '*=', '//=', '%=', '**=', '<<=', '>>=', '&=', '|=', '^=', '/=']
AUG_PAIRS = [('2 ** 70', '3'), ('2 ** 70', '2 ** 70 + 1'), ('-(2 ** 70)', '7'), ('2 ** 63 - 1', '1'), ('-(2 ** 63)', '-1'), ('5', '2 ** 70'), ('7', '2'), ('2 ** 64', '-5'), ('3 ** 50', '2 ** 65'),
             ('2.5', '2'), ('"ab"', '"c"'), ('"ab"', '2'), ('(1, 2)', '(3,)'), ('(1, 2)', '2'), ('[1, 2]', '[3]'), ('[1, 2]', '2'), ('b"ab"', 'b"c"'), ('1180591620717411303424', '1'), ('2 ** 200', '2 ** 100')]
AUG_HEAD = """class O:
    pass
def t1(a, r):
    b = a
    try:
        a %(op)s r
    except (TypeError, ValueError, ZeroDivisionError, OverflowError):
        print("exc")
    print("name", a, b, r)
def t2(a, r):
    L = [a, a, 0]
    t = L[0]
    try:
        L[0] %(op)s r
    except (TypeError, ValueError, ZeroDivisionError, OverflowError):
        print("exc")
    print("item", L, t, r)
def t3(a, r):
    o = O()
    p = O()
    o.x = a
    p.x = a
    try:
        o.x %(op)s r
    except (TypeError, ValueError, ZeroDivisionError, OverflowError):
        print("exc")
    print("attr", o.x, p.x, r)
def t4(a, r):
    c = a
    try:
        d = +c
        e = abs(c)
        d %(op)s r
        e %(op)s r
        print("unary", c, d, e)
    except (TypeError, ValueError, ZeroDivisionError, OverflowError):
        print("exc", c)
def t5(r, k=%(init)s):
    try:
        k %(op)s r
    except (TypeError, ValueError, ZeroDivisionError, OverflowError):
        print("exc")
    return k
def t6(r):
    k = %(init)s
    j = %(init)s
    try:
        k %(op)s r
    except (TypeError, ValueError, ZeroDivisionError, OverflowError):
        print("exc")
    return k, j
def t7(a, r):
    acc = a
    seen = []
    try:
        for i in range(3):
            seen.append(acc)
            acc %(op)s r
    except (TypeError, ValueError, ZeroDivisionError, OverflowError):
        print("exc")
    print("running", seen, acc)
"""


def augalias_programs():
    out = []
    for oi, op in enumerate(AUG_OPS):
        for pi, (init, rhs) in enumerate(AUG_PAIRS):
            if op == '%=' and init[0] in '"b':
                continue                      # % on str / bytes is formatting, not arithmetic
            if op == '**=':
                rhs = '2'                     # t7 applies the operator three times
            if op == '<<=' and '**' in rhs:
                rhs = '3'
            src = AUG_HEAD % {'op': op, 'init': init}
            src += 'A = %s\nR = %s\n' % (init, rhs)
            src += 't1(A, R)\nt2(A, R)\nt3(A, R)\nt4(A, R)\nprint("default", t5(R), t5(R))\nprint("const", t6(R), t6(R))\nt7(A, R)\nprint("after", A, R)\n'
            out.append({'id': 'aug-%d-%d' % (oi, pi), 'op': op, 'init': init, 'rhs': rhs, 'src': src})
    return out


# (f) subscription with bounds that are objects (their __index__ is the conversion the language reference places BEFORE the assigned items are
# produced) and right-hand sides that are lazy: order of conversions and item production, faults in a conversion, conversions that change the list
INDEX_PROG = 'LOG = []\nclass I:\n    def __init__(self, tag, v, lst=None, grow=False, fail=False):\n        self.tag = tag\n        self.v = v\n        self.lst = lst\n        self.grow = grow\n        self.fail = fail\n    def __index__(self):\n        LOG.append("index " + self.tag)\n        if self.fail:\n            raise KeyError(self.tag)\n        if self.grow:\n            self.lst.append(9)\n        return self.v\ndef gen(tag, items):\n    LOG.append("items start " + tag)\n    for x in items:\n        yield x\n    LOG.append("items end " + tag)\ndef v(tag, x):\n    LOG.append("eval " + tag)\n    return x\ndef show(name, f):\n    del LOG[:]\n    try:\n        r = f()\n        print(name, "->", r, LOG)\n    except KeyError:\n        print(name, "-> KeyError", LOG)\n    except ValueError:\n        print(name, "-> ValueError", LOG)\n    except TypeError:\n        print(name, "-> TypeError", LOG)\ndef s1():\n    L = [0, 1, 2, 3, 4]\n    L[v("lo", I("lo", 1)):v("hi", I("hi", 3))] = v("rhs", gen("g", [7, 8, 9]))\n    return L\ndef s2():\n    L = [0, 1, 2, 3, 4]\n    it = gen("g", [7, 8])\n    try:\n        L[I("lo", 1, fail=True):3] = it\n    except KeyError:\n        LOG.append("caught")\n    return L, list(it)\ndef s3():\n    c = [0, 1, 2]\n    c[I("grow", 1, c, grow=True):] = iter(c)\n    return c\ndef s4():\n    L = [0, 1, 2, 3, 4, 5]\n    L[I("lo", 0):I("hi", 6):I("step", 2)] = gen("g", [7, 8, 9])\n    return L\ndef s5():\n    L = [0, 1, 2, 3, 4]\n    del L[I("lo", 1):I("hi", 3)]\n    return L\ndef s6():\n    L = [0, 1, 2, 3, 4]\n    return L[I("lo", 1):I("hi", 4):I("step", 2)], (0, 1, 2, 3)[I("a", 1):I("b", 3)], "abcdef"[I("a", 1):I("b", 3)], list(range(10)[I("a", 2):I("b", 5)])\ndef s7():\n    L = [0, 1, 2]\n    L[I("i", 1)] = v("rhs", 5)\n    return L, L[I("j", 2)]\ndef s8():\n    L = [0, 1, 2, 3]\n    L[I("lo", 1):I("hi", 2)] = map(lambda x: v("m" + str(x), x), [5, 6])\n    return L\ndef s9():\n    L = [0, 1, 2, 3]\n    L[I("lo", 3, L, grow=True):I("hi", 9)] = gen("g", [7])\n    return L\nfor n, f in (("s1", s1), ("s2", s2), ("s3", s3), ("s4", s4), ("s5", s5), ("s6", s6), ("s7", s7), ("s8", s8), ("s9", s9)):\n    show(n, f)\n'


class Item:
    __slots__ = ('part', 'tags', 'code', 'key', 'nontrivial', 'node', 'model', 'single', 'tokens', 'env')

    def __init__(self, part, tags, code, key, nontrivial, node=None, model=None, single=False, tokens=None, env=None):
        self.part, self.tags, self.code, self.key, self.nontrivial, self.node, self.model, self.single = part, tags, code, key, nontrivial, node, model, single
        self.tokens, self.env = tokens, env

    def subexpressions(self):
        """smaller expressions contained in this item: [(text, feature tag)] (used to attribute a failure to its smallest failing part)."""
        out = []
        if self.node is not None:
            for n in self.node.walk():
                if n.kind in ('leaf', 'const') or n is self.node:
                    continue
                out.append((n.text, 'tree:%s' % n.kind))
        elif self.tokens is not None:
            toks = self.tokens
            opidx = []
            k = 0
            for t in toks:
                opidx.append(k if t == 'P' else None)
                if t == 'P':
                    k += 1
            for s0 in range(len(toks)):
                if not (toks[s0] == 'P' or toks[s0].startswith('u')):
                    continue
                for e0 in range(s0, len(toks)):
                    if toks[e0] != 'P' or (s0 == 0 and e0 == len(toks) - 1) or e0 == s0:
                        continue
                    sub = toks[s0:e0 + 1]
                    base = [i for i in opidx[s0:e0 + 1] if i is not None]
                    txt = render_tokens(sub, lambda i: 'v("%s", %s)' % (KEYS[base[i]], lit(self.env[base[i]])))
                    try:
                        ast.parse(txt, mode='eval')
                    except SyntaxError:
                        continue
                    out.append((txt, 'ops:' + skel_tags(sub)))
        return out


def run(tier, rep):
    quick = tier == 'quick'
    # ---------------- canary
    ccases = [{'id': 'can%d' % i, 'src': PRELUDE + s} for i, (s, _) in enumerate(CANARY)]
    cres, _ = run_vrun('exec', ccases, timeout_case=30)
    cora = oracle_exec(ccases)
    for c, (s, want) in zip(ccases, CANARY):
        g = cres.get(c['id'], {})
        o = cora.get(c['id'], {})
        if o.get('out') != want:
            rep.broke('canary %s: oracle printed %r, wanted %r' % (c['id'], o.get('out'), want))
        if g.get('out') != want or g.get('exc') or g.get('cerr') or g.get('panic'):
            rep.broke('canary %s: gpython printed %r (%s), wanted %r; src=%r' % (c['id'], g.get('out'), g.get('exc') or g.get('cerr') or g.get('panic'), want, s))
    if rep.broken:
        return

    items = []   # Item with code rendered by a function of the item's index inside its batch
    extra = {}

    # ---------------- (a) operator pairs / triples
    r = rng(PID, 'skeletons')
    sk = skeletons(tier, r)
    jobs = []
    for tokens, fam in sk:
        nsample = 150 if fam == 'pair' else (60 if quick else 50)
        nkeep = 3 if fam == 'pair' else 2
        jobs.append((tokens, r.getrandbits(48), nsample, nkeep))
    ctx = multiprocessing.get_context('fork')
    with ctx.Pool(common.NCPU) as pool:
        picked = pool.map(pick_assignments, jobs, chunksize=64)
    nalts = ndisc = nfull = nsyn = nnoenv = 0
    rr = rng(PID, 'render')
    for (tokens, fam), p in zip(sk, picked):
        skel = render_tokens(tokens, lambda i: KEYS[i])
        tags = fam + ':' + skel_tags(tokens)
        if p['syntax_error']:
            nsyn += 1
            env = p['envs'][0]
            expr = render_tokens(tokens, lambda i: 'v("%s", %s)' % (KEYS[i], lit(env[i])))
            items.append(Item('ops', tags + ':invalid', expr, ('ops', skel, 'syntax'), True, single=True))
            continue
        if not p['envs']:
            nnoenv += 1
            continue
        nalts += p['nalts']
        ndisc += p['ndisc']
        if p['nalts'] == p['ndisc']:
            nfull += 1
        for env, mo in zip(p['envs'], p['model']):
            expr = render_tokens(tokens, lambda i: 'v("%s", %s)' % (KEYS[i], lit(env[i])))
            items.append(Item('ops', tags, expr, ('ops', skel, repr(env)), True, model=mo, tokens=tokens, env=env))
    extra.update(skeletons=len(sk), skeleton_alternative_groupings=nalts, alternative_groupings_discriminated=ndisc, skeletons_all_alternatives_discriminated=nfull,
                 skeletons_invalid_syntax=nsyn, skeletons_without_safe_assignment=nnoenv)

    # ---------------- (b) expression trees
    r = rng(PID, 'trees')
    ntrees = 9000 if quick else 400000
    seen = set()
    kinds_seen = {}
    for _ in range(ntrees):
        g = TreeGen(r)
        depth = r.choice([2, 3, 3]) if quick else r.choice([2, 3, 3, 4])
        ty = r.choice(['int', 'int', 'int', 'int', 'bool', 'bool', 'str', 'list', 'tuple', 'dict', 'set'])
        n = g.gen(ty, depth)
        if g.n > (14 if quick else 18) or n.text in seen:
            continue
        seen.add(n.text)
        ks = sorted(set(x.kind for x in n.walk()) - {'leaf', 'const'})
        for k in ks:
            kinds_seen[k] = kinds_seen.get(k, 0) + 1
        items.append(Item('tree', 'tree:' + (n.kind), n.text, ('tree', n.text), g.n >= 2 and len(ks) >= 1, node=n))
    extra['tree_node_kinds'] = kinds_seen

    # ---------------- (c) assignment forms
    r = rng(PID, 'stmts')
    nst = 6000 if quick else 200000
    seen = set()
    forms_seen = {}
    for _ in range(nst):
        g = StmtGen(r)
        st, tags = g.stmt(r.choice([0, 1, 1, 2]))
        if st in seen or g.n > 14:
            continue
        seen.add(st)
        ctxs = r.choice(['module', 'global', 'local'])
        forms_seen[tags[0]] = forms_seen.get(tags[0], 0) + 1
        tg = [tags[0]] + sorted(set(t for t in tags[1:] if t in ('rhs-raises', 'length-mismatch', 'multi')))
        items.append(Item('assign', 'assign:' + '+'.join(tg), (st, ctxs), ('assign', st, ctxs), g.n >= 1))
    extra['assignment_forms'] = forms_seen

    # ---------------- batching
    rb = rng(PID, 'batch')
    batchable = [it for it in items if not it.single]
    singles = [it for it in items if it.single]
    per = 30
    cases = []
    members = {}

    def render_item(it, i):
        if it.part == 'assign':
            return item_stmt(i, it.code[0], it.code[1])
        k = (len(it.code) + i) % 3   # three rendering contexts: lambda body, module-level inline, def body
        if k == 0:
            return item_expr_lambda(i, it.code)
        if k == 1:
            return item_expr_inline(i, it.code)
        return item_expr_def(i, it.code)

    for bi in range(0, len(batchable), per):
        chunk = batchable[bi:bi + per]
        cid = 'b%d' % (bi // per)
        src = PRELUDE + ''.join(render_item(it, i) for i, it in enumerate(chunk))
        cases.append({'id': cid, 'src': src})
        members[cid] = chunk
    for si, it in enumerate(singles):
        cid = 's%d' % si
        cases.append({'id': cid, 'src': PRELUDE + 'print(%s)\n' % it.code})
        members[cid] = [it]

    import os
    if os.environ.get('C01_DUMP'):
        import json
        with open(os.environ['C01_DUMP'], 'w') as f:
            json.dump(cases, f)
    exp = oracle_exec(cases)
    got, _ = run_vrun('exec', cases, timeout_case=60)

    nontriv = set()
    disagree_samples = []
    model_disagree = 0
    model_checked = 0
    failing = []     # (item, expected line, got line, deviation)
    redo = []        # batches that went wrong as a whole -> re-run their items one by one
    evaluated = 0

    def judge_batch(cid, chunk, e, g, second_round):
        nonlocal evaluated, model_disagree, model_checked
        if e is None or e.get('oracle_failed') or g is None or g.get('timeout') or g.get('wall_timeout') or g.get('shard_failed'):
            rep.inconc('%s: %s' % (cid, ('oracle failed: ' + short((e or {}).get('oracle_failed'), 200)) if (e is None or e.get('oracle_failed')) else 'timeout/no result'))
            return
        if chunk[0].single:
            it = chunk[0]
            evaluated += 1
            nontriv.add(it.key)
            if not e.get('cerr'):
                rep.inconc('%s: CPython accepts %r' % (cid, it.code))
                return
            if g.get('panic') or g.get('crash'):
                rep.violation('C01|%s|panic' % it.tags, {'case': {'id': cid, 'src': 'print(%s)\n' % it.code}, 'expected': 'SyntaxError', 'got': short(g)})
            elif not g.get('cerr'):
                rep.violation('C01|%s|invalid-operator-sequence-accepted' % it.tags, {'case': {'id': cid, 'src': PRELUDE + 'print(%s)\n' % it.code}, 'expected': 'SyntaxError', 'got': short(g)})
            return
        if e.get('cerr') or e.get('exc'):
            if len(chunk) == 1:
                rep.inconc('%s: oracle: %s on %r' % (cid, e.get('cerr') or e.get('exc'), short(chunk[0].code)))
            else:
                redo.append(chunk)
            return
        abnormal = g.get('panic') or g.get('crash') or g.get('cerr') or g.get('exc') or g.get('harness_panic')
        if abnormal and len(chunk) > 1:
            redo.append(chunk)
            return
        el = parse_lines(e.get('out'))
        gl = parse_lines(g.get('out'))
        for i, it in enumerate(chunk):
            evaluated += 1
            if i not in el:
                rep.inconc('%s item %d: no oracle line' % (cid, i))
                continue
            if split_line(el[i])[:2] == ('E', 'other'):
                # never produced by a generated item itself: this is the oracle's own watchdog (TimeoutError) swallowed by the item's handler
                rep.inconc('%s item %d: oracle raised an exception outside the vocabulary (watchdog?)' % (cid, i))
                continue
            if it.model is not None and not second_round:
                model_checked += 1
                m = it.model
                mline = ('V %s | %s' % (m[1], ','.join(KEYS[j] for j in m[2]))) if m[0] == 'V' else ('E %s None | %s' % (m[1], ','.join(KEYS[j] for j in m[2])))
                if mline != el[i]:
                    model_disagree += 1
                    if len(disagree_samples) < 5:
                        disagree_samples.append({'item': it.code, 'model': mline, 'cpython': el[i]})
                    continue
            if it.nontrivial:
                nontriv.add(it.key)
            if abnormal and len(chunk) == 1:
                what = 'panic' if (g.get('panic') or g.get('crash') or g.get('harness_panic')) else ('compile-error' if g.get('cerr') else 'escaping-' + str(g.get('exc')))
                failing.append((it, el[i], short(g, 600), what))
                continue
            if gl.get(i) != el[i]:
                failing.append((it, el[i], gl.get(i), deviation(el[i], gl.get(i))))

    for c in cases:
        judge_batch(c['id'], members[c['id']], exp.get(c['id']), got.get(c['id']), False)
    # second round: items of abnormal batches, one per program
    if redo:
        cases2 = []
        mem2 = {}
        for chunk in redo:
            for it in chunk:
                cid = 'r%d' % len(cases2)
                cases2.append({'id': cid, 'src': PRELUDE + render_item(it, 0)})
                mem2[cid] = [it]
        exp2 = oracle_exec(cases2)
        got2, _ = run_vrun('exec', cases2, timeout_case=60)
        for c in cases2:
            judge_batch(c['id'], mem2[c['id']], exp2.get(c['id']), got2.get(c['id']), True)
    extra['batches_rerun_itemwise'] = len(redo)

    # ---------------- attribution of failures to the smallest failing sub-expression (coarse, stable signatures)
    sub_sig = {}
    subs = []
    owner = {}
    for fi, f in enumerate(failing[:600]):
        if len(subs) > 8000:
            break
        for txt, tag in f[0].subexpressions():
            cid = 'u%d' % len(subs)
            subs.append({'id': cid, 'src': PRELUDE + item_expr_lambda(0, txt)})
            owner[cid] = (fi, txt, tag)
    if subs:
        e3 = oracle_exec(subs)
        g3, _ = run_vrun('exec', subs, timeout_case=60)
        for c in subs:
            fi, txt, tag = owner[c['id']]
            e, g = e3.get(c['id']) or {}, g3.get(c['id']) or {}
            if e.get('oracle_failed') or e.get('cerr') or e.get('exc') or g.get('timeout') or not g:
                continue
            if g.get('out') != e.get('out') or g.get('exc') or g.get('panic') or g.get('cerr'):
                cur = sub_sig.get(fi)
                if cur is None or len(txt) < len(cur[0]):
                    sub_sig[fi] = (txt, tag)
    for fi, (it, eline, gline, dev) in enumerate(failing):
        tags = it.tags
        src_item = render_item(it, 0)
        w = {'case': {'id': 'w', 'src': PRELUDE + src_item}, 'item': it.code if isinstance(it.code, str) else it.code[0], 'item_tags': it.tags, 'expected': eline, 'got': gline}
        if it.part == 'ops' and not it.single:
            tags = 'ops:' + it.tags.split(':', 1)[1]
        if it.node is not None:
            tags = 'tree:%s' % it.node.kind
        if fi in sub_sig:
            tags = sub_sig[fi][1]
            w['smallest_failing_subexpression'] = sub_sig[fi][0]
        rep.violation('C01|%s|%s' % (tags, dev), w)

    # (d) "evaluated exactly once": the object / container / index sub-expressions of an assignment target are plain NAMES that the
    # right-hand side rebinds while it is being evaluated.  An augmented assignment reads them once, before the right-hand side; a plain
    # assignment evaluates its targets after it.  Module level (names rebound through globals()), class body (through its locals()),
    # function with declared globals, closure cells.
    rb = rebinding_programs()
    rb_exp = oracle_exec(rb)
    rb_got, _ = run_vrun('exec', rb, timeout_case=20)
    rb_n = 0
    for c in rb:
        e, g = rb_exp.get(c['id']) or {}, rb_got.get(c['id'])
        if g is None or e.get('oracle_failed') or e.get('cerr'):
            rep.inconc('rebinding program %s: no result / oracle failed' % c['id'])
            continue
        if c['id'].startswith('rbprobe'):
            if g.get('out') != e.get('out') or g.get('exc'):
                extra['rebinding_family_skipped'] = 'gpython does not support the rebinding route of %s' % c['id']
            continue
        if extra.get('rebinding_family_skipped') and c['ctx'] in extra['rebinding_family_skipped']:
            continue
        evaluated += 1
        rb_n += 1
        nontriv.add(('rebind', c['ctx'], c['stmt']))
        if g.get('panic') or g.get('crash') or (g.get('exc') or None) != (e.get('exc') or None) or g.get('out') != e.get('out') or g.get('cerr'):
            kind = 'aug' if re.search(r'[-+*/]=', c['stmt']) else 'assign'
            rep.violation('C01|rebinding-during-evaluation|ctx=%s|%s|%s' % (c['ctx'], kind, 'panic' if g.get('panic') or g.get('crash') else ('compile-error' if g.get('cerr') else 'wrong-object-or-state')),
                          {'case': {'id': c['id'], 'src': c['src']}, 'statement': c['stmt'], 'context': c['ctx'], 'expected': {k: e.get(k) for k in ('out', 'exc')},
                           'got': {k: short(g.get(k), 1200) for k in ('out', 'exc', 'excmsg', 'cerr', 'panic', 'stack') if g.get(k)}})
    extra['rebinding_programs'] = rb_n

    # (e) augmented assignment never changes an immutable operand in place (see augalias_programs)
    ag = augalias_programs()
    ag_exp = oracle_exec(ag)
    ag_got, _ = run_vrun('exec', ag, timeout_case=20)
    ag_n = 0
    for c in ag:
        e, g = ag_exp.get(c['id']) or {}, ag_got.get(c['id'])
        if g is None or e.get('oracle_failed') or e.get('cerr'):
            rep.inconc('augmented-assignment aliasing program %s: no result / oracle failed' % c['id'])
            continue
        evaluated += 1
        ag_n += 1
        nontriv.add(('augalias', c['op'], c['init']))
        if g.get('panic') or g.get('crash') or (g.get('exc') or None) != (e.get('exc') or None) or g.get('out') != e.get('out') or g.get('cerr'):
            el, gl = (e.get('out') or '').split('\n'), (g.get('out') or '').split('\n')
            where = next((x.split(' ')[0] for x, y in zip(el, gl + [''] * len(el)) if x != y), 'exception')
            kind = 'int' if '**' in c['init'] or c['init'].lstrip('-(').isdigit() else ('float' if '.' in c['init'] else c['init'][0])
            rep.violation('C01|augmented-assignment-object-semantics|op=%s|operand=%s|%s' % (c['op'], kind, 'panic' if g.get('panic') or g.get('crash') else where),
                          {'case': {'id': c['id'], 'src': c['src']}, 'operator': c['op'], 'initial': c['init'], 'right': c['rhs'], 'expected': {k: e.get(k) for k in ('out', 'exc')},
                           'got': {k: short(g.get(k), 1500) for k in ('out', 'exc', 'excmsg', 'cerr', 'panic', 'stack') if g.get(k)}})
    extra['augmented_assignment_aliasing_programs'] = ag_n

    # (f) bounds converted through __index__, lazy right-hand sides
    ic = [{'id': 'index-protocol', 'src': INDEX_PROG}]
    ie, (ig, _) = oracle_exec(ic), run_vrun('exec', ic, timeout_case=20)
    e, g = ie.get('index-protocol') or {}, ig.get('index-protocol')
    if g is None or e.get('oracle_failed') or e.get('exc') or e.get('cerr'):
        rep.inconc('index-protocol program: no result / oracle failed')
    else:
        el, gl = (e.get('out') or '').split('\n')[:-1], (g.get('out') or '').split('\n')
        for k, x in enumerate(el):
            evaluated += 1
            nontriv.add(('index-protocol', x.split(' ')[0]))
            y = gl[k] if k < len(gl) else None
            if x != y:
                rep.violation('C01|subscript-bound-conversion-and-lazy-value|%s|%s' % (x.split(' ')[0], 'panic' if g.get('panic') or g.get('crash') else ('escaped:%s' % g.get('exc') if y is None and g.get('exc') else 'order-or-value')),
                              {'case': ic[0], 'scenario': x.split(' ')[0], 'expected': x, 'got': y, 'exc': g.get('exc'), 'excmsg': g.get('excmsg'), 'panic': g.get('panic')})

    rep.evaluations += evaluated
    rep.nontrivial = nontriv
    extra.update(oracle_disagreement_samples=disagree_samples, programs=len(cases), items=len(items), oracle_disagreement=model_disagree, model_checked_items=model_checked,
                 items_by_part={p: sum(1 for it in items if it.part == p) for p in ('ops', 'tree', 'assign')})
    if model_checked and model_disagree > 0.01 * model_checked:
        rep.broke('grouping model and CPython disagree on %d of %d operator items' % (model_disagree, model_checked))
    rep.extra = extra
    rep.rule = ('(a) every operator pair and %s operator triples over 24 binary (arith, shift, bitwise, comparison incl. is/in, and/or), 4 unary and the conditional operator, each with up to 3 operand '
                'assignments chosen (by a grouping model run on all re-parenthesisations) so that Python\'s grouping differs observably from the alternatives; (b) seeded random typed expression trees of depth <=%d '
                'over arithmetic, bitwise, compare chains, and/or, ifexp, subscript, slice, attribute, calls (positional/keyword/*seq/**map/keyword-only), lambda with defaults, list/tuple/set/dict displays, with raising operands; '
                '(c) seeded assignment statements: multi-target, tuple/list/star/nested unpacking, augmented assignment on name/subscript/attribute/slice targets in module, global and local name contexts. '
                '(d) %d assignment statements whose target sub-expressions are names that the right-hand side rebinds while being evaluated, in module / class-body / declared-global / closure-cell context. '
                'non-trivial = distinct item with >=2 operators (a), >=2 logging operands and >=1 operator node (b), >=1 logging operand (c), on which the model (a) and CPython agree' % ('sampled' if quick else 'all', 3 if quick else 4, len(RB_STMTS)))
    smp = []
    for part in ('ops', 'tree', 'assign'):
        for it in items:
            if it.part == part and not it.single:
                smp.append({'part': part, 'tags': it.tags, 'item': it.code if isinstance(it.code, str) else it.code[0]})
                if len([s for s in smp if s['part'] == part]) >= 2:
                    break
    rep.samples = smp
    rep.assumptions = ['CPython 3.11 run of the same text is the reference; the generator stays in the version-stable fragment (no logging operand on both sides of one dict-display pair, never in both *seq and a keyword value, never in both positional and keyword-only lambda defaults)',
                       'values outside what gpython implements are not generated: bool arithmetic, sequence ordering, tuple concatenation, identity of str/float/tuple, int-keyed dicts, non-dyadic floats',
                       'exception types only; NameError family merged']
