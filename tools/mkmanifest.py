#!/usr/bin/python3
"""Regenerates /verif/MANIFEST.json from the table below (kept in one place so that it is always schema-valid)."""
import json, os, subprocess
ROOT = os.path.dirname(os.path.dirname(os.path.abspath(__file__)))

# what the third session added to each check (DESIGN.md 11.9)
ADDED = {
    'C01': 'augmented assignment and the objects it touches (aliases, slots, defaults, constants of ints beyond 64 bits); subscript bounds converted through __index__ before a lazy right-hand side is consumed.',
    'C02': 'exits pending across finally bodies / with-exits that run loops or suspend generators, every exit from every clause of every try layout in a loop, except clauses with non-exception members, raising non-exceptions, a bare raise in a callee (known finding).',
    'C03': 'locals()/vars()/eval()/exec() in class bodies with free variables; private-style names across nested scopes of one class.',
    'C04': 'default tables replaced after definition (also longer than the parameter list); calls and definitions around 255 arguments; receivers of Go callables with three live contexts (direct mode gorecv).',
    'C05': 'lazy built-in iterators used again after a fault; the iterator protocol inherited from a base class; resumption refused at the recursion limit.',
    'C06': 'keywords abutting numbers and brackets; identifiers beyond ASCII incl. reserved-word prefixes.',
    'C07': 'histories of 40 operations in one fresh process (bool operands, temporaries, floor-division probes); zeros after a base prefix.',
    'C08': 'recursion depth per context; what built-in types reveal about themselves; every function of the Go modules sys/math/string/binascii/marshal of the current tree called from all contexts at once.',
    'C09': 'module histories: failing then successful imports of registered modules with close callbacks, then Close (direct mode lifemods, a counter per module object).',
    'C10': 'directed programs: hostile interpreter hooks x actions, blocks nested to depth 40, every recursion route (one process each), function attributes; slices with uncomparable members; the same steps from 16 goroutines under the race build.',
    'C11': 'constant expressions of astronomically large value in all three modes.',
    'C12': 'the pending-exit family (also verified without being run), break/continue outside loops, recursion-limit resumption programs; the verifier bounds the number of live blocks.',
    'C13': 'U+FFFD in string operands; membership asked of iterators.',
    'C14': 'U+FFFD, U+0161, U+001F in the alphabet; bounds of any size; repr after a failed repr of the same container.',
    'C15': 'complex against ints beyond float range, both orders.',
    'C16': 'built-in classes among the bases; special methods along the MRO; dunder-named user attributes.',
    'C17': 'iterables that fail part way or watch the list grow; dict copies through **.',
    'C18': 'identifier-continuation characters inside names and at token starts in different sources.',
    'C19': 'modules in package directories (run invariant: no body twice, one object for all importers); search path entries that are not directories.',
    'C20': 'white-space-only lines; backslash splits with a complete first line; empty lines inside brackets inside blocks; syntax errors that quote the EOF message.',
}

CLAIMED = {
    # id: (category, technique, level text, level note, design ref)
    'C07': ('exploration', 'reference-model monitor: Go-API and compiled-source results vs CPython exact ints over a boundary lattice in both internal representations',
            'Every int operator is executed on the real py package for all pairs of a boundary lattice (and 3-arg pow triples, shifts, text conversions, random 1..192-bit operands), each operand in machine-word and big representation, and compared with exact integers; held = held on the enumerated operand space only.',
            'Trusts CPython 3.11 integer arithmetic as the definition of the exact result; lattice and random tail bound the operand space.', '6/C07'),
    'C09': ('exploration', 'controlled-scheduler interleaving enumeration at lifecycle yield points (hook H1) with an online trace checker, porcupine linearizability check against a latch model, goroutine-state deadlock detection, and race-detector stress',
            'All interleavings (at yield-point granularity, exhaustive for 2-goroutine scenarios, preemption-bounded for 3) of RunCode/ModuleInit/ResolveAndCompile/Close/Done-wait are executed on the real context; each execution is judged by ordering/exactly-once rules over a logical-clock event log and by porcupine; free-running rounds run under -race.',
            'Granularity = H1 yield points (code between two points is atomic under the scheduler); blocked-detection by stack sampling; >3 goroutines only in free-running stress.', '6/C09'),
    'C12': ('exploration', 'emitted-artifact invariant monitor (bytecode verifier by abstract interpretation over all static paths) plus dynamic stack/block-depth conformance at every executed instruction via hook H2',
            'Every code object compiled from the corpus (all repository .py files, seeded structurally rich generated programs, full-grammar modules of the C06 generator run over a universal object, definition forms - decorators x defaults x keyword-only defaults x annotations x closure x */** x lambda x context -, block stressors) is verified on all static paths against the VM semantics, and every executed instruction is compared with the predicted depth set; held = on those code objects and executions.',
            'The verifier is a model of vm/eval.go written by hand; the dynamic monitor cross-validates it. Corpus-bounded.', '6/C12'),
    'C11': ('exploration', 'boundary observation of (code, err) of py.Compile in isolated worker processes under recover() and a watchdog; accepted code is passed to the bytecode verifier',
            'Exhaustive short fragment sequences, seeded random sequences with invalid UTF-8, mutations of real programs, hostile assignment targets, full-grammar texts and their mutations, nested scope shapes and size stress are compiled in all three modes; every outcome must be a code object or a SyntaxError-family exception with filename/lineno/offset - never a panic, abort, reproduced hang or internal error type.',
            'Watchdog-based bounded progress instead of termination; input space bounded by the enumerations.', '6/C11'),
    'C18': ('exploration', 'self-reference monitor: canonical deep dump of every compiled code object compared with the first dump of the same input across repeats, interleavings, worker processes, concurrent goroutines (race detector) and two Go toolchains',
            'Every source of the corpus is compiled >=12 times (64+ in thorough) in three processes interleaved with other compilations and concurrently from 16 goroutines under -race while contexts run; all dumps of one input must be byte-identical.',
            'Only map orders that the runtime actually produced are covered.', '6/C18'),
    'C04': ('exploration', 'reference-model monitor: bound-parameter observations vs CPython and an independent binding model; identity monitor on arguments recorded by harness-registered Go callables (mode gocall)',
            'The exhaustive signature x call-shape product is executed on the real VM and compared with CPython (judged only where an independent binding model agrees); Go callables of the four supported signatures record what they receive as module functions, bound methods and through the class, from Python source and via py.Call.',
            'CPython 3.11 binding equals 3.4 binding on the generated fragment; product bounded as stated in the evidence rule.', '6/C04'),
    'C16': ('exploration', 'reference-model monitor: defining-class names observed per attribute access vs CPython and an in-file C3/lookup model over all small class DAGs',
            'All class DAGs up to the bound with sampled placements of attributes/methods/classmethods/staticmethods are built on the real interpreter; every instance/class read, write/delete visibility, isinstance and MRO acceptance/rejection is compared with CPython and a second C3 model.',
            'Hierarchies bounded (n<=4 exhaustive quick, n=5 exhaustive / n=6 sampled thorough); metaclasses, super(), property, __slots__ not covered.', '6/C16'),
    'C01': ('exploration', 'reference-model monitor: evaluation log + value of generated expressions/assignments vs CPython, with discriminating operand values computed from all alternative groupings',
            'All operator pairs (and sampled/all triples), bounded expression trees and assignment forms over self-logging operands run on the real compiler+VM; log, value and exception type must equal CPython\'s.',
            'Version-stable fragment only (DESIGN 3.1); trees bounded in depth; no user-defined operator overloading (absent in gpython).', '6/C01'),
    'C03': ('exploration', 'reference-model monitor: stdout / compile-time SyntaxError / NameError family vs CPython over enumerated scope nestings, plus repeat-compile agreement of code dumps (analysis-order independence)',
            'All depth-1 scope nestings x name roles (depth 2 sampled/exhaustive), classic closure patterns in six alpha-renamed spellings; every program is recompiled 8/64 times and the dumps must agree.',
            'CPython 3.11 scoping equals 3.4 on the generated fragment; name mangling, super/__class__ not covered.', '6/C03'),
    'C08': ('exploration', 'self-reference monitor (observation in a polluted process vs solo observation in a fresh process) + Go race detector over concurrent contexts with yields injected at instruction boundaries (hook H2)',
            'Every (polluter, observer) pair runs in its own process: observer in a fresh context after the polluter; N contexts run concurrently under -race with a shared code object, REPL sessions and a Go module imported by all; concurrent compilation. Polluters include every dict/list among the globals of every importable Go module, os.environ and state attached to runtime-raised exception objects.',
            'Interleavings are those the Go scheduler produced with the injected yields; process-wide resources shared by nature are excluded.', '6/C08'),
    'C10': ('exploration', 'crash monitor: recover() around every call of every builtin / type-dict callable / operator / compiled snippet over a value universe, worker exit status with progress-log attribution',
            'Every callable reachable from builtins and from the attribute table of each universe value\'s type, every operator entry point and 143 source snippets are applied to all argument tuples of arity 0-2 (3 over a sub-universe); any Go panic or process abort is a violation; pure CPU timeouts are inconclusive.',
            'Universe of 75 values incl. instances of Python subclasses of built-in types (inherited Go methods enumerated through the MRO), an object whose special methods return wrong-typed values, non-pair items; plus generated programs, full-grammar modules over a universal object and re-entrant callback programs (container operation x mutation from inside the callback); huge-size arguments only sampled in quick; out-of-memory aborts of huge repetitions are a known finding.', '6/C10'),
    'C13': ('exploration', 'reference-model monitor: first-principles sequence model cross-validated per case against CPython, over an exhaustive (type, length, start, stop, step) lattice via the Go API and compiled source',
            'All index/slice/set-slice/del-slice/concat/repeat/compare/contains/iteration operations on str, list, tuple, range, bytes of length 0..6 over the index lattice; operands must be unchanged and results must not alias.',
            'Lengths > 6 only in a random tail; six unimplemented feature pairs are skipped via a re-probed allowlist. Operands also with other construction histories (list built by append / shortened; tuple, str, list as the leading slice of a longer parent that must stay intact, or built from an iterator) and a second look: + and * run again with another right operand and the first result read again.', '6/C13'),
    'C14': ('exploration', 'reference-model monitor: string operations as code-point lists vs CPython over all short strings of a mixed-width alphabet; Go-level deep equality for repr->eval round trips',
            'All strings up to length 3 (4 thorough) plus sampled longer ones x every named operation and argument position; repr round trip of str, bytes, ints, floats and nested tuples/lists judged on encodings.',
            'Case mapping and Unicode-database dependent behaviour excluded.', '6/C14'),
    'C15': ('exploration', 'reference-model monitor: bit-exact float results / exception types vs CPython over a lattice of special doubles x boundary ints, plus seeded random bit patterns',
            'Every float and mixed operator, conversion, comparison, round, text form and folding builtin on the lattice; documented tolerances: ** within 1 ulp on inexact cases, complex division within 2 ulp.',
            'libm-dependent results compared with tolerance; math module functions excluded.', '6/C15'),
    'C17': ('exploration', 'reference-model monitor: state of every pool member after every step of generated container histories vs CPython executing the same history',
            'Exhaustive short histories and seeded random histories (to length 12) over aliased/copied pools of lists, string-keyed dicts and sets, including self-operand forms and list mutation during iteration/sort.',
            'Only methods gpython provides; dict/set mutation during iteration excluded.', '6/C17'),
    'C19': ('exploration', 'reference-model monitor: per-module execution logs, identities and import * name sets vs CPython run on the same module tree; exactly-once counters for harness-registered Go modules (mode gomod)',
            'Fixed graph shapes (chains, diamonds, cycles, self-import) x 8 statement forms x import orders, random digraphs, failing imports followed by further work; Go modules across several contexts.',
            'Packages/relative imports, .pyc and sys.modules manipulation not covered.', '6/C19'),
    'C20': ('exploration', 'self-reference monitor: REPL fed one physical line at a time (recording UI, captured stdout/stderr, globals snapshot per line; mode repl) vs the same statements compiled whole in single mode; generator-known statement boundaries for the prompt rule; CPython displayhook for echo/_',
            'Generated sessions of simple/compound/multi-line/erroneous statements; each statement must run exactly once, no later than its terminating blank line; prompts, echo, _ and error recovery are judged.',
            'Terminal integration (liner) and completion not covered.', '6/C20'),
    'C02': ('exploration', 'reference-model monitor: path trace (stdout markers), escaping exception type and (function, line) traceback vs CPython over enumerated statement nestings x exit actions at every point',
            'All chains of compound statements to the depth bound, with data-dependent actions (raise/return/break/continue/nested raising calls/iterator and context-manager faults) at every marked point; the same code object is driven down several paths.',
            'One statement per physical line so that 3.4 and 3.11 line attribution coincide; sys.exc_info/__context__/generator throw not covered.', '6/C02'),
    'C05': ('exploration', 'reference-model monitor: event traces of producers/consumers and per-operation results of next/send interleavings vs CPython',
            'Cross product of 37 consumers x 10 producer kinds x fault kind/position, and all next/send sequences of bounded length over pairs/triples of live generators (try/finally, loops, yield from with values).',
            'Generator bodies never leak StopIteration (PEP 479); throw/close not covered.', '6/C05'),
    'C06': ('exploration', 'reference-model monitor: ast.Dump of the real parser vs the generator-known tree (built first, rendered with seeded spelling variation) cross-checked with CPython ast converted to the 3.4 shape; literal values by evaluation; rejection of by-construction invalid texts and single-token mutations',
            'Seeded random trees over the 3.4 expression/statement grammar in exec/eval/single modes with redundant parentheses, spacing, comments, continuation lines, indentation variants, semicolons, trailing commas and string/number spellings; ~500+ literal spellings compared by value; 13 classes of invalid text plus mutations that CPython rejects.',
            'Two oracles must agree (generator tree and converted CPython tree) for a case to be judged; texts bounded by the generator depth; encodings/BOM/form feed not covered.', '6/C06'),
}

PENDING_REASON = 'check not built yet in this round (the design in DESIGN.md applies; nothing is claimed until the monitor exists and is silent on the unchanged tree)'

def main():
    props = [json.loads(l) for l in open(os.path.join(ROOT, 'properties.jsonl')) if l.strip()]
    hooks_commits = []
    try:
        out = subprocess.run(['git', '-C', '/repo', 'log', '--format=%h %s'], capture_output=True, text=True).stdout
        hooks_commits = [l.split()[0] for l in out.splitlines() if 'verif hook' in l]
    except Exception:
        pass
    checks = []
    na = []
    for p in props:
        pid = p['id']
        if pid in CLAIMED:
            cat, tech, text, note, ref = CLAIMED[pid]
            if pid in ADDED:
                text = text + ' Added in the third session (DESIGN 11.9): ' + ADDED[pid]
            checks.append({
                'property_id': pid,
                'quick_cmd': './check %s --tier quick' % pid,
                'thorough_cmd': './check %s --tier thorough' % pid,
                'evidence_file': 'evidence/%s.json' % pid,
                'replay_cmd_template': './check %s --replay {path}' % pid,
                'engine': 'vrun',
                'level_claimed': {'category': cat, 'text': text, 'design_ref': 'DESIGN.md §' + ref},
                'level_note': note,
                'technique': tech,
            })
        else:
            na.append({'property_id': pid, 'reason': NA.get(pid, PENDING_REASON)})
    m = {
        'version': 1,
        'setup_cmd': './setup.sh',
        'hooks': {
            'guard': 'verif',
            'enable': 'go build -tags verif (harness/ has `replace github.com/go-python/gpython => /repo`; every check rebuilds .build/vrun from /repo\'s working tree)',
            'baseline_off_cmd': 'cd /repo && GOFLAGS=-mod=mod GOPROXY=off GOSUMDB=off GOTOOLCHAIN=local go test -vet=off -count=1 ./...',
            'source_commits': hooks_commits,
            'add_only': True,
        },
        'engines': [
            {'name': 'vrun', 'path': 'harness/cmd/vrun', 'serves_properties': sorted(CLAIMED), 'kind_free_text': 'Go harness binary (build tag verif) executing generated cases against the real gpython packages in isolated worker processes; Python drivers (gen/*.py, lib/common.py) generate cases, obtain CPython reference observations, judge and write evidence'},
        ],
        'checks': checks,
        'not_applicable': na,
        'notes': 'Technique family: runtime monitoring. Each check observes executions of the real code rebuilt from /repo; see DESIGN.md. Known findings: known_findings.jsonl.',
    }
    with open(os.path.join(ROOT, 'MANIFEST.json'), 'w') as f:
        json.dump(m, f, indent=1)
    # validate
    try:
        import jsonschema
        jsonschema.validate(m, json.load(open('/root/.vp/MANIFEST.schema.json')))
        print('MANIFEST.json valid;', len(checks), 'claimed,', len(na), 'not claimed')
    except ImportError:
        print('jsonschema not available for /usr/bin/python3; written without validation')

NA = {}

if __name__ == '__main__':
    main()
