#!/usr/bin/python3
"""Regenerates the seed table of DESIGN.md §11.6 (between the SEEDTABLE markers) from seeded/*/meta.json."""
import json, glob, os, re
ROOT = os.path.dirname(os.path.dirname(os.path.abspath(__file__)))
rows = []
neutral = []
n = ns = 0
for d in sorted(glob.glob(os.path.join(ROOT, 'seeded', '*-m*'))):
    m = json.load(open(os.path.join(d, 'meta.json')))
    c = m.get('confirmed_here', {})
    summ = (m.get('summary') or '').replace('|', '/').replace('\n', ' ')
    if len(summ) > 150:
        summ = summ[:150].rsplit(' ', 1)[0] + ' …'
    st = bool(c.get('check_strengthened_because_of_this_seed'))
    if m.get('neutralised'):
        neutral.append(os.path.basename(d))
    n += 1
    ns += st
    rows.append('| %s | %s | %s | %s |' % (os.path.basename(d), ', '.join(m.get('files', [])) or '-', summ, '**yes**' if st else 'no'))
tbl = ('<!-- SEEDTABLE-BEGIN -->\n%d changes, each caught by the quick tier of the check of its property when it was kept; **%d were missed on the first run** and the check was\n'
       'strengthened until it caught them (column "strengthened"): what each needed is the coverage that was missing. %s\n\n'
       '| seed | file(s) changed | change | strengthened |\n|---|---|---|---|\n' % (n, ns, ('Later `fix:` commits made %d of them harmless (%s: the seed\'s own demonstration passes on the patched current tree, the check is rightly silent; see `neutralised` in their meta.json).' % (len(neutral), ', '.join(neutral))) if neutral else '')) + '\n'.join(rows) + '\n<!-- SEEDTABLE-END -->'
p = os.path.join(ROOT, 'DESIGN.md')
s = open(p).read()
if '<!-- SEEDTABLE-BEGIN -->' in s:
    s = re.sub(r'<!-- SEEDTABLE-BEGIN -->.*?<!-- SEEDTABLE-END -->', lambda _: tbl, s, flags=re.S)
else:
    a = s.index('41 changes, all caught by the quick tier')
    b = s.index('What the misses taught')
    s = s[:a] + tbl + '\n\n' + s[b:]
open(p, 'w').write(s)
print(n, 'seeds,', ns, 'needed strengthening')
