#!/bin/bash
# usage: tools/seed_sweep.sh [streams]   - re-verifies every kept seed against /repo HEAD: scratch worktree, git apply, go build, the quick
# tier of the seed's check against that tree (VERIF_REPO) with its evidence written to a scratch directory (VERIF_EVIDENCE_DIR), verdict per
# seed in seeded/SWEEP.txt.  (The repository's own test suite was run when each seed was first confirmed: tools/try_seed.sh.)
ROOT=$(cd "$(dirname "$0")/.." && pwd); N=${1:-4}
export GOFLAGS=-mod=mod GOPROXY=off GOSUMDB=off GOTOOLCHAIN=local
OUT=$(mktemp -d /tmp/seedsweep.XXXXXX)
one() {
  d=$1; id=$(basename $d);
  # SWEEP_RESUME=1: seeds already listed in seeded/SWEEP.txt.prev are copied, not re-run
  if [ -n "$SWEEP_RESUME" ] && grep -q "^$id " $ROOT/seeded/SWEEP.txt.prev 2>/dev/null; then grep "^$id " $ROOT/seeded/SWEEP.txt.prev | head -1; return; fi
  chk=$(/usr/bin/python3 -c "import json,sys;print(json.load(open('$d/meta.json'))['property'])")
  wt=$OUT/wt.$id
  git -C /repo worktree add -q --detach "$wt" HEAD 2>/dev/null || { echo "$id $chk WORKTREE-FAILED"; return; }
  if ! (cd "$wt" && git apply "$d/patch.diff" 2>/dev/null); then echo "$id $chk PATCH-DOES-NOT-APPLY"; git -C /repo worktree remove --force "$wt"; return; fi
  if ! (cd "$wt" && go build ./... >/dev/null 2>&1); then echo "$id $chk DOES-NOT-BUILD"; git -C /repo worktree remove --force "$wt"; return; fi
  mkdir -p $OUT/ev.$id
  (cd $ROOT && VERIF_REPO="$wt" VERIF_EVIDENCE_DIR=$OUT/ev.$id ./check $chk > $OUT/$id.out 2>&1); rc=$?
  nv=$(grep -c "^VIOLATION" $OUT/$id.out)
  echo "$id $chk exit=$rc violation_lines=$nv $(tail -1 $OUT/$id.out | sed 's/.*violations=/violations=/' | cut -c1-60)"
  git -C /repo worktree remove --force "$wt" >/dev/null 2>&1
}
export -f one; export OUT ROOT
# seeds of one property run one after the other (they share that property's replay directory); properties run in parallel
for c in $(ls -d $ROOT/seeded/*/ | xargs -n1 basename | cut -d- -f1 | sort -u); do echo $c; done | xargs -P $N -I{} bash -c 'for d in '$ROOT'/seeded/{}-*/; do one ${d%/}; done' | tee $ROOT/seeded/SWEEP.txt
git -C /repo worktree prune; rm -rf $OUT
sort -o $ROOT/seeded/SWEEP.txt $ROOT/seeded/SWEEP.txt
echo "caught: $(grep -c 'exit=1' $ROOT/seeded/SWEEP.txt) of $(wc -l < $ROOT/seeded/SWEEP.txt)"
