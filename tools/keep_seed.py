#!/usr/bin/python3
"""usage: tools/keep_seed.py <seed-out-dir (contains patch.diff, demo*, meta.json)> <seed-id> <property> '<what I ran / outcome JSON>'
Copies a confirmed seeded change into /verif/seeded/<seed-id>/ and completes meta.json."""
import sys, os, json, shutil
src, sid, prop, ran = sys.argv[1:5]
ROOT = os.path.dirname(os.path.dirname(os.path.abspath(__file__)))
dst = os.path.join(ROOT, 'seeded', sid)
os.makedirs(dst, exist_ok=True)
for fn in os.listdir(src):
    p = os.path.join(src, fn)
    if os.path.isfile(p) and os.path.getsize(p) < 200000 and (fn == 'patch.diff' or fn.startswith('demo') or fn in ('meta.json', 'go.mod')):
        shutil.copy(p, os.path.join(dst, fn))
meta = {}
mp = os.path.join(dst, 'meta.json')
if os.path.exists(mp):
    try:
        meta = json.load(open(mp))
    except Exception:
        meta = {'raw_meta': open(mp).read()}
meta['property'] = prop
meta['confirmed_here'] = json.loads(ran)
json.dump(meta, open(mp, 'w'), indent=1)
print('kept', dst, sorted(os.listdir(dst)))
