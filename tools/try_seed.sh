#!/bin/bash
# usage: tools/try_seed.sh <patch.diff> <Cxx> [tier]   - applies a seeded change to a scratch worktree of /repo HEAD, confirms that it
# builds and passes the repository's own tests, then runs ./check Cxx against it (VERIF_REPO) and prints the verdict.
patch=$(readlink -f "$1"); chk=$2; tier=${3:-quick}
ROOT=$(cd "$(dirname "$0")/.." && pwd)
export GOFLAGS=-mod=mod GOPROXY=off GOSUMDB=off GOTOOLCHAIN=local
wt=$(mktemp -d /tmp/seedwt.XXXXXX); rmdir "$wt"
git -C /repo worktree prune
git -C /repo worktree add -q "$wt" HEAD || exit 9
trap 'git -C /repo worktree remove --force "$wt" >/dev/null 2>&1' EXIT
cd "$wt" && git apply "$patch" || { echo "SEED: patch does not apply"; exit 8; }
go build ./... 2>&1 | tail -3
t=$(go test -vet=off -count=1 ./... 2>&1 | grep -v "^ok\|no test files" | head -5)
if [ -n "$t" ]; then echo "SEED: existing tests FAIL with the change:"; echo "$t"; else echo "SEED: builds, existing tests pass"; fi
cd "$ROOT" && VERIF_REPO="$wt" ./check "$chk" --tier "$tier" > "/tmp/seedrun.$chk.out" 2>&1
rc=$?
grep -c "^VIOLATION" "/tmp/seedrun.$chk.out" | sed 's/^/SEED: VIOLATION lines: /'
grep "signature:" "/tmp/seedrun.$chk.out" | head -6
tail -1 "/tmp/seedrun.$chk.out"
echo "SEED: check exit $rc"
# the evidence file was overwritten by this run against a changed tree: restore the committed one
git -C "$ROOT" checkout -- "evidence/$chk.json" 2>/dev/null
exit 0
