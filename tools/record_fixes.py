#!/usr/bin/python3
"""Regenerates the 'fixed' entries of known_findings.jsonl from /repo's 'fix:' commits (hashes are looked up at run time,
so the file stays right after a rebase). 'known' entries and comments are kept as they are."""
import json, os, re, subprocess
ROOT = os.path.dirname(os.path.dirname(os.path.abspath(__file__)))
RULES = [
    (r'REPL decides that input is incomplete', 'C20'),
    (r'search path entry that is not a directory', 'C19'),
    (r'comparing slices whose members|__annotations__ of a function without', 'C10'),
    (r'raising something that is not an exception', 'C02'),
    (r'int\(\) in base 0', 'C07'),
    (r'special methods an instance inherits', 'C16'),
    (r"'break' inside a try or with", 'C12'),
    (r'more than 255 arguments', 'C04'),
    (r'resumed inside an except block', 'C05'),
    (r'iter\(callable, sentinel\) stays exhausted', 'C05'),
    (r'is_integer\(\) is False', 'C15'),
    (r'a sign is not a hex digit', 'C06'),
    (r'package level variables are raised as a new object|among a Go module.s globals is copied', 'C08'),
    (r'bytes \+= makes a new object', 'C13'),
    (r'unexpected Go type|non-string raise TypeError|not pairs raises ValueError', 'C10'),
    (r'decorators of a function with default', 'C12'),
    (r'set member of a type the set cannot hold', 'C10'),
    (r'worth of a tab|backslash-newline inside a string', 'C06'),
    (r'survive the list being changed|cannot be allocated', 'C10'),
    (r'context admission and Close', 'C09'),
    (r'intSub|intMul|divMod|three-argument pow|shift counts|int\(\) text', 'C07'),
    (r'LOAD_CLASSDEREF', 'C12'),
    (r'tuple/list/starred target|assembler failed', 'C11'),
    (r'attribute reads on a class|isinstance follows|class attribute reads also|restrict the class attribute|recognise types made', 'C16'),
    (r'Go method read through its type|alias the VM value stack|keyword-only defaults|f\(\*\*x\)', 'C04'),
    (r'built-in types cannot be set|REPL no longer swaps|sys\.displayhook|ModuleImpl\.Code', 'C08'),
    (r'user-defined exception classes|traceback|__exit__|with statement', 'C02'),
    (r'repr of a 1-tuple|str\.|ord\(\)|strip chars', 'C14'),
    (r'importing a missing module|from m import \*|module whose body raised', 'C19'),
    (r"leaves '_' alone|white space at the primary prompt", 'C20'),
    (r'unbounded recursion', 'C10'),
    (r'generator|yield from|StopIteration|for loop|FOR_ITER|unpack|iterat|enumerate', 'C05'),
    (r'float|round\(|int / int|complex|min.*max|nan|inf', 'C15'),
    (r'decorator|trailing comma|augmented assign|non-keyword arg|bare \*|bytes literal|raw string|try without|starred expression|grammar|parser|parsed', 'C06'),
    (r'sort|extend|dict\(|set augmented|\*=|list iterator|\+= ', 'C17'),
    (r'tuple slice|list slices|tuple concat|range|slice|index|bytes .*contains|repeat|sequence', 'C13'),
    (r'panick|panic|instead of aborting|unbounded recursion', 'C10'),
]


def main():
    log = subprocess.run(['git', '-C', '/repo', 'log', '--reverse', '--format=%h%x00%s%x00%b%x01'], capture_output=True, text=True).stdout
    fixes = []
    for rec in log.split('\x01'):
        rec = rec.strip('\n')
        if not rec:
            continue
        h, s, b = rec.split('\x00')
        if not s.startswith('fix:'):
            continue
        prop = None
        for rx, p in RULES:
            if re.search(rx, s):
                prop = p
                break
        prop = prop or 'C10'
        body = ' '.join(b.split())
        what = s[4:].strip()
        fixes.append({'status': 'fixed', 'property': prop, 'commit': h, 'what': 'fixed: property=%s %s %s%s' % (prop, h, what, (' - ' + body[:260]) if body else '')})
    path = os.path.join(ROOT, 'known_findings.jsonl')
    keep = []
    for line in open(path):
        if not line.strip():
            continue
        if line.startswith('#'):
            keep.append(line.rstrip('\n'))
            continue
        r = json.loads(line)
        if r.get('status') == 'fixed':
            continue
        keep.append(line.rstrip('\n'))
    with open(path, 'w') as f:
        for l in keep:
            f.write(l + '\n')
        for x in fixes:
            f.write(json.dumps(x) + '\n')
    print('%d fixed entries, %d other lines' % (len(fixes), len(keep)))


if __name__ == '__main__':
    main()
